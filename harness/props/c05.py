"""C05 — temperature and logarithmic conversions follow their formulas and invert.

translator : TemperatureUnitType methods (exact affine abstract execution), LogarithmicUnitType
             conversions / methods (symbolic execution), process lists, UNIT_TYPES order
             -> Generated/C05Tables.lean (theorems over the whole tables re-checked by the build)
correspondence : real Quantity(x,u).value(v) / .to(v) / a+b / a-b vs Lean model (Float) vs Lean spec
"""
import math
import warnings
from fractions import Fraction as F

from harness.core import Ctx
from harness.props import c04c05_units as U
from harness.props import c04 as C4

RULE = ("temperature: all 16 ordered pairs of {K, Cel, degF, degR} x every admissible prefix of K (quick: sampled) x "
        "values with 0 <= T <= 1e9 K (grid incl. 0 K, 273.15 K, -40, arrays); logarithmic: every documented pair "
        "(B/Np <-> PR/AR, each dB-type unit <-> its linear counterpart, B <-> Np, the dB-type pairs in the table) in both "
        "directions x admissible prefixes x levels within +-200 dB / ratios within 1e+-20, every unit to itself with all "
        "prefix combinations, level addition/subtraction for every bel-type unit (same or mixed prefix), the documented "
        "examples verbatim, level sums / differences with array magnitudes on both operands (equal shapes, stronger and weaker level "
        "changing from element to element) or array with scalar, judged element by element, histories in which 2-3 level operands are built once and reused across 3-7 additions, "
        "subtractions, reads and conversions to the linear counterpart (every result expected from the operands as "
        "constructed; `+=` / `-=` included and followed), every judged conversion with its target named in one of eight ways, "
        "70% of the judged conversions repeated with an absolute or relative uncertainty attached (same value "
        "required), at the end rounds that open and close unit environments whose custom units name the built-in conversion "
        "classes (conversions inside, UNIT_TYPES compared before/after, samples of all judged streams and level sums re-run "
        "afterwards; the tables are re-extracted at the end of the run and must equal the generated ones), "
        "plus a model-only stream of pairs mixing temperature/logarithmic units with arbitrary units "
        "(accept/refuse and value compared with the model, not judged). non-trivial = different units or prefixes, or an "
        "addition/subtraction; distinct = (u, v, value) text")
ASSUMPTIONS = [
    "np.log10/np.log/np.exp/np.power are the real functions log10/ln/exp/10^x (correspondence tolerance: relative 1e-9 "
    "plus an absolute term scaled to the operands where a difference cancels)",
    "degR's table magnitude 0.5555555555555556 stands for 5/9 (kernel-checked to be within 1e-15 of it)",
    "the direct B<->Np constant 1.151277918 is only required to invert (it differs from ln(10)/2 in the 5th digit)",
    "levels are compared for power ratios > 0; subtraction is judged for a - b >= 0.5 dB (cancellation)",
    "unit tokens are generated only if, by the tables alone, they denote the intended unit (the parser is not consulted)",
    "every judged conversion names its target in one of eight ways (string, BaseUnits, dict, Quantity of magnitude 1 or tm, "
    "Unit().attr, Unit(v), tm*Unit(v)), conversions to unprefixed kelvin also by its dimension vector (list) or Dimensions "
    "object - a dimension vector names base units, and kelvin is the only base unit in this property's domain (a level "
    "unit converted to the base-unit expansion of W, V, ... is not a documented pair and is refused by the code); for Quantity targets the expected value is the documented one divided by tm and "
    "value() (which takes no Quantity) is not called",
    "Decimal magnitudes: the unchanged code accepts them only where the method body never combines them with a float literal; "
    "where it does accept one, value()/to() must agree with the float result (same tolerance); a refusal is not judged",
    "np.linspace(Quantity(s,v), Quantity(x,u), 3) converts its second end point to the first one's units: that end point is "
    "judged like value(v) (30% of the scalar cases; np.logspace is not exercised)",
    "the documented compound pair W/m2 <-> dBSIL carries admissible prefixes on every component; a level unit inside a fraction "
    "with a PREFIXED denominator (dBm/kHz) is not generated: the code multiplies the level by the denominator's factor there "
    "(observed, outside the documented examples, not judged)",
    "level histories follow `a += b` / `a -= b` as a = a + b / a = a - b; a subtraction whose operands have come closer "
    "than 0.5 dB is dropped before running; the absolute tolerance grows by 1e-11/prefix per augmented step",
    "on every stream, a to() that raises must leave value and units as they were (impl-only oracle: the code assigns only after "
    "a successful conversion); "
    "impl != model on the model-only 'mixed' stream (arbitrary pairs outside the property's domain) is counted and noted, "
    "never a failure; unit environments are closed in a finally block",
    "the single-operation add/sub stream builds fresh operands; the history stream reuses operands and judges repeated "
    "results and the operands' later readings/conversions (values only; uncertainty and aliasing are C07/C08's)",
    "pairs of logarithmic units that are not documented/table pairs (e.g. dBA<->dBuA, dBm<->dBSWL) are refused by the code; "
    "this is compared with the model and not judged",
]
EXPLANATION = ("kernel-decided facts over the regenerated tables (every temperature method = standard affine map, all 16 pairs "
               "present, pairwise inverse laws, every logarithmic entry = documented kind/factor/reference, inverse entry "
               "present, every process unit converts to itself) lifted to round-trip theorems over any field (temperature) "
               "and over the reals (logarithms) and to the power-sum law of level addition/subtraction")
EXTRA_OBLIGATIONS = []

TEMPS = ["K", "Cel", "degF", "degR"]
# documented levels: symbol, linear counterpart items (without prefix), k, reference in SI units of the counterpart
DOC_LEVELS = [
    ("Bm", "W", 1, F(1, 1000)), ("BmW", "W", 1, F(1, 1000)), ("BW", "W", 1, F(1)),
    ("BV", "V", 2, F(1)), ("BuV", "V", 2, F(1, 10**6)), ("BA", "A", 2, F(1)), ("BuA", "A", 2, F(1, 10**6)),
    ("BOhm", "Ohm", 2, F(1)), ("BSPL", "Pa", 2, F(2, 10**5)), ("BSIL", "W/m2", 1, F(1, 10**12)),
    ("BSWL", "W", 1, F(1, 10**12)),
    ("B", "PR", 1, F(1)), ("B", "AR", 2, F(1)),
]
NEPER = [("Np", "PR", F(1, 2)), ("Np", "AR", F(1))]


def gen_tables(ctx):
    return U.gen_c05_tables()


def scale_of(cat, p, u):
    """T_K = s*x + o (exact)"""
    if u == "K":
        return (F(cat.prefix_mag[p]) if p else F(1), F(0))
    if u == "degR":
        return (F(5, 9), F(0))
    if u == "Cel":
        return (F(1), F("273.15"))
    return (F(5, 9), F("459.67") * F(5, 9))


def lin_items(lin, p, p2=None):
    """linear counterpart; for the compound W/m2 every component may carry an admissible prefix (mW/cm2)"""
    if lin == "W/m2":
        return [(p, "W", (1, 1)), (p2, "m", (-2, 1))]
    return [(p, lin, (1, 1))]


def pmag(cat, p):
    return cat.prefix_mag[p] if p else 1.0


def prefixes_of(cat, s):
    return [None] + list(cat.units[s][2])


# ------------------------------------------------------------------ case generation
def temp_cases(ctx, cat):
    rng = ctx.rng
    thorough = ctx.tier == "thorough"
    kelvins = [F(0), F(1, 1000), F(1), F("233.15"), F("273.15"), F(300), F(5778), F(10**6), F(10**9)]
    out = []
    kp = prefixes_of(cat, "K")
    for u in TEMPS:
        for v in TEMPS:
            pus = kp if u == "K" else [None]
            pvs = kp if v == "K" else [None]
            combos = [(a, b) for a in pus for b in pvs]
            if not thorough and len(combos) > 6:
                combos = [(None, None)] + rng.sample(combos, 5)
            for pu, pv in combos:
                su, ou = scale_of(cat, pu, u)
                xs = []
                for _ in range(3 if thorough else 2):
                    tk = rng.choice(kelvins) if rng.random() < 0.6 else F(math.exp(rng.uniform(-5, 20)))
                    xs.append(float((tk - ou) / su))
                xs.append(rng.choice([0.0, 1.0, -40.0, 100.0, 23.0]) if u in ("Cel", "degF") else rng.choice([0.0, 1.0, 23.0]))
                if rng.random() < 0.3:
                    xs.append([float((tk - ou) / su) for tk in rng.sample(kelvins, 3)])
                for x in xs:
                    out.append({"stream": "temp", "x": x, "iu": [(pu, u, (1, 1))], "iv": [(pv, v, (1, 1))],
                                "spec": ("temp", u, pu, v, pv)})
    return out


def level_values(rng, n):
    vals = [0.0, 1.0, -3.0, 10.0, 39.0, -60.0, 100.0]
    return [rng.choice(vals) if rng.random() < 0.5 else rng.uniform(-200, 200) for _ in range(n)]


def log_cases(ctx, cat):
    rng = ctx.rng
    thorough = ctx.tier == "thorough"
    out = []
    for L, lin, k, ref in DOC_LEVELS:
        first = "W" if lin == "W/m2" else lin
        combos = [(pl, pn) for pl in prefixes_of(cat, L) for pn in prefixes_of(cat, first)]
        if not thorough and len(combos) > 5:
            combos = [(None, None), ("d", None)] + rng.sample(combos, 3)
        for pl, pn in combos:
            p2 = rng.choice([None, None] + prefixes_of(cat, "m")) if lin == "W/m2" else None
            iL, iN = [(pl, L, (1, 1))], lin_items(lin, pn, p2)
            linfac = pmag(cat, pn) / pmag(cat, p2) ** 2 if lin == "W/m2" else pmag(cat, pn)
            spec = {"kk": k, "ref": ref, "p": pmag(cat, pl), "lin": linfac}
            for y in level_values(rng, 2):
                yy = y / (10 * pmag(cat, pl))        # y decibels expressed in the unit
                out.append({"stream": "level->linear", "x": yy, "iu": iL, "iv": iN, "spec": ("fromLevel", spec)})
            for _ in range(2):
                r = math.exp(rng.uniform(-46, 46))   # x_SI/ref within 1e+-20
                x = r * float(ref) / linfac
                out.append({"stream": "linear->level", "x": x, "iu": iN, "iv": iL, "spec": ("toLevel", spec)})
            if rng.random() < 0.3:
                out.append({"stream": "linear->level", "x": [float(ref) / linfac, 10 * float(ref) / linfac, 3.3],
                            "iu": iN, "iv": iL, "spec": ("toLevel", spec)})
    for L, lin, k in NEPER:
        for pl in prefixes_of(cat, L):
            iL, iN = [(pl, L, (1, 1))], [(None, lin, (1, 1))]
            spec = {"kk": k, "ref": F(1), "p": pmag(cat, pl), "lin": 1.0}
            for _ in range(3):
                y = rng.uniform(-20, 20) / pmag(cat, pl)
                out.append({"stream": "neper->ratio", "x": y, "iu": iL, "iv": iN, "spec": ("fromNeper", spec)})
                out.append({"stream": "ratio->neper", "x": math.exp(rng.uniform(-40, 40)), "iu": iN, "iv": iL,
                            "spec": ("toNeper", spec)})
    # table pairs of dB-type units sharing a linear counterpart: L_v = L_u + k*log10(ref_u/ref_v) bels
    doc = {L: (lin, k, ref) for L, lin, k, ref in DOC_LEVELS if L != "B"}
    _, ut = U.units_mod()
    for key in ut.LogarithmicUnitType.conversions:
        for a in doc:
            for b in doc:
                if key == "%s_%s" % (a, b) and a != b:
                    (lin, k, ra), (_, _, rb) = doc[a], doc[b]
                    for pa in prefixes_of(cat, a):
                        for pb in prefixes_of(cat, b):
                            for y in level_values(rng, 1):
                                out.append({"stream": "level->level", "x": y, "iu": [(pa, a, (1, 1))], "iv": [(pb, b, (1, 1))],
                                            "spec": ("shift", k * math.log10(float(ra / rb)), pmag(cat, pa), pmag(cat, pb))})
    # B <-> Np: only inversion is demanded
    for pa in prefixes_of(cat, "B"):
        for pb in prefixes_of(cat, "Np"):
            for y in level_values(rng, 1):
                out.append({"stream": "B<->Np", "x": y, "iu": [(pa, "B", (1, 1))], "iv": [(pb, "Np", (1, 1))], "spec": ("invert",)})
                out.append({"stream": "B<->Np", "x": y, "iu": [(pb, "Np", (1, 1))], "iv": [(pa, "B", (1, 1))], "spec": ("invert",)})
    # every unit to itself
    for s in list(ut.LogarithmicUnitType.process) + TEMPS + ["PR", "AR"]:
        for pa in prefixes_of(cat, s):
            for pb in prefixes_of(cat, s):
                if ctx.tier != "thorough" and s == "K" and rng.random() < 0.9 and (pa, pb) != (None, None):
                    continue
                x = rng.choice([0.0, 1.0, 23.0, -7.5, 300.0]) if rng.random() < 0.7 else [2.0, 39.0]
                out.append({"stream": "identity", "x": x, "iu": [(pa, s, (1, 1))], "iv": [(pb, s, (1, 1))],
                            "spec": ("shift", 0.0, pmag(cat, pa), pmag(cat, pb))})
    return out


def mixed_cases(ctx, cat, count):
    """model-only: the class selection of _istype on arbitrary pairs involving offset / logarithmic units"""
    rng = ctx.rng
    _, ut = U.units_mod()
    special = list(ut.LogarithmicUnitType.process) + list(ut.TemperatureUnitType.process)
    out = []
    for _ in range(count):
        def side():
            r = rng.random()
            if r < 0.5:
                s = rng.choice(special)
                it = [(C4.pick_prefix(cat, rng, s), s, (1, 1))]
                if rng.random() < 0.35:
                    extra = rng.sample(cat.linear, rng.choice([1, 1, 2]))
                    it += [(C4.pick_prefix(cat, rng, t), t, rng.choice([(1, 1), (-1, 1), (2, 1)])) for t in extra]
                    if rng.random() < 0.3:
                        rng.shuffle(it)
                return it
            if r < 0.6:
                return []
            return C4.random_items(cat, rng, 2)
        iu, iv = side(), side()
        if not iv:
            continue
        out.append({"stream": "mixed", "x": rng.choice([1.0, 2.5, 39.0, 300.0, [1.0, 20.0]]), "iu": iu, "iv": iv, "spec": None})
    return out


# ------------------------------------------------------------------ judgement
def spec_request(cat, c):
    sp = c["spec"]
    if sp is None:
        return None
    if sp[0] == "temp":
        _, u, pu, v, pv = sp
        fu = F(cat.prefix_mag[pu]) if pu else F(1)
        fv = F(cat.prefix_mag[pv]) if pv else F(1)
        return {"k": "tempspec", "u": u, "v": v, "pu": [fu.numerator, fu.denominator],
                "pv": [fv.numerator, fv.denominator], "x": U.mag_req(c["x"])}
    if sp[0] in ("toLevel", "fromLevel", "toNeper", "fromNeper"):
        d = sp[1]
        k, ref = F(d["kk"]), F(d["ref"])
        return {"k": "levelspec", "dir": sp[0], "kk": [k.numerator, k.denominator], "ref": [ref.numerator, ref.denominator],
                "p": U.f2b(d["p"]), "lin": U.f2b(d["lin"]), "x": U.mag_req(c["x"])}
    return None


def tolerance(cat, c):
    """(rtol, atol) for the comparison with the specification"""
    sp = c["spec"]
    xs = [abs(v) for v in U.as_list(c["x"])]
    if sp[0] == "temp":
        _, u, pu, v, pv = sp
        su, ou = scale_of(cat, pu, u)
        sv, ov = scale_of(cat, pv, v)
        return 1e-9, 1e-12 * (max(xs) * float(su) + float(ou) + float(ov)) / float(sv)
    if sp[0] in ("toLevel", "toNeper"):
        return 1e-9, 1e-11 / sp[1]["p"]
    if sp[0] == "shift":
        return 1e-9, 1e-11 * (max(xs) * sp[2] + abs(sp[1])) / sp[3]
    return 1e-9, 0.0


def run_conv_cases(ctx, cat, cases):
    usable = []
    for c in cases:
        c["eu"], c["ev"] = U.render_items(c["iu"]), U.render_items(c["iv"])
        if U.reads_as_intended(cat, c["iu"]) and U.reads_as_intended(cat, c["iv"]):
            usable.append(c)
        else:
            ctx.count("skipped.token-ambiguous-in-the-grammar")
    reqs = []
    for c in usable:
        if c["spec"] is not None and "form" not in c:
            # the target unit named in every supported way (string, BaseUnits, dict, Quantity, Unit().attr, Unit(v), tm*Unit(v))
            # (a dimension vector names base units: in this property's domain only kelvin is one)
            forms = C4.FORMS if c["iv"] == [(None, "K", (1, 1))] else [f for f in C4.FORMS if f not in C4.DIM_FORMS]
            c["form"] = ctx.rng.choice(forms)
            c["tm"] = ctx.rng.choice(C4.TARGET_MAGS) if c["form"] in ("qm", "scaled-unit") else \
                (1.0 if c["form"] in C4.QUANTITY_FORMS else None)
        c.setdefault("form", "str")
        c.setdefault("tm", None)
        reqs.append(C4.conv_req(cat, c))
        sr = spec_request(cat, c)
        c["has_spec_req"] = sr is not None
        if sr is not None:
            reqs.append(sr)
    res = iter(ctx.driver.ask_many(reqs))
    for c in usable:
        r = next(res)
        rs = next(res) if c["has_spec_req"] else None
        qform = c["form"] in C4.QUANTITY_FORMS
        tm = c["tm"] if qform else 1.0
        how = "" if c["form"] == "str" else " (target given as %s%s)" % (c["form"], " of magnitude %r" % c["tm"] if qform else "")
        replay = {"stream": c["stream"], "x": c["x"], "u": c["eu"], "v": c["ev"], "iu": c["iu"], "iv": c["iv"],
                  "form": c["form"], "tm": c["tm"], "spec": [str(t) for t in c["spec"]] if c["spec"] else None}
        ctx.count("stream." + c["stream"])
        ctx.count("form." + c["form"])
        ctx.case("%s|%s|%r|%s|%r" % (c["eu"], c["ev"], c["x"], c["form"], c["tm"]), c["eu"] != c["ev"],
                 {"x": c["x"], "u": c["eu"], "v": c["ev"], "form": c["form"]} if c["stream"] in ("temp", "linear->level") else None)
        if "ok" not in r or (rs is not None and "ok" not in rs):
            ctx.disagreement(c["stream"], replay, "driver error %s %s" % (r, rs))
            continue
        imp = C4.run_impl(c, cat)
        if "init" in imp:
            if imp["init"].split(":")[-1] in C4.FLOAT_EXC:
                ctx.count("unjudged.float-exception-in-construction")
            else:
                ctx.disagreement(c["stream"], replay, "Quantity() construction failed: %s" % imp["init"])
            continue
        m = r["ok"]
        mto = m["toq"] if qform else m["to"]
        has_value = imp["value"] != "n/a"
        # ---- impl vs model
        mv = m["value"]
        m_ok, i_ok = "ok" in mv, imp["value"] not in ("err", "n/a")
        rtol_m, atol_m = (1e-9, 0.0) if c["spec"] is None else tolerance(cat, c)
        det = None
        if has_value and m_ok != i_ok:
            det = "value(): impl %s, model %s" % (imp["value"] if i_ok else "raises " + imp.get("value_exc", ""), mv)
        elif has_value and m_ok and U.in_float_range(imp["value"]) and not U.close(imp["value"], U.mag_back(mv["ok"]), rtol_m, atol_m):
            det = "value(): impl %r, model %r" % (imp["value"], U.mag_back(mv["ok"]))
        elif mto["ok"] != imp["to"]:
            det = "to()%s: impl ok=%s, model ok=%s" % (how, imp["to"], mto["ok"])
        elif mto["ok"] and U.in_float_range(imp["after_val"]) and \
                not U.close(imp["after_val"], U.mag_back(mto["val"]), rtol_m, atol_m / abs(tm)):
            det = "state after to()%s: impl %r, model %r" % (how, imp["after_val"], U.mag_back(mto["val"]))
        elif mto["tag"] == 0 and imp["after"] != imp["before"]:
            det = "model keeps the state, impl changed it: %r -> %r" % (imp["before"], imp["after"])
        elif mto["tag"] == 1 and imp["after_units"] != mto["units"]:
            det = "units after to(): impl %r, model %r" % (imp["after_units"], mto["units"])
        if det and c["spec"] is None:
            # pairs outside the property's domain (arbitrary mixtures): counted and noted, never failing the check
            ctx.count("out-of-domain.model-differs")
            if len(ctx.notes) < 20:
                ctx.notes.append("outside the property's domain, impl != model (not judged): %s -> %s: %s" % (c["eu"], c["ev"], det))
        elif det:
            ctx.disagreement(c["stream"], replay, det)
        # ---- impl vs spec
        sp = c["spec"]
        if not imp["to"] and (imp["after"] != imp["before"] or imp["mid"] != imp["before"]):
            # whatever the pair: a to() that raises must leave the quantity as it was, otherwise every later
            # (documented) conversion of that object starts from the wrong units
            ctx.violation("refused-to:state-changed",
                          "%s -> %s%s is refused (%s) but the quantity changed: %r -> %r" %
                          (c["eu"], c["ev"], how, imp.get("to_exc"), imp["before"], imp["after"]), replay)
            continue
        if sp is None:
            continue
        if (has_value and not i_ok) or not imp["to"]:
            ctx.violation("%s:refused:%s->%s" % (c["stream"], c["iu"][0][1], c["iv"][0][1]),
                          "%s -> %s of %r%s is refused (%s) although the pair is in the property's domain" %
                          (c["eu"], c["ev"], c["x"], how, imp.get("value_exc") or imp.get("to_exc")), replay)
            continue
        rtol, atol = tolerance(cat, c)
        if sp[0] == "shift":
            want = [(v * sp[2] + sp[1]) / sp[3] for v in U.as_list(c["x"])]
        elif sp[0] == "invert":
            want = None
        else:
            want = U.as_list(U.mag_back(rs["ok"]))
        if want is not None:
            want_to = [v / tm for v in want]
            if not U.in_float_range(want) or not U.in_float_range(imp["after_val"]):
                ctx.count("unjudged.float-range")
            elif has_value and not U.close(imp["value"], want, rtol, atol):
                ctx.violation("%s:value:%s->%s" % (c["stream"], c["iu"][0][1], c["iv"][0][1]),
                              "%s -> %s of %r%s: value() gives %r, the documented definition gives %r" %
                              (c["eu"], c["ev"], c["x"], how, imp["value"], want), replay)
                continue
            elif not U.close(imp["after_val"], want_to, rtol, atol / abs(tm)):
                ctx.violation("%s:to-value:%s->%s" % (c["stream"], c["iu"][0][1], c["iv"][0][1]),
                              "%s -> %s of %r%s: to() leaves %r, the documented definition gives %r" %
                              (c["eu"], c["ev"], c["x"], how, imp["after_val"], want_to), replay)
                continue
            elif imp["after"][1] != imp["target_expr"]:
                ctx.violation("%s:to-units:%s->%s" % (c["stream"], c["iu"][0][1], c["iv"][0][1]),
                              "%s -> %s%s: after to() the quantity reports units %r" % (c["eu"], c["ev"], how, imp["after"][1]), replay)
                continue
        cs = dict(c, form="str", tm=None)      # the remaining oracles name the target by its expression
        base_val = imp["value"] if has_value else None
        # the value must not depend on whether the operand carries an uncertainty
        if ctx.rng.random() < 0.7:
            ctx.count("variant.with-uncertainty")
            plain = C4.run_impl(cs, cat) if base_val is None else imp
            got = C4.uncertain_variant(cat, cs, ctx.rng)
            if U.in_float_range(plain["value"]) and (got == "err" or not U.close(got[0], plain["value"], 1e-12, atol)
                                                    or not U.close(got[1], plain["value"], 1e-12, atol)):
                ctx.violation("%s:value-depends-on-uncertainty:%s->%s" % (c["stream"], c["iu"][0][1], c["iv"][0][1]),
                              "%s -> %s of %r: with an uncertainty attached value()/to() give %r, without it %r" %
                              (c["eu"], c["ev"], c["x"], got, plain["value"]), dict(replay, with_uncertainty=True))
                continue
        if not isinstance(c["x"], list) and want is not None and U.in_float_range(want):
            v2 = extra_entry_points(ctx, cat, cs, want[0], rtol, atol)
            if v2:
                ctx.violation("%s:%s:%s->%s" % (c["stream"], v2[0], c["iu"][0][1], c["iv"][0][1]), v2[1], dict(replay, entry=v2[0]))
                continue
        # reverse conversion returns the original value
        back = roundtrip(c)
        if back == "err":
            ctx.violation("%s:reverse-refused:%s->%s" % (c["stream"], c["iv"][0][1], c["iu"][0][1]),
                          "%s -> %s works but the reverse conversion is refused" % (c["eu"], c["ev"]), replay)
        elif U.in_float_range(back) and U.in_float_range(imp["after_val"]):
            xs = U.as_list(c["x"])
            rt_atol = 0.0
            if sp[0] == "temp":
                _, u, pu, v, pv = sp
                su, ou = scale_of(cat, pu, u)
                rt_atol = 1e-12 * (max(abs(t) for t in xs) + float(ou) / float(su) + float(scale_of(cat, pv, v)[1]) / float(su))
            elif sp[0] in ("fromLevel", "fromNeper", "shift", "invert"):
                rt_atol = 1e-11 / pmag(cat, c["iu"][0][0]) * (1 + (abs(sp[1]) if sp[0] == "shift" else 0))
            if not U.close(back, xs, 1e-9, rt_atol):
                ctx.violation("%s:roundtrip:%s->%s" % (c["stream"], c["iu"][0][1], c["iv"][0][1]),
                              "%r %s -> %s -> %s returns %r" % (c["x"], c["eu"], c["ev"], c["eu"], back), replay)


def extra_entry_points(ctx, cat, c, want, rtol, atol):
    """the same conversion reached through other public entry points: a Decimal magnitude (where the code accepts one)
    and the end point of np.linspace (whose second end point is converted to the first one's units)"""
    import numpy as np
    from decimal import Decimal
    from scinumtools.units import Quantity
    x, eu, ev = c["x"], c["eu"], c["ev"]
    with warnings.catch_warnings(), np.errstate(all="ignore"):
        warnings.simplefilter("ignore")
        if ctx.rng.random() < 0.6:
            try:
                dv = float(Quantity(Decimal(repr(x)), eu).value(ev))
                dq = Quantity(Decimal(repr(x)), eu)
                dq.to(ev)
                dt = float(dq.value())
                ctx.count("variant.decimal-accepted")
            except Exception:
                dv = None          # Decimal support is partial (Decimal op float raises TypeError): not judged
                ctx.count("variant.decimal-not-accepted")
            if dv is not None and (not U.close(dv, want, rtol, atol) or not U.close(dt, want, rtol, atol)):
                return ("decimal-value", "%s -> %s of Decimal('%r'): value()/to() give %r / %r, with the float magnitude %r" %
                        (eu, ev, x, dv, dt, want))
        if ctx.rng.random() < 0.3:
            ctx.count("variant.linspace")
            start = 0.5 * want if want else 1.0
            try:
                arr = np.linspace(Quantity(start, ev), Quantity(x, eu), 3)
                vals, units = U.as_list(arr.value()), arr.units()
            except C4.FLOAT_ERRORS:
                return None
            except Exception as e:
                return ("linspace-refused", "np.linspace(Quantity(%r,%r), Quantity(%r,%r), 3) raises %r although %s converts to %s" %
                        (start, ev, x, eu, e, eu, ev))
            if len(vals) != 3 or not U.close(vals[0], start, 1e-12) or not U.close(vals[-1], want, rtol, atol) \
                    or units != C4.target_expression(ev):
                return ("linspace-endpoint", "np.linspace(Quantity(%r,%r), Quantity(%r,%r), 3) = %r %s; its end point converted to %s is %r" %
                        (start, ev, x, eu, vals, units, ev, want))
    return None


def roundtrip(c):
    import numpy as np
    from scinumtools.units import Quantity
    with warnings.catch_warnings(), np.errstate(all="ignore"):
        warnings.simplefilter("ignore")
        try:
            x = c["x"]
            q = Quantity(list(x) if isinstance(x, list) else x, c["eu"])
            return U.as_list(q.to(c["ev"]).to(c["eu"]).value())
        except Exception:
            return "err"


# ------------------------------------------------------------------ level addition / subtraction
def level_stream(ctx, cat, count):
    import numpy as np
    from scinumtools.units import Quantity
    rng = ctx.rng
    _, ut = U.units_mod()
    units = [s for s in ut.LogarithmicUnitType.process if s != "Np"]
    cases = [("dB", None, "B", "d", "B", "d", 1.0, 2.0, False), ("dBA", None, "BA", "d", "BA", "d", 87.0, 83.0, True)]
    for s in units:
        for pa, pb in [("d", "d"), (None, None), ("d", None), (None, "d")]:
            for _ in range(max(1, count // (4 * len(units)))):
                sub = rng.random() < 0.5
                a_db = rng.uniform(-100, 100)
                b_db = a_db - rng.uniform(0.5, 60) if sub else a_db + rng.uniform(-60, 60)
                a = a_db / (10 * pmag(cat, pa))
                b = b_db / (10 * pmag(cat, pb))
                cases.append((None, None, s, pa, s, pb, a, b, sub))
    reqs = []
    for _, _, s, pa, t, pb, a, b, sub in cases:
        reqs.append({"k": "level", "sub": sub, "u": cat.req_items([(pa, s, (1, 1))]), "v": cat.req_items([(pb, t, (1, 1))]),
                     "x": U.f2b(a), "y": U.f2b(b)})
    res = ctx.driver.ask_many(reqs)
    for (_, _, s, pa, t, pb, a, b, sub), r in zip(cases, res):
        eu, ev = (pa or "") + s, (pb or "") + t
        replay = {"stream": "level-" + ("sub" if sub else "add"), "a": a, "u": eu, "b": b, "v": ev}
        ctx.count("stream.level-" + ("sub" if sub else "add"))
        ctx.case("level|%s|%s|%r|%r|%s" % (eu, ev, a, b, sub), True, {"a": a, "u": eu, "b": b, "v": ev, "sub": sub} if pa != pb else None)
        if "ok" not in r:
            ctx.disagreement("level", replay, "driver error %s" % r)
            continue
        with warnings.catch_warnings(), np.errstate(all="ignore"):
            warnings.simplefilter("ignore")
            try:
                qa, qb = Quantity(a, eu), Quantity(b, ev)
                qr = (qa - qb) if sub else (qa + qb)
                got, gunits = float(qr.value()), qr.units()
            except Exception as e:
                got, gunits = "err", repr(e)
        m = r["ok"]["model"]
        atol = 1e-11 / pmag(cat, pa)
        if got == "err":
            if not (isinstance(m, dict) and "err" in m):
                ctx.disagreement("level", replay, "impl raises %s, model %s" % (gunits, m))
            ctx.violation("level:refused:%s" % s, "%r %s %s %r %s raises %s" % (a, eu, "-" if sub else "+", b, ev, gunits), replay)
            continue
        if not (isinstance(m, dict) and "ok" in m and U.close(got, U.b2f(m["ok"]), 1e-9, atol)):
            ctx.disagreement("level", replay, "impl %r, model %s" % (got, {k: U.b2f(v) if k == "ok" else v for k, v in m.items()} if isinstance(m, dict) else m))
        want = U.b2f(r["ok"]["spec"])
        if not U.close(got, want, 1e-9, atol):
            ctx.violation("level:%s:%s" % ("sub" if sub else "add", s),
                          "%r %s %s %r %s = %r %s, the power sum is %r" % (a, eu, "-" if sub else "+", b, ev, got, gunits, want), replay)
        elif gunits != eu:
            ctx.violation("level:units:%s" % s, "result of %s %s %s is reported in %r" % (eu, "-" if sub else "+", ev, gunits), replay)


def level_array_stream(ctx, cat, count):
    """array-valued levels on both operands (equal shapes) or array with scalar: the power sum element by element"""
    import numpy as np
    from scinumtools.units import Quantity
    rng = ctx.rng
    _, ut = U.units_mod()
    units = [s for s in ut.LogarithmicUnitType.process if s != "Np"]
    cases = []
    for _ in range(count):
        s_ = rng.choice(units)
        pa, pb = rng.choice([("d", "d"), ("d", "d"), (None, None), ("d", None), (None, "d")])
        n = rng.randint(2, 4)
        sub = rng.random() < 0.4
        scalar_b = rng.random() < 0.3
        a_db = [rng.uniform(-100, 100) for _ in range(n)]
        if sub:
            b_db = [v - rng.uniform(0.5, 60) for v in a_db]
            if scalar_b:
                b_db = [min(b_db) - 1.0] * n
        else:
            b_db = [v + rng.uniform(-60, 60) for v in a_db]        # stronger / weaker differs from element to element
            if scalar_b:
                b_db = [b_db[0]] * n
        a = [v / (10 * pmag(cat, pa)) for v in a_db]
        b = [v / (10 * pmag(cat, pb)) for v in b_db]
        cases.append((s_, pa, pb, a, b, sub, scalar_b))
    reqs = []
    for s_, pa, pb, a, b, sub, scalar_b in cases:
        for x, y in zip(a, b):
            reqs.append({"k": "level", "sub": sub, "u": cat.req_items([(pa, s_, (1, 1))]), "v": cat.req_items([(pb, s_, (1, 1))]),
                         "x": U.f2b(x), "y": U.f2b(y)})
    res = iter(ctx.driver.ask_many(reqs))
    for s_, pa, pb, a, b, sub, scalar_b in cases:
        rs = [next(res) for _ in a]
        eu, ev = (pa or "") + s_, (pb or "") + s_
        op = "-" if sub else "+"
        bb = b[0] if scalar_b else b
        replay = {"stream": "level-array", "a": a, "u": eu, "b": bb, "v": ev, "sub": sub}
        ctx.count("stream.level-array-" + ("sub" if sub else "add"))
        ctx.case("level-array|%s|%s|%r|%r|%s" % (eu, ev, a, bb, sub), True, {"a": a, "u": eu, "b": bb, "v": ev, "sub": sub} if len(a) == 3 else None)
        if any("ok" not in r for r in rs):
            ctx.disagreement("level-array", replay, "driver error")
            continue
        want = [U.b2f(r["ok"]["spec"]) for r in rs]
        with warnings.catch_warnings(), np.errstate(all="ignore"):
            warnings.simplefilter("ignore")
            try:
                qa, qb = Quantity(list(a), eu), Quantity(list(bb) if isinstance(bb, list) else bb, ev)
                qr = (qa - qb) if sub else (qa + qb)
                got, gunits, gshape = U.as_list(qr.value()), qr.units(), list(np.shape(qr.value()))
            except Exception as e:
                ctx.violation("level-array:refused:%s" % s_, "%r %s %s %r %s raises %r" % (a, eu, op, bb, ev, e), replay)
                continue
        if gshape != [len(a)] or not U.close(got, want, 1e-9, 1e-11 / pmag(cat, pa)):
            ctx.violation("level-array:%s:%s" % ("sub" if sub else "add", s_),
                          "%r %s %s %r %s = %r (shape %s); element by element the power sum is %r" % (a, eu, op, bb, ev, got, gshape, want), replay)
        elif gunits != eu:
            ctx.violation("level:units:%s" % s_, "result of %s %s %s is reported in %r" % (eu, op, ev, gunits), replay)


# ------------------------------------------------------------------ histories: operands reused across operations
def gen_level_history(cat, rng, units):
    s = rng.choice(units)
    n = rng.choice([2, 2, 3])
    prefs = [rng.choice(["d", "d", None]) for _ in range(n)]
    if rng.random() < 0.6:
        prefs = [prefs[0]] * n                      # the normal case: identical units
    base_db = rng.uniform(-60, 60)
    vals_db = [base_db]
    for _ in range(n - 1):
        vals_db.append(vals_db[-1] - rng.uniform(0.5, 40))       # at least 0.5 dB apart (cancellation in a-b)
    operands = [(p, v / (10 * pmag(cat, p))) for p, v in zip(prefs, vals_db)]      # operand 0 is the loudest
    ops = []
    for _ in range(rng.randint(3, 7)):
        r = rng.random()
        i, j = rng.sample(range(n), 2)
        if r < 0.35:
            ops.append(("add", i, j))
        elif r < 0.5:
            ops.append(("sub", min(i, j), max(i, j)))      # louder minus quieter (checked again when evaluated)
        elif r < 0.6:
            ops.append(("iadd", i, j))                     # a += b is a = a + b
        elif r < 0.65:
            ops.append(("isub", min(i, j), max(i, j)))
        elif r < 0.85:
            ops.append(("linear", i))
        else:
            ops.append(("read", i))
    return s, operands, ops


def run_level_history(s, operands, ops, lin_expr):
    import numpy as np
    from scinumtools.units import Quantity
    out = []
    with warnings.catch_warnings(), np.errstate(all="ignore"):
        warnings.simplefilter("ignore")
        qs = [Quantity(v, (p or "") + s) for p, v in operands]
        for o in ops:
            try:
                if o[0] == "add":
                    r = qs[o[1]] + qs[o[2]]
                    out.append((float(r.value()), r.units()))
                elif o[0] == "sub":
                    r = qs[o[1]] - qs[o[2]]
                    out.append((float(r.value()), r.units()))
                elif o[0] == "iadd":
                    qs[o[1]] += qs[o[2]]
                    out.append((float(qs[o[1]].value()), qs[o[1]].units()))
                elif o[0] == "isub":
                    qs[o[1]] -= qs[o[2]]
                    out.append((float(qs[o[1]].value()), qs[o[1]].units()))
                elif o[0] == "linear":
                    out.append((float(qs[o[1]].value(lin_expr)), None))
                else:
                    out.append((float(qs[o[1]].value()), qs[o[1]].units()))
            except Exception as e:
                out.append(("err", repr(e)[:120]))
    return out


def level_history_stream(ctx, cat, count):
    from harness.util import shrink_list
    rng = ctx.rng
    _, ut = U.units_mod()
    doc = {}
    for L, lin, k, ref in DOC_LEVELS:
        doc.setdefault(L, (lin, k, ref))
    units = [s for s in ut.LogarithmicUnitType.process if s in doc]
    hist = [("B", [("d", 23.0), ("d", 20.0), ("d", 26.0)], [("add", 1, 0), ("add", 2, 0), ("read", 0), ("linear", 0)]),
            ("BA", [("d", 87.0), ("d", 83.0)], [("sub", 0, 1), ("sub", 0, 1), ("read", 1)])]
    for _ in range(count):
        hist.append(gen_level_history(cat, rng, units))
    # expected results, operation by operation (round k = the k-th operation of every history): the operands'
    # expected current levels are followed through `+=` / `-=`; everything else leaves them as constructed
    state = [{"cur": list(operands), "ops": [], "exps": [], "depth": 0} for _, operands, _ in hist]
    for k in range(max(len(ops) for _, _, ops in hist)):
        reqs, who = [], []
        for h, (s, operands, ops) in enumerate(hist):
            if k >= len(ops):
                continue
            o, st = ops[k], state[h]
            lin, kk, ref = doc[s]
            if o[0] in ("add", "sub", "iadd", "isub"):
                (pa, a), (pb, b) = st["cur"][o[1]], st["cur"][o[2]]
                minus = o[0] in ("sub", "isub")
                if minus and a * pmag(cat, pa) * 10 - b * pmag(cat, pb) * 10 < 0.5:
                    ctx.count("level-history.dropped-subtraction-below-0.5dB")
                    continue
                reqs.append({"k": "level", "sub": minus, "u": cat.req_items([(pa, s, (1, 1))]),
                             "v": cat.req_items([(pb, s, (1, 1))]), "x": U.f2b(a), "y": U.f2b(b)})
                who.append((h, o))
            elif o[0] == "linear":
                pa, a = st["cur"][o[1]]
                reqs.append({"k": "levelspec", "dir": "fromLevel", "kk": [F(kk).numerator, F(kk).denominator],
                             "ref": [F(ref).numerator, F(ref).denominator], "p": U.f2b(pmag(cat, pa)), "lin": U.f2b(1.0),
                             "x": U.mag_req(a)})
                who.append((h, o))
            else:
                p_, v_ = st["cur"][o[1]]
                st["ops"].append(o)
                st["exps"].append((v_, (p_ or "") + s, 1e-11 / pmag(cat, p_) * st["depth"]))
        for (h, o), r in zip(who, ctx.driver.ask_many(reqs)):
            st, s = state[h], hist[h][0]
            if "ok" not in r:
                st["broken"] = r
                continue
            if o[0] == "linear":
                st["ops"].append(o)
                st["exps"].append((U.mag_back(r["ok"]), None, 0.0))
            else:
                pa = st["cur"][o[1]][0]
                want = U.b2f(r["ok"]["spec"])
                if o[0] in ("iadd", "isub"):
                    st["cur"][o[1]] = (pa, want)
                    st["depth"] += 1
                st["ops"].append(o)
                st["exps"].append((want, (pa or "") + s, 1e-11 / pmag(cat, pa) * (1 + st["depth"])))

    def first_failure(s, operands, ops, exps, lin_expr):
        got = run_level_history(s, operands, ops, lin_expr)
        for i, (o, g, e) in enumerate(zip(ops, got, exps)):
            if g[0] == "err":
                return i, "raises %s" % g[1]
            want, wunits, atol = e
            if not (U.in_float_range(want) and U.in_float_range(g[0])):
                continue
            if not U.close(g[0], want, 1e-9, atol):
                return i, "gives %r, expected %r" % (g[0], want)
            if wunits is not None and g[1] != wunits:
                return i, "reports units %r instead of %r" % (g[1], wunits)
        return None

    for (s, operands, _), st in zip(hist, state):
        lin, k, ref = doc[s]
        lin_expr = lin
        ops, exps = st["ops"], st["exps"]
        ctx.count("stream.level-history")
        ctx.count("level-history.ops", len(ops))
        ctx.case("level-history|%s|%r|%r" % (s, operands, ops), True,
                 {"level_history": [s, operands, ops]} if len(ops) >= 4 else None)
        if "broken" in st:
            ctx.disagreement("level-history", {"unit": s, "operands": operands, "ops": ops}, "driver error %s" % st["broken"])
            continue
        if not ops:
            continue
        f = first_failure(s, operands, ops, exps, lin_expr)
        if f is None:
            continue
        pairs = list(zip(ops, exps))[:f[0] + 1]

        def fails(cand):
            if cand[-1] is not pairs[-1]:
                return False
            ff = first_failure(s, operands, [c[0] for c in cand], [c[1] for c in cand], lin_expr)
            return ff is not None and ff[0] == len(cand) - 1
        pure = all(c[0][0] not in ("iadd", "isub") for c in pairs)
        small = shrink_list(pairs, fails, max_steps=40) if len(ctx.violations) < 3 and pure else pairs
        ops_small = [c[0] for c in small]
        ff = first_failure(s, operands, ops_small, [c[1] for c in small], lin_expr) or f
        names = ["%r %s%s" % (v, p or "", s) for p, v in operands]
        ctx.violation("level-history:%s:%s" % (ops_small[-1][0], s),
                      "operands %s; after %s the operation %s %s (expected values from the operands as constructed)" %
                      (names, ops_small[:-1], ops_small[-1], ff[1]),
                      {"stream": "level-history", "unit": s, "operands": operands, "ops": ops_small, "linear": lin_expr})


# ------------------------------------------------------------------ histories across unit environments
def env_class_history(ctx, cat, cases, rounds):
    """temperature / logarithmic conversions AFTER unit environments whose custom units use the built-in
    conversion classes were opened and closed; UNIT_TYPES must be what it was"""
    from scinumtools.units import Quantity, UnitEnvironment
    settings, ut = U.units_mod()
    rng = ctx.rng
    order0 = [c.__name__ for c in settings.UNIT_TYPES]
    judged = [c for c in cases if c["spec"] is not None]

    def definitions():
        pool = {
            "degX": {"magnitude": 1, "dimensions": [0, 0, 0, 1, 0, 0, 0, 0], "definition": ut.TemperatureUnitType},
            "BX": {"magnitude": 1, "dimensions": [2, 1, -3, 0, 0, 0, 0, 0], "definition": ut.LogarithmicUnitType, "prefixes": ["d"]},
            "NX": {"magnitude": 1, "dimensions": [0, 0, 0, 0, 0, 0, 0, 0], "definition": ut.LogarithmicUnitType},
            "ulen": {"magnitude": 3.0857e16, "dimensions": [1, 0, 0, 0, 0, 0, 0, 0]},
            "ustd": {"magnitude": 2.0, "dimensions": [0, 1, 0, 0, 0, 0, 0, 0], "definition": ut.StandardUnitType},
            "utxt": {"magnitude": 60.0, "dimensions": [0, 0, 1, 0, 0, 0, 0, 0], "definition": "60*s"},
        }
        ks = rng.sample(list(pool), rng.randint(1, 3))
        return {k: dict(pool[k]) for k in ks}

    for r in range(rounds):
        defs = definitions() if r else {k: v for k, v in definitions().items()} | {
            "degX": {"magnitude": 1, "dimensions": [0, 0, 0, 1, 0, 0, 0, 0], "definition": ut.TemperatureUnitType},
            "BX": {"magnitude": 1, "dimensions": [2, 1, -3, 0, 0, 0, 0, 0], "definition": ut.LogarithmicUnitType, "prefixes": ["d"]}}
        names = sorted(defs)
        ctx.count("stream.env-rounds")
        try:
            env = UnitEnvironment(defs)
        except Exception:
            ctx.count("skipped.environment-not-accepted")
            continue
        try:
            inside = [dict(c, stream="in-env:" + c["stream"]) for c in rng.sample(judged, min(20, len(judged)))]
            run_conv_cases(ctx, cat, inside)
        finally:
            env.close()
        order = [c.__name__ for c in settings.UNIT_TYPES]
        ctx.case("env-order|%d|%s" % (r, names), True, None)
        if order != order0:
            ctx.violation("unit-types:changed-by-environment",
                          "UNIT_TYPES was %s; after opening and closing a unit environment defining %s it is %s" % (order0, names, order),
                          {"stream": "env-history", "environment": names, "before": order0, "after": order})
        after = [dict(c, stream="after-env:" + c["stream"]) for c in rng.sample(judged, min(60, len(judged)))]
        run_conv_cases(ctx, cat, after)
        level_stream(ctx, cat, 24)


def tables_still_as_generated(ctx):
    """the facts proved about the regenerated tables are about the tables at the START of the run: they must
    still be the tables at its end"""
    try:
        now = U.render_c05_tables(U.extract_c05_tables())
    except Exception as e:      # extraction itself failed: already a broken translator obligation, nothing to compare
        ctx.notes.append("tables could not be re-extracted at the end of the run: %r" % (e,))
        return
    path = U.GEN / "C05Tables.lean"
    if path.read_text() != now:
        ctx.violation("tables:changed-during-run",
                      "UNIT_TYPES / conversion tables at the end of the run differ from the ones the theorems were checked for",
                      {"stream": "tables", "unit_types_now": U.extract_c05_tables()["unitTypes"]})


def doc_examples(ctx):
    from scinumtools.units import Quantity, Unit

    def fraction_example():
        q = Quantity(10, 'dBmW/Hz')
        return [str(q.to('W/Hz')), str(q * Quantity(100, 'Hz')) if False else None]
    ex = [
        (lambda: str(Quantity(39, 'dBm').to('kW')), "Quantity(7.943e-03 kW)"),
        (lambda: str(Quantity(39, 'dB').to('AR')), "Quantity(8.913e+01 AR)"),
        (lambda: str(Quantity(39, 'Np').to('PR')), "Quantity(7.498e+33 PR)"),
        (lambda: str(Quantity(39, 'dBOhm').to('Ohm')), "Quantity(8.913e+01 Ohm)"),
        (lambda: str(Quantity(39, 'dBSIL').to('W/m2')), "Quantity(7.943e-09 W*m-2)"),
        (lambda: str(Quantity(10, 'dBmW/Hz').to('W/Hz')), "Quantity(1.000e-02 W*Hz-1)"),
        (lambda: str((Quantity(10, 'dBmW/Hz').to('W/Hz') * Quantity(100, 'Hz')).to('dBmW')), "Quantity(3.000e+01 dBmW)"),
        (lambda: str(Quantity(1, 'dB') + Quantity(2, 'dB')), "Quantity(4.539e+00 dB)"),
        (lambda: str(Quantity(87, 'dBA') - Quantity(83, 'dBA')), "Quantity(8.480e+01 dBA)"),
        (lambda: str((Quantity(1, 'eV') / Unit('[k_B]')).to('K')), "Quantity(1.160e+04 K)"),
        (lambda: str((Quantity(1, 'eV') / Unit('[k_B]')).to('K').to('Cel')), "Quantity(1.133e+04 Cel)"),
    ]
    for i, (f, want) in enumerate(ex):
        ctx.count("stream.doc")
        ctx.case("doc|%d" % i, True, None)
        try:
            got = f()
        except Exception as e:
            got = "raised %r" % (e,)
        if got != want:
            ctx.violation("doc-example:%d" % i, "documented example %d gives %r, documentation says %r" % (i, got, want),
                          {"stream": "doc", "index": i, "got": str(got), "want": want})


def correspond(ctx: Ctx, scale=1):
    cat = U.Catalog()
    judged = temp_cases(ctx, cat) + log_cases(ctx, cat)
    cases = judged + mixed_cases(ctx, cat, (3000 if ctx.tier == "thorough" else 400) * scale)
    run_conv_cases(ctx, cat, cases)
    level_stream(ctx, cat, (2000 if ctx.tier == "thorough" else 300) * scale)
    level_array_stream(ctx, cat, (1000 if ctx.tier == "thorough" else 120) * scale)
    level_history_stream(ctx, cat, (1500 if ctx.tier == "thorough" else 200) * scale)
    doc_examples(ctx)
    env_class_history(ctx, cat, judged, (25 if ctx.tier == "thorough" else 5) * scale)   # last: it changes global tables
    tables_still_as_generated(ctx)
    ctx.extra["exhaustive_part"] = "all 16 temperature pairs; all documented log/linear pairs both directions; every unit to itself with all prefix combinations" + \
        ("; all admissible prefixes" if ctx.tier == "thorough" else "")


def search(ctx: Ctx):
    old = ctx.tier
    ctx.tier = "thorough"
    try:
        correspond(ctx)
    finally:
        ctx.tier = old


def replay(ctx: Ctx, payload):
    import json
    rp = payload.get("replay", payload)
    print(json.dumps(rp, indent=1, default=str)[:3000])
    from scinumtools.units import Quantity
    if rp.get("stream") == "level-history":
        got = run_level_history(rp["unit"], [tuple(o) for o in rp["operands"]], [tuple(o) for o in rp["ops"]], rp["linear"])
        for o, g in zip(rp["ops"], got):
            print(o, "impl:", g)
        return 1
    if "a" in rp:
        try:
            qa, qb = Quantity(rp["a"], rp["u"]), Quantity(rp["b"], rp["v"])
            print("impl:", (qa - qb) if rp["stream"].endswith("sub") else (qa + qb))
        except Exception as e:
            print("impl raises", repr(e))
        return 1
    if "u" in rp and "v" in rp:
        x = rp["x"]
        try:
            print("impl value():", Quantity(list(x) if isinstance(x, list) else x, rp["u"]).value(rp["v"]))
        except Exception as e:
            print("impl raises", repr(e))
        cat = U.Catalog()
        r = ctx.driver.ask({"k": "conv", "x": U.mag_req(x), "u": cat.req_items([(p, s, tuple(e)) for p, s, e in rp["iu"]]),
                            "v": cat.req_items([(p, s, tuple(e)) for p, s, e in rp["iv"]])})
        print("model value():", {k: (U.mag_back(v) if k == "ok" else v) for k, v in r["ok"]["value"].items()})
        return 1
    print("replay: re-run ./check C05")
    return 2
