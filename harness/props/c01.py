"""C01 — expression solver evaluates by the documented step table.

translator  : operator table, step table, behaviour of every operate_* method (abstract probing),
              documentation step table  ->  lean/SciVerif/Generated/C01Tables.lean
correspond  : real solver (recording atom; stock AtomBase) vs Lean model vs Lean specification
"""
import json
import os
from pathlib import Path

from harness import core
from harness.core import Ctx
from harness.props import c01_lang as L
from harness.props import c01_probe as P

RULE = ("grammar-generated ASTs of the stratified expression language (every operator and function, sign runs, "
        "comparison chains, nested same-function calls; depth <= 6 quick / 12 thorough) rendered by the Lean "
        "specification with 0-3 blanks at every lexeme boundary, plus the recon corpus; for a subset all "
        "single-character deletions and a sample of insertions/replacements over the solver alphabet, classified "
        "by the reference recogniser (well-formed -> value must equal the specification; unbalanced / wrong "
        "arity / missing operand / missing operator between two operands -> must raise; other -> no verdict); for the "
        "same subset every deletion of one whole operator lexeme; malformed calls at a general position (wrong arity, "
        "or a dangling operator inside 1-7 nested one-argument calls, after a rendered prefix `e o` or at the start, with an "
        "empty / well-formed / malformed remainder); random literal candidates for the "
        "float-literal recogniser; long flat chains (550-3000 operands quick, up to 5000 thorough) on one nesting "
        "level for every binary step, operands with sign runs, bare or inside a call; every stream is also solved, in the same order (well-formed strings interleaved "
        "with the malformed ones), by ONE long-lived solver instance. deeply nested calls (30-70 levels quick, 60-120 thorough). non-trivial = expression with >= 2 operators of different steps, a sign, or "
        "a call; distinct = the text")
ASSUMPTIONS = [
    "atoms are compared symbolically: the real solver runs with a term-recording atom class that exposes exactly "
    "AtomBase's methods and accepts exactly what float() accepts; the stock AtomBase is tied separately (its "
    "result must equal the recorded term evaluated with Python float operations, bit for bit, and the "
    "specification term evaluated the same way)",
    "values are compared modulo neg(neg a) = a (exact in IEEE-754), the only law the sign folding uses; "
    "unary plus is the identity by definition of the specification (AtomBase has no __pos__); on Python bools "
    "the law holds up to value only (-(-False) is 0), which can change numpy's result dtype (np.log10(True) is "
    "float16): the AtomBase stream therefore evaluates the specification term after applying the law",
    "atom methods are total functions in the theorems (a raising float operation such as 1/0 is covered only by "
    "the AtomBase stream, where term evaluation and solver must raise alike)",
    "blanks are spaces; number literals are digits[.digits][e digits] or .digits[e digits] "
    "(a sign inside a literal is split by the tokenizer; exotic float() spellings are outside the grammar)",
    "no numeric tolerance is used anywhere: AtomBase results are compared by VALUE equality (True == 1 == 1.0, "
    "nan == nan) with the float evaluation of the term -- justified because both sides apply the same IEEE "
    "operations in the same order (the regenerated AtomBase method table pins each method to its Python "
    "operator, fact_atombase_ops); the only identification is neg(neg a) = a, which is exact in IEEE-754",
    "a string with two operands and no operator between them (`(1+2)(3+4)`, `sin(1)cos(1)`, `2 3`: a deleted binary "
    "operator) is judged as not well-formed, to be rejected: no pass can remove the surplus operand, so the final "
    "test or an earlier step raises on the unchanged code",
    "the stock AtomBase runs in a worker process with a 20 s watchdog (unchanged code needs well under a second "
    "per input); a timeout is reported as a violation of the value clause and ends the AtomBase comparisons of "
    "the run",
    "integer literals of any length denote the float nearest to them (AtomBase builds float(text)); AtomBase "
    "results are compared by value AND numeric kind class (integral = bool or int / float / complex, np.float64 = float; bool and int are one class because the neg-neg law turns -(-True) = 1 into True)",
    "strings in no class of the property (recogniser class 'other': '()', adjacent operands, stray characters, "
    "exotic float spellings) get no verdict AND an impl/model difference on them is only counted "
    "(other.impl_ne_model), it cannot fail the check; the float-literal recogniser is judged on candidates over "
    "the grammar's literal alphabet only",
    "the reference recogniser (harness/props/c01_lang.py, longest-match lexer + recursive descent over the "
    "stratified grammar) defines well-formed / unbalanced / wrong-arity / missing-operand; strings in no class "
    "(e.g. '()', adjacent operands, stray characters) get no verdict, only impl = model is compared",
    "theorem literals: any non-empty text of digits, '.', 'e' in which every 'e' is followed by a digit and which "
    "the atom class accepts (LitOK); every grammar literal is one (C01_grammar_literals); blanks are spaces",
    "C01_reject_unbalanced assumes the atom class rejects texts containing a parenthesis (true of float()); "
    "C01_reject_arity covers a call at the start of the string (after blanks) with arbitrary balanced arguments, "
    "C01_reject_arity_after_prefix / _after_operator / _after_expression a call after a well-formed expression "
    "framed by operator symbols; missing operands are proved at token level and at string level for an operator "
    "before or after the text of a well-formed expression (right operand, left operand, trailing sign), and for a "
    "dangling operator inside any number of nested parentheses / one-argument calls at the start or after such a "
    "prefix (C01_reject_missing_operand_in_call, ..._nested, ..._after_prefix), likewise a wrong-arity call inside "
    "nested one-argument calls (C01_reject_arity_nested, ..._after_prefix); other positions (two adjacent "
    "operators in the middle, anything malformed inside a two-argument call) are correspondence-checked",
]
EXPLANATION = ("theorems (all unbounded, over the regenerated tables): solve(render blanks e) = eval e for every "
               "well-formed e, every blank placement and every atom algebra with neg(neg a)=a (character level: "
               "tokenizer + argument scanner + nested solvers, and token level: the nine passes); blank invariance; "
               "generated step table = documentation table; every string with unbalanced parentheses is rejected; a "
               "call with a wrong number of arguments, at the start or after a well-formed prefix, is rejected; missing "
               "operands are rejected (token level, string level around an expression and inside a call). "
               "correspondence ties the model (tokenizer, scanner, passes) to the real code on every run")
EXTRA_OBLIGATIONS = [
    # kernel-decided facts over the regenerated operator table (lean/SciVerif/Facts/C01Sym.lean)
    "SciVerif.C01.fact_sym_start", "SciVerif.C01.fact_binary", "SciVerif.C01.fact_sign",
    "SciVerif.C01.fact_not", "SciVerif.C01.fact_fn1", "SciVerif.C01.fact_fn2",
    "SciVerif.C01.fact_fn1_noclash", "SciVerif.C01.fact_fn2_noclash",
    "SciVerif.C01.fact_par_shape", "SciVerif.C01.fact_open_taken",
    "SciVerif.C01.fact_atombase_ops",
]

GEN = core.LEAN / "SciVerif" / "Generated" / "C01Tables.lean"
CORPUS = core.VERIF / "corpus" / "C01"


# ---------------------------------------------------------------- translator
def gen_tables(ctx):
    import numpy as np
    with np.errstate():      # probing executes the operate_* methods: keep numpy's error mode of this process
        before = np.geterr()
        cfg = P.default_config()
        atom_rows = P.probe_atombase()
        if np.geterr() != before:
            ctx.notes.append("abstract probing of the operate_* methods changed numpy's error mode: %s -> %s"
                             % (before, np.geterr()))
    doc = P.doc_steps((core.REPO / "docs" / "source" / "solver" / "index.rst").read_text())
    ctx.extra["table_rows"] = len(cfg["rows"])
    ctx.extra["sign_rows"] = sum(len(v) for v in cfg["sign"].values())
    return [str(GEN)] if core.write_if_changed(GEN, P.render_c01(cfg, doc, atom_rows)) else []


# ---------------------------------------------------------------- helpers
def opname_default():
    from scinumtools.solver import ExpressionSolver, AtomBase
    classes = list(ExpressionSolver(AtomBase).operators.values())
    return lambda i: classes[i].__name__ if i < len(classes) else "?"


def nontrivial(e):
    lv = {L.level(s) for s in L.subterms(e)}
    return len(lv - {0}) >= 2 or 1 in lv or any(s[0] in ("fn1", "fn2") for s in L.subterms(e))


def load_corpus():
    wf, bad = [], []
    for f in sorted(CORPUS.glob("*.json")):
        d = json.loads(f.read_text())
        wf += d.get("wellformed", [])
        bad += d.get("malformed", [])
    return wf, bad


def norm_toks(toks):
    """token lists modulo neg(neg a) = a"""
    if not isinstance(toks, list):
        return toks
    out = []
    for t in toks:
        if isinstance(t, dict) and "atom" in t:
            out.append({"atom": L.norm(t["atom"])})
        elif isinstance(t, dict) and "op" in t:
            out.append({"op": t["op"], "args": [None if a is None else L.norm(a) for a in t["args"]]})
        else:
            out.append(t)
    return out


def model_is_unsupported(m):
    return isinstance(m, dict) and "err" in m and (m["err"] == "fuel" or m["err"].startswith("unsupported"))


def judge_text(ctx, text, cls, ast_eval, model, opname, where):
    """One string: runs the real solver (recording atom and stock AtomBase) and compares.
    ast_eval = specification value (term) when cls == 'wf'."""
    impl = L.run_rec(text)
    if model_is_unsupported(model):
        ctx.count("model.unsupported")
        return impl
    mod = L.canon_model(model, opname)
    if impl != mod:
        if cls == "other":
            # outside the grammar and outside the malformed classes the property names: no verdict, and a
            # difference between code and model here is only counted (it must never fail the check)
            ctx.count("other.impl_ne_model")
            if len([n for n in ctx.notes if n.startswith("outside the property's domain")]) < 3:
                ctx.notes.append("outside the property's domain, impl != model (not judged): %r impl %s model %s"
                                 % (text, json.dumps(impl)[:80], json.dumps(mod)[:80]))
            return impl
        ctx.disagreement("solve:" + where, {"text": text, "class": cls}, "impl %s model %s" % (impl, mod))
    stock = None
    if cls == "wf":
        want = {"atom": L.norm(ast_eval)}
        got = {"atom": L.norm(impl["atom"])} if isinstance(impl, dict) and "atom" in impl else impl
        if got != want:
            ctx.violation("wf-value", "well-formed expression %r: solver gives %s, documented order gives %s" %
                          (text, json.dumps(got)[:300], json.dumps(want)[:300]),
                          {"stream": where, "text": text, "class": cls, "impl": impl, "spec": want})
        else:
            # stock AtomBase: same operations on floats
            stock = L.run_stock(text)
            if stock == "skipped":
                return impl
            via_impl = L.float_outcome(lambda: L.eval_float(impl["atom"]))
            # the specification value modulo neg(neg a) = a (the assumed law): on Python bools the law holds
            # only up to value (-(-False) is the int 0) and numpy picks float16 for np.log10(True) but a wider
            # type next to an int, so the un-normalised term may differ at float16 precision: counted, no verdict
            via_spec = L.float_outcome(lambda: L.eval_float(L.norm(ast_eval)))
            via_raw = L.float_outcome(lambda: L.eval_float(ast_eval))
            if via_spec != via_raw:
                ctx.count("atombase.negneg_bool_dtype_artefact")
            # where the two readings of the specification term differ (signs in front of a comparison: numpy
            # refuses -np.bool_, Python turns -(-True) into the int 1) either reading is the documented value
            if stock != via_spec and stock != via_raw:
                ctx.violation("wf-value-atombase",
                              "AtomBase on %r gives %s, the documented order evaluated in floats gives %s" %
                              (text, stock, via_spec),
                              {"stream": where, "text": text, "class": cls, "atombase": stock, "spec_float": via_spec})
            elif stock != via_impl:
                ctx.disagreement("atombase:" + where, {"text": text},
                                 "AtomBase %s, recorded term in floats %s" % (stock, via_impl))
    elif cls in MUST_REJECT:
        stock = L.run_stock(text)
        if stock == "skipped":
            stock = "err"
        if impl != "err" or stock != "err":
            ctx.violation("reject:" + cls,
                          "%s string %r is not rejected: recording atom -> %s, AtomBase -> %s" %
                          (MUST_REJECT[cls], text, json.dumps(impl)[:200], stock),
                          {"stream": where, "text": text, "class": cls, "impl": impl, "atombase": stock})
    return impl


MUST_REJECT = {"unbalanced": "unbalanced-parenthesis", "arity": "wrong-arity", "missing": "missing-operand",
               "adjacent": "missing-operator (two operands with no operator between them)"}


def lexeme_deletions(e, bl):
    """the text with ONE operator lexeme deleted (whole symbols such as `**`, `==`, `&&`), at every position"""
    lx = L.lexemes(e)
    ops = set(L.B2_SYM.values()) | {"!"}
    out = []
    for i, x in enumerate(lx):
        if x in ops:
            parts = []
            for j, y in enumerate(lx):
                if j != i:
                    parts.append(" " * (bl[j] if j < len(bl) else 0) + y)
            out.append("".join(parts))
    return out


def edits_of(rng, text, n_sample):
    out = [text[:i] + text[i + 1:] for i in range(len(text))]
    for _ in range(n_sample):
        i = rng.randrange(len(text) + 1)
        c = rng.choice(L.ALPHABET)
        if rng.random() < 0.5 or i == len(text):
            out.append(text[:i] + c + text[i:])
        else:
            out.append(text[:i] + c + text[i + 1:])
    seen, res = {text}, []
    for t in out:
        if t not in seen:
            seen.add(t)
            res.append(t)
    return res


# ---------------------------------------------------------------- streams
def lit_stream(ctx, count):
    alphabet = "0123456789..ee+-_ naifty"
    cands = ["1", "1.", ".5", "1e5", "1e", "e5", ".", "", "1.5e3", "1..2", "nan", "inf", "-3", "+.5e1", "1_0", "_1",
             "1__0", "infinity", "Infinity", "1e+5", "1e-5", "1 2", "1.e2", ".e2", "-", "+-1"]
    for _ in range(count):
        cands.append("".join(ctx.rng.choice(alphabet) for _ in range(ctx.rng.randint(1, 6))))
    res = ctx.driver.ask_many([{"k": "lit", "s": c} for c in cands])
    for c, r in zip(cands, res):
        ctx.count("lit.cases")
        try:
            float(c.strip())
            py = True
        except ValueError:
            py = False
        if "ok" not in r or r["ok"] != py:
            if c and all(ch in "0123456789.e" for ch in c):
                ctx.disagreement("float-literal", {"text": c}, "float() accepts: %s, model: %s" % (py, r))
            else:
                ctx.count("lit.outside_grammar_alphabet_ne")      # outside the property's domain: counted only


def ast_stream(ctx, asts, edit_every, n_sample, where="ast"):
    opname = opname_default()
    rng = ctx.rng
    items = [(e, L.gen_blanks(rng, len(L.lexemes(e)))) for e in asts]
    spec = ctx.driver.ask_many([{"k": "spec", "ast": e, "bl": bl} for e, bl in items])
    texts, todo = [], []
    for n, ((e, bl), r) in enumerate(zip(items, spec)):
        if "ok" not in r:
            ctx.disagreement("spec", {"ast": e}, "driver error %s" % r)
            continue
        s = r["ok"]
        text = s["text"]
        if text != L.render(e, bl):
            ctx.disagreement("render", {"ast": e, "bl": bl}, "Lean render %r, harness render %r" % (text, L.render(e, bl)))
        if not s["wf"]:
            ctx.disagreement("generator", {"ast": e}, "generated AST is not well-formed for the specification")
            continue
        cls, back = L.classify(text)
        if cls != "wf" or back != e:
            ctx.disagreement("recogniser", {"ast": e, "text": text}, "classify(render e) = %s %s" % (cls, back))
            continue
        # the two theorem statements on this instance
        tv = s["toksolve"]
        if not (isinstance(tv, dict) and "atom" in tv and L.norm(tv["atom"]) == L.norm(s["eval"])):
            ctx.disagreement("token-theorem-instance", {"ast": e}, "steps on toks e give %s, eval e = %s" % (tv, s["eval"]))
        if norm_toks(s["tokenized"]) != norm_toks(s["toks"]):
            ctx.disagreement("tokenize-statement-instance", {"ast": e, "text": text},
                             "tokenize (render b e) = %s, toks e = %s" % (s["tokenized"], s["toks"]))
        texts.append((e, text, s["eval"]))
        eds = (edits_of(rng, text, n_sample) + [t for t in lexeme_deletions(e, bl) if t != text]) \
            if (n % edit_every == 0) else []
        todo.append(eds)
    # model on all texts and edits; specification value of the edits that are well-formed
    reqs, meta = [], []
    for (e, text, ev), eds in zip(texts, todo):
        reqs.append({"k": "solve", "cfg": "default", "alg": "float", "s": text})
        meta.append(("orig", e, text, ev))
        for t in eds:
            cls, ast = L.classify(t)
            reqs.append({"k": "solve", "cfg": "default", "alg": "float", "s": t})
            meta.append(("edit", cls, t, ast))
    res = ctx.driver.ask_many(reqs)
    wf_edits = [(i, m[3]) for i, m in enumerate(meta) if m[0] == "edit" and m[1] == "wf"]
    evs = ctx.driver.ask_many([{"k": "spec", "ast": a, "bl": []} for _, a in wf_edits])
    ev_of = {i: (r["ok"]["eval"] if "ok" in r and r["ok"]["wf"] else None) for (i, _), r in zip(wf_edits, evs)}
    reuse = []          # the same strings, in this order, for ONE long-lived solver instance
    for i, (m, r) in enumerate(zip(meta, res)):
        if "ok" not in r:
            ctx.disagreement("driver", {"text": m[2]}, str(r))
            continue
        model = r["ok"]["model"]
        if m[0] == "orig":
            reuse.append((m[2], "wf", m[3]))
        elif m[1] == "wf":
            if ev_of.get(i) is not None:
                reuse.append((m[2], "wf", ev_of[i]))
        else:
            reuse.append((m[2], m[1], None))
        if m[0] == "orig":
            _, e, text, ev = m
            ctx.case(text, nontrivial(e), {"text": text, "value": json.dumps(ev)[:120]})
            ctx.count("ast.depth.%d" % min(L.depth(e), 13))
            ctx.count("wf.expressions")
            judge_text(ctx, text, "wf", ev, model, opname, where)
        else:
            _, cls, t, ast = m
            ctx.count("edit." + cls)
            if cls == "wf":
                if ev_of.get(i) is None:
                    ctx.disagreement("recogniser", {"text": t, "ast": ast}, "recogniser accepts, specification WF rejects")
                    continue
                ctx.case(t, nontrivial(ast), None)
                judge_text(ctx, t, "wf", ev_of[i], model, opname, where + "-edit")
            else:
                ctx.case(t, cls != "other", {"text": t, "class": cls} if cls != "other" else None)
                judge_text(ctx, t, cls, None, model, opname, where + "-edit")


    longlived_stream(ctx, reuse, where)


def longlived_stream(ctx, items, where):
    """The property speaks of "the solver", not of a fresh solver: all strings of a stream -- well-formed ones
    interleaved with the malformed ones -- are solved by ONE instance inside one `with` block."""
    from scinumtools.solver import ExpressionSolver

    from scinumtools.solver.expression import Expression

    def once(es, text):
        # both public input kinds of solve(): the text, or (for every third string) a new Expression object
        try:
            return L.canon_result(es.solve(Expression(text) if len(text) % 3 == 0 else text))
        except Exception:
            return "err"

    def verdict(impl, cls, ev):
        if cls == "wf":
            want = {"atom": L.norm(ev)}
            got = {"atom": L.norm(impl["atom"])} if isinstance(impl, dict) and "atom" in impl else impl
            return None if got == want else (got, want)
        if cls in MUST_REJECT:
            return None if impl == "err" else (impl, "err")
        return None
    failed_before = None
    with ExpressionSolver(P.RecAtom) as es:
        for n, (text, cls, ev) in enumerate(items):
            impl = once(es, text)
            ctx.count("longlived.calls")
            bad = verdict(impl, cls, ev)
            if bad is not None:
                # smallest history that shows it: the last call that raised, then this one
                hist = [text]
                if failed_before is not None:
                    with ExpressionSolver(P.RecAtom) as e2:
                        once(e2, failed_before)
                        if verdict(once(e2, text), cls, ev) is not None:
                            hist = [failed_before, text]
                if len(hist) == 1:
                    with ExpressionSolver(P.RecAtom) as e3:
                        if verdict(once(e3, text), cls, ev) is None:
                            hist = [t for t, _, _ in items[max(0, n - 20):n + 1]]
                ctx.violation("reused-instance:" + ("wf-value" if cls == "wf" else "reject"),
                              "one solver instance, after %d earlier calls (the last rejected one: %r): solve(%r) gives "
                              "%s, %s" % (n, failed_before, text, json.dumps(bad[0])[:250],
                                          ("documented order gives %s" % json.dumps(bad[1])[:250]) if cls == "wf"
                                          else "but the %s string must be rejected" % cls),
                              {"stream": where + "-long-lived", "history": hist, "text": text, "class": cls,
                               "impl": bad[0], "spec": bad[1]})
                return
            if impl == "err":
                failed_before = text


def general_position_texts(rng, asts, n):
    """Malformed calls at a GENERAL position -- the shapes of C01_reject_arity_after_prefix,
    C01_reject_missing_operand_in_call and ..._after_prefix: after a well-formed prefix `e o` (or at the start of
    the string) a call with a wrong number of balanced arguments, or parentheses / a one-argument call around
    `e' o'` (dangling operator), itself inside 0-6 further one-argument calls; blanks anywhere; followed by an empty, well-formed or itself malformed remainder."""
    small = [e for e in asts if L.size(e) <= 25] or asts
    ops = list(L.B2_SYM.values())

    def txt(e):
        return L.render(e, L.gen_blanks(rng, len(L.lexemes(e))))

    def sp():
        return " " * rng.randrange(3)

    out = []
    for _ in range(n):
        pre, a, b, c = (rng.choice(small) for _ in range(4))
        prefix = "" if rng.random() < 0.25 else txt(pre) + sp() + rng.choice(ops + ["!"] * 2) + sp()
        rest = rng.choice(["", sp() + rng.choice(ops) + sp() + txt(c), sp() + ")", " 1 2", sp() + rng.choice(ops)])
        if rng.random() < 0.5:
            if rng.random() < 0.5:
                f = rng.choice(list(L.F1_SYM.values()))
                args = [txt(a), txt(b)] + ([txt(c)] if rng.random() < 0.3 else [])
            else:
                f = rng.choice(list(L.F2_SYM.values()))
                args = rng.choice([[txt(a)], [txt(a), txt(b), txt(c)]])
            call = f + ",".join(args) + ")"
            for _ in range(rng.choice([0, 0, 0, 1, 2, 4])):      # nested one-argument calls / parentheses
                call = rng.choice(list(L.F1_SYM.values())) + sp() + call + sp() + ")"
            out.append(prefix + call + rest)
        else:
            f = rng.choice(list(L.F1_SYM.values()))
            inner = txt(a) + sp() + rng.choice(ops) + sp()
            for _ in range(rng.choice([0, 0, 1, 2, 3, 6])):      # nested one-argument calls / parentheses
                inner = sp() + rng.choice(list(L.F1_SYM.values())) + inner + ")" + sp()
            out.append(prefix + f + inner + ")" + rest)
    return out


def text_stream(ctx, texts, where):
    """plain strings (corpus of malformed inputs)"""
    opname = opname_default()
    res = ctx.driver.ask_many([{"k": "solve", "cfg": "default", "alg": "float", "s": t} for t in texts])
    classes = [L.classify(t) for t in texts]
    wf = [(i, a) for i, (c, a) in enumerate(classes) if c == "wf"]
    evs = ctx.driver.ask_many([{"k": "spec", "ast": a, "bl": []} for _, a in wf])
    ev_of = {i: r["ok"]["eval"] for (i, _), r in zip(wf, evs) if "ok" in r}
    for i, (t, r) in enumerate(zip(texts, res)):
        cls = classes[i][0]
        ctx.case(t, cls != "other", {"text": t, "class": cls})
        ctx.count("corpus." + cls)
        if "ok" not in r:
            ctx.disagreement("driver", {"text": t}, str(r))
            continue
        judge_text(ctx, t, cls, ev_of.get(i), r["ok"]["model"], opname, where)


def gen_chain(rng, level, n):
    """a flat chain of n+1 operands joined by the operators of one step; operands: literals with sign runs"""
    ops = L.LEVEL_OPS[level]

    def operand():
        k = rng.choice([0, 0, 0, 1, 1, 2, 3])
        lit = rng.choice(["1", "2", "0.5", "3", "1"]) if level != 2 else rng.choice(["1", "1", "1", "0.5", "2"])
        return {"signs": [rng.random() < 0.6 for _ in range(k)], "lit": lit}
    first = operand()
    rest = [dict(operand(), op=rng.choice(ops)) for _ in range(n)]
    wrap = rng.choice([None, None, None, "par", "sin", "powb"])
    nlex = 6 * n + 20
    mode = rng.random()
    bl = [0] * nlex if mode < 0.4 else [rng.choice([0, 0, 1, 2]) for _ in range(nlex)]
    return {"k": "chain", "first": first, "rest": rest, "wrap": wrap, "bl": bl, "level": level, "operands": n + 1}


def chain_stream(ctx, reqs):
    """"every nesting depth and LENGTH": long flat chains on one nesting level. Terms travel in postfix form."""
    from scinumtools.solver import ExpressionSolver, AtomBase
    res = ctx.driver.ask_many([{k: v for k, v in r.items() if k not in ("level", "operands")} for r in reqs])
    for rq, r in zip(reqs, res):
        ctx.count("chain.level%d" % rq["level"])
        ctx.count("chain.operands", rq["operands"])
        replay = {"stream": "chain", "chain": {k: v for k, v in rq.items() if k != "bl"}, "bl": rq["bl"][:50]}
        if "ok" not in r or not r["ok"]["wf"]:
            ctx.disagreement("chain", replay, "driver: %s" % str(r)[:300])
            continue
        text = r["ok"]["text"]
        replay["text"] = text
        spec = L.norm_postfix(r["ok"]["spec"])
        ctx.case(text, True, {"chain_level": rq["level"], "operands": rq["operands"], "text_head": text[:60]})
        try:
            with ExpressionSolver(P.RecAtom) as es:
                out = es.solve(text)
            impl = L.norm_postfix(L.postfix_of(out.value)) if isinstance(out, P.RecAtom) else "non-atom"
            raw = L.postfix_of(out.value) if isinstance(out, P.RecAtom) else None
        except Exception as ex:
            impl, raw = "err", None
        m = r["ok"]["model"]
        mod = m["postfix"] if isinstance(m, dict) and "postfix" in m else "err" if isinstance(m, dict) and "err" in m else "non-atom"
        if (raw if raw is not None else impl) != mod:
            ctx.disagreement("chain-model", replay, "impl and model differ on a chain of %d operands (impl %s…, model %s…)"
                             % (rq["operands"], str(impl)[:80], str(mod)[:80]))
        if impl != spec:
            head = "err" if impl == "err" else "a term of %d nodes" % len(impl)
            ctx.violation("wf-value-long",
                          "well-formed flat expression with %d operands on one nesting level (step %d operators; %r…): "
                          "solver gives %s, the documented order gives a term of %d nodes" %
                          (rq["operands"], rq["level"], text[:40], head, len(spec)),
                          dict(replay, impl_nodes=None if impl == "err" else len(impl), spec_nodes=len(spec)))
            continue
        # the stock AtomBase on the same text
        stock = L.run_stock(text)
        via = L.float_outcome(lambda: L.eval_postfix_float(spec))
        if stock != via and stock != "skipped":
            ctx.violation("wf-value-long-atombase",
                          "AtomBase on a flat expression with %d operands (%r…) gives %s, the documented order in "
                          "floats %s" % (rq["operands"], text[:40], stock, via), replay)


CLOSE_PAIRS = [
    # unequal but close operands (relative 1e-9 ... 1e-5), large near-equal integers, rounding-noise pairs
    ("100000", "100001"), ("1000000", "1000001"), ("0.1+0.2", "0.3"), ("1000001/1000000", "1"), ("2**20+1", "2**20"),
    ("1e9", "1000000001"), ("1.000001", "1.0000011"), ("3*0.1", "0.3"), ("1.00000001", "1"), ("123456789", "123456788"),
    ("0.30000000000000004", "0.3"), ("1e15+1", "1e15"), ("2/3", "0.6666666"), ("0.000000001", "0.00000000100001"),
    # and exactly equal / clearly different ones
    ("0.5+0.25", "0.75"), ("2*3", "6"), ("1", "2"), ("7", "7"),
]
CMP = ["eq", "ne", "le", "ge", "lt", "gt"]


def compare_family():
    out = []
    for a, b in CLOSE_PAIRS:
        ea, eb = L.classify(a)[1], L.classify(b)[1]
        for o in CMP:
            out.append(["bin", o, ea, eb])
            out.append(["bin", o, eb, ea])
        out.append(["not", ["bin", "eq", ea, eb]])
        out.append(["bin", "and", ["bin", "eq", ea, eb], ["bin", "ne", ea, eb]])
    return out


def gen_close_pairs(rng, n):
    """random operand pairs that differ by a relative 1e-9 ... 1e-5, and large integers that differ by one"""
    out = []
    for _ in range(n):
        if rng.random() < 0.5:
            m = rng.randint(10 ** 5, 10 ** 12)
            out.append((str(m), str(m + rng.choice([1, 1, 2, 3]))))
        else:
            x = rng.uniform(0.001, 1000.0)
            rel = 10.0 ** rng.uniform(-9, -5)
            a, b = "%.17g" % x, "%.17g" % (x * (1 + rel))
            if "e" in a or "e" in b or a == b:
                continue
            out.append((a, b))
    return out


def consistency_stream(ctx, pairs):
    """stock AtomBase: the six comparisons of one operand pair must be mutually consistent and equal Python's own
    comparison of the two operand values (finite operands only)"""
    for a, b in pairs:
        va, vb = L.run_stock(a), L.run_stock(b)
        if "skipped" in (va, vb) or "timeout" in (va, vb):
            return
        if not (isinstance(va, L.Val) and isinstance(vb, L.Val)):
            continue
        x, y = va.v, vb.v
        try:
            if x != x or y != y or abs(x) == float("inf") or abs(y) == float("inf"):
                continue
        except Exception:
            continue
        res = {}
        for o in CMP:
            r = L.run_stock("%s %s %s" % (a, L.B2_SYM[o], b))
            res[o] = bool(r.v) if isinstance(r, L.Val) else "err"
        ctx.count("compare.pairs")
        ctx.case("cmp:%s|%s" % (a, b), True, None)
        want = {"eq": x == y, "ne": x != y, "le": x <= y, "ge": x >= y, "lt": x < y, "gt": x > y}
        incons = [t for t in (("eq", "ne"), ("lt", "ge"), ("le", "gt"))
                  if "err" not in (res[t[0]], res[t[1]]) and res[t[0]] == res[t[1]]]
        if res != want or incons:
            ctx.violation("wf-value-atombase-compare",
                          "AtomBase comparisons of %r and %r (values %r, %r): solver gives %s, the comparison of the "
                          "values gives %s%s" % (a, b, x, y, res, want,
                                                  ("; %s and its negation %s are both %s" %
                                                   (incons[0][0], incons[0][1], res[incons[0][0]])) if incons else ""),
                          {"stream": "compare", "text": "%s == %s" % (a, b), "class": "wf", "a": a, "b": b,
                           "solver": res, "values": want})
            return


BIGNUM = [
    # literals / results beyond 2**53: a literal denotes the float nearest to it
    "99999999999999999 == 100000000000000000", "9007199254740992 + 1 > 9007199254740992", "3**40", "10**400",
    "log(10**30)", "sqrt(10**40)", "sin(123456789012345678)", "10**30 / 7", "2**64 * 2**64", "2**53 + 1 - 2**53",
    "12345678901234567890123 - 12345678901234567890124", "99999999999999999999 * 3", "9007199254740993",
    "12345678901234567890", "18014398509481985 / 2", "log10(100000000000000000000)", "10**22 + 1 == 10**22",
    "123456789012345678 != 123456789012345679", "2**70 - 2**70 + 1", "exp(log(99999999999999999))",
    "5", "7 / 2", "2**10", "0 - 3", "1000000 * 1000000",
]


def small_family():
    """systematic small expressions: every ordered pair of binary operators over three operands, with a sign
    on each operand position, every call form, sign runs, `!`."""
    ops = list(L.B2_SYM)
    out = []
    n = lambda t: ["num", t]

    def assoc(o1, o2, a, b, c):
        # parse  a o1 b o2 c  by the stratified grammar
        l1, l2 = L.B2_LEVEL[o1], L.B2_LEVEL[o2]
        if l2 < l1:
            return ["bin", o1, a, ["bin", o2, b, c]]
        return ["bin", o2, ["bin", o1, a, b], c]
    for o1 in ops:
        for o2 in ops:
            out.append(assoc(o1, o2, n("2"), n("3"), n("4")))
            out.append(assoc(o1, o2, n("2"), ["sign", True, n("3")], n("4")))
            out.append(assoc(o1, o2, ["sign", True, n("2")], n("3"), ["sign", False, n("4")]))
    for o in ops:
        out.append(["bin", o, n("5"), ["sign", True, ["sign", True, n("2")]]])
        out.append(["bin", o, n("5"), ["sign", True, ["sign", False, ["sign", True, n("2")]]]])
        for f in L.F1_SYM:
            out.append(["bin", o, ["fn1", f, n("2")], ["sign", True, ["fn1", f, ["fn1", f, n("3")]]]])
        for g in L.F2_SYM:
            out.append(["bin", o, ["fn2", g, ["fn2", g, n("2"), n("3")], ["fn1", "par", n("4")]], n("5")])
        if L.B2_LEVEL[o] <= 5:
            out.append(["not", ["bin", o, n("1"), n("0")]])
            out.append(["bin", "and", ["not", ["bin", o, n("1"), n("0")]], ["not", n("0")]])
    for s1 in (True, False):
        for s2 in (True, False):
            for s3 in (True, False):
                out.append(["sign", s1, ["sign", s2, ["sign", s3, n("7")]]])
                out.append(["bin", "pow", ["sign", s1, ["sign", s2, n("7")]], ["sign", s3, n("2")]])
    return out


def correspond(ctx: Ctx):
    import sys
    L.STOCK["off"] = False
    sys.setrecursionlimit(max(sys.getrecursionlimit(), 20000))   # the reference recogniser is recursive descent
    thorough = ctx.tier == "thorough"
    rng = ctx.rng
    lit_stream(ctx, 3000 if thorough else 600)
    wf_corpus, bad_corpus = load_corpus()
    corpus_asts = []
    for t in wf_corpus:
        cls, ast = L.classify(t)
        if cls != "wf":
            ctx.disagreement("corpus", {"text": t}, "corpus entry listed as well-formed is classified %s" % cls)
        else:
            corpus_asts.append(ast)
    ast_stream(ctx, corpus_asts, 1, 60, "corpus")
    text_stream(ctx, bad_corpus, "corpus-malformed")
    ast_stream(ctx, small_family(), 7, 20, "small")
    # comparison operands that are unequal but close, all six operators, both orders
    ast_stream(ctx, compare_family(), 1000, 0, "compare")
    consistency_stream(ctx, CLOSE_PAIRS + gen_close_pairs(rng, 200 if thorough else 40))
    # integer literals and integer-valued results beyond 2**53
    big = []
    for t in BIGNUM:
        c, a = L.classify(t)
        if c != "wf":
            ctx.disagreement("corpus", {"text": t}, "big-number entry is classified %s" % c)
        else:
            big.append(a)
    ast_stream(ctx, big, 1000, 0, "bignum")
    # deep nesting: plain parentheses, one function, mixed calls, 60-120 levels
    deep = []
    for f, d in (("par", 70 if not thorough else 120), ("sin", 40 if not thorough else 80), (None, 30 if not thorough else 60)):
        e = ["bin", "add", ["num", "1"], ["num", "2"]]
        for i in range(d):
            g = f or ["par", "cos", "sqrt", "exp", "log"][i % 5]
            e = ["fn1", g, e] if i % 7 else ["bin", "mul", ["num", "2"], ["fn1", g, e]]
        deep.append(e)
        if f is None:
            deep.append(["fn2", "powb", e, ["fn2", "logb", ["num", "3"], e]])
    ast_stream(ctx, deep, 1000, 0, "deep")
    shallow = ["fn1", "par", ["bin", "add", ["num", "1"], ["num", "2"]]]
    for i in range(25):
        shallow = ["fn1", ["par", "sin", "sqrt"][i % 3], shallow]
    ast_stream(ctx, [shallow], 1, 10, "deep-edits")   # single-character edits of a 25-level nesting
    # long flat chains: every binary step, a few hundred to a few thousand operands
    lengths = [550, 800, 1200, 2000] + ([3000, 5000] if thorough else [])
    chains = [gen_chain(rng, lv, rng.choice(lengths)) for lv in (2, 3, 4, 5, 7, 8) for _ in range(4 if thorough else 1)]
    chains.append(gen_chain(rng, 4, 3000))
    chains.append(gen_chain(rng, 3, 40))
    chain_stream(ctx, chains)
    maxd = 12 if thorough else 6
    n = 12000 if thorough else 1500
    asts = []
    for i in range(n):
        d = 2 + (i % (maxd - 1))
        e = L.gen_expr(rng, 8, d)
        if L.size(e) > 120:
            continue
        asts.append(e)
    ast_stream(ctx, asts, 3, 40 if thorough else 30, "generated")
    # malformed calls at a general position (wrong arity / dangling operator inside a call, after a prefix)
    text_stream(ctx, general_position_texts(rng, asts, 1500 if thorough else 300), "general-position")
    ctx.extra["max_depth"] = maxd


def search(ctx: Ctx):
    """Aimed search after a broken obligation / correspondence: the systematic small family against the
    specification only (impl vs spec), without edits."""
    if not ctx.driver.exe.exists():
        return
    fam = small_family()
    try:
        spec = ctx.driver.ask_many([{"k": "spec", "ast": e, "bl": []} for e in fam])
    except Exception as ex:
        ctx.notes.append("aimed search: driver unavailable (%s)" % ex)
        return
    for e, r in zip(fam, spec):
        if "ok" not in r:
            continue
        text = r["ok"]["text"]
        impl = L.run_rec(text)
        want = {"atom": L.norm(r["ok"]["eval"])}
        got = {"atom": L.norm(impl["atom"])} if isinstance(impl, dict) and "atom" in impl else impl
        if got != want:
            ctx.violation("wf-value", "well-formed expression %r: solver gives %s, documented order gives %s" %
                          (text, json.dumps(got)[:300], json.dumps(want)[:300]),
                          {"stream": "aimed-search", "text": text, "class": "wf", "impl": impl, "spec": want})
            return


def replay(ctx: Ctx, payload):
    rp = payload.get("replay", payload)
    if rp.get("chain"):
        text = rp.get("text")
        print("flat chain of %d operands, step-%d operators, %d characters: %r…" %
              (rp["chain"]["operands"], rp["chain"]["level"], len(text), text[:70]))
        r = L.run_rec(text) if len(text) < 400 else None
        from scinumtools.solver import ExpressionSolver
        try:
            with ExpressionSolver(P.RecAtom) as es:
                out = es.solve(text)
            print("impl   : term of %d nodes" % len(L.postfix_of(out.value)))
        except Exception as ex:
            print("impl   : raises %s" % type(ex).__name__)
        print("stock  : %s" % (L.run_stock(text),))
        print("spec   : term of %s nodes" % rp.get("spec_nodes"))
        return 0
    if rp.get("history"):
        from scinumtools.solver import ExpressionSolver
        print("one solver instance, calls in this order:")
        with ExpressionSolver(P.RecAtom) as es:
            for t in rp["history"]:
                try:
                    r = L.canon_result(es.solve(t))
                except Exception:
                    r = "err"
                print("  solve(%r) -> %s   [fresh solver: %s]" % (t, json.dumps(r)[:200], json.dumps(L.run_rec(t))[:200]))
    text = rp.get("text")
    if text is None:
        print(json.dumps(payload, indent=1)[:3000])
        return 0
    cls, ast = L.classify(text)
    print("text   : %r" % text)
    print("class  : %s" % cls)
    print("impl   : %s" % json.dumps(L.run_rec(text)))
    print("stock  : %s" % (L.run_stock(text),))
    if ctx.driver.exe.exists():
        print("model  : %s" % json.dumps(ctx.driver.ask({"k": "solve", "cfg": "default", "alg": "float", "s": text})))
        if cls == "wf":
            print("spec   : %s" % json.dumps(ctx.driver.ask({"k": "spec", "ast": ast, "bl": []})["ok"]["eval"]))
    return 0
