"""C09 — temporary custom units never outlive their scope.

Parent side: generates programs (nested / repeated `with UnitEnvironment(...)` scopes with faults
at every registration index, body exceptions, uses inside and outside) and DIP texts, runs them
on the REAL process-wide tables in a fresh worker subprocess, runs the Lean model on the same
programs and compares  impl vs model (events, table summaries)  and  impl vs spec (tables
identical to their previous content after every scope end / failed registration; symbols usable
inside, unknown outside).

Worker side (`python c09.py --worker`, line protocol on stdin/stdout): executes one case per
line with real `with` statements, reports events and table summaries relative to the initial
snapshot, restores the tables after a detected leak so that one defect cannot mask another.
"""
import copy
import json
import os
import re
import subprocess
import sys
from pathlib import Path

RULE = ("random programs P ::= skip | raise | use sym | seq | scope units P | attempt P over a universe of custom "
        "symbols validated against the live tables; every scope has 1-4 units (dict / Quantity valued, optional "
        "fields, custom or built-in conversion classes) and with probability ~0.5 a fault at a random registration "
        "index (existing symbol, symbol of an enclosing scope, clash with a prefixed symbol in either direction, "
        "invalid prefix, missing magnitude/dimensions, non-mapping definition, Quantity whose evaluation raises; each of the "
        "access faults also as a non-Exception: BaseException subclass / KeyboardInterrupt / SystemExit); "
        "DIP texts with $unit definitions that parse and that fail, optionally inside an outer scope, and on every run "
        ">=3 texts for each of 40 positions in which a DIP call site consumes a unit, directly or only through the unit of a referenced / injected / imported node (expression operands incl. references "
        "and function arguments, the unit of the node holding a numerical expression, option lines and !options arrays, "
        "!condition and @case literals, modification and definition units, chained $unit) with the value oracle "
        "[name] = value x magnitude of its definition (accept and reject variants); "
        "scopes (single, nested to 3 levels, with a failing inner registration) whose units come with conversion classes that "
        "really convert (K = a*x + b) and converted VALUES taken inside, judged against the formula of the class registered "
        "last among the open scopes (front of the model's UNIT_TYPES), linear when there is none; "
        "back-to-back scopes of equal size with different symbols and nothing evaluated in between (also two DIP parses); "
        "histories of explicit UnitEnvironment(...) / close() with overlapping lifetimes closed in any order "
        "(first-opened-first, arbitrary), shared and own conversion classes, failing constructions; "
        "the public NumericalSolver / LogicalSolver / TemplateSolver used directly on a parsed environment with custom "
        "units as plain objects, as context managers, reused for several with-blocks and with raising expressions; "
        "non-trivial = at least one nested scope or one injected fault (programs), at least one $unit (DIP), "
        "at least one close that is not LIFO (histories); "
        "distinct = canonical JSON of the program / text")
ASSUMPTIONS = [
    "symbols passed to `use` are plain alphabetic custom symbols of which no other table key is a proper suffix "
    "(then Quantity(1, sym) resolves iff sym is a key; independent of the prefix logic judged by C03)",
    "magnitudes and dimension lists are opaque payloads for the model (compared by repr); the Quantity -> dict "
    "conversion is evaluated by the real Quantity and fed to the model",
    "each definition dict is a fresh object (the in-place defaults `unit['name'] = symbol` are not shared between symbols)",
    "exceptions are raised only where the code can raise (duplicate test, item access on the definition, "
    "Quantity evaluation, check_unique_symbols, body statements); asynchronous exceptions between "
    "`UNIT_TYPES.insert` / `new_types.append` or `UNIT_STANDARD.append` / `new_units.append` are outside the model",
    "bodies do not delete or re-register units behind the environment's back; every environment is closed at most "
    "once (with-statement or a single close(), in any order relative to the other environments)",
    "solver classes used as plain objects: the tables are judged after each statement group (construction, calls, "
    "object dropped); values by the same oracle and control as the DIP texts",
    "DIP texts are judged by the table snapshots and, for the assignment and position families, by the value oracle "
    "(a custom unit means value x magnitude of its definition; magnitudes are powers of two times 1 or 1000 m and values "
    "small integers, so expected values are exact and comparisons are far from the tolerance); "
    "the DIP call sites are tied to the model by recording their UnitEnvironment open/close sequence",
]
EXPLANATION = ("theorems: for every program (any nesting, any fault placement, any body exceptions) the model's "
               "process-wide tables after the run equal the tables before it; __init__ is all-or-nothing; symbols of a "
               "constructed environment resolve to the rows defined; symbols not in the table before do not resolve after; "
               "for explicit open/close in ANY order the tables always are the initial ones plus what the still-open "
               "environments registered, and equal the initial ones once all are closed. "
               "Correspondence: the real UnitEnvironment / DIP on the real tables in a fresh subprocess.")

HERE = Path(__file__).resolve()
VERIF = HERE.parent.parent.parent
CORPUS = VERIF / "corpus" / "C09" / "cases.json"

TYPE_POOL = ["T1", "T2", "T3"]
# conversion classes that really convert: a custom temperature-like unit x (any custom symbol) <-> K with K = a*x + b
AFFINE = {"A1": (1.25, 273.15), "A2": (2.0, 100.0), "A3": (0.5, -10.0)}
TEMP_DIMS = [0, 0, 0, 1, 0, 0, 0, 0]
DIMS = [[1, 0, 0, 0, 0, 0, 0, 0], [3, 2, -1, 0, 0, 1, 0, 0], [0, 1, 0, 0, 0, 0, 0, 0], [2, 1, -2, 0, 0, 0, 0, 0],
        [0, 0, 0, 0, 0, 0, 0, 0], [1, 0, -1, 0, 0, 0, 0, 0]]
MAGS = [3, 2.5, 1, 0.02, 1e3, 7, 12.75]
QEXPRS = [[2, "cm/g2"], [3, "km2*s-1"], [1.5, "m"], [4, "kg*m2/s2"], [2, "N*m"], [10, "s-1"]]


# =====================================================================================
# worker: runs in a fresh interpreter, touches the real process-wide tables
# =====================================================================================
class _Boom(Exception):
    pass


class _Interrupt(BaseException):
    """A watchdog/timeout style fault that is deliberately not an `Exception`."""


def _fault(kind):
    return {"base": _Interrupt("injected fault"), "kbd": KeyboardInterrupt(), "exit": SystemExit(3)}.get(
        kind, RuntimeError("injected fault"))


class _FaultyContains(dict):
    """A definition whose first access (`'name' not in unit`) raises: model `UnitDef.other`."""
    _c09_fault = "early"

    def __init__(self, kind):
        super().__init__(magnitude=1, dimensions=[1, 0, 0, 0, 0, 0, 0, 0])
        self._kind = kind

    def __contains__(self, k):
        raise _fault(self._kind)


class _FaultyMagnitude(dict):
    """A definition whose `unit['magnitude']` raises (after the conversion class went into UNIT_TYPES):
    the model's dict without a magnitude."""
    _c09_fault = "late"

    def __init__(self, data, kind):
        super().__init__(data)
        self._kind = kind

    def __getitem__(self, k):
        if k == "magnitude":
            raise _fault(self._kind)
        return super().__getitem__(k)


class _FaultyValue:
    """`unit.magnitude.value` raises: model `quantity broken`."""
    def __init__(self, kind):
        self._kind = kind

    @property
    def value(self):
        raise _fault(self._kind)


class Worker:
    def __init__(self):
        repo = os.environ.get("VERIF_REPO", "/repo")
        sys.path.insert(0, str(Path(repo) / "src"))
        import warnings
        warnings.simplefilter("ignore")
        from scinumtools.units import Quantity, UnitEnvironment
        from scinumtools.units import settings as S
        from scinumtools.units.unit_types import UnitType
        self.Quantity, self.UnitEnvironment, self.S = Quantity, UnitEnvironment, S
        self.types = {}
        for n in TYPE_POOL:
            self.types[n] = type(n, (UnitType,), {"_istype": lambda self: False})
        for t in S.UNIT_TYPES:
            self.types[t.__name__] = t
        base_keys = set(S.UNIT_STANDARD.keys())

        def make_affine(a, b):
            def _istype(self):
                u1, u2 = list(self.baseunits1.units), list(self.baseunits2.units)
                if len(u1) != 1 or len(u2) != 1:
                    return False
                if u1[0] not in base_keys and u2[0] == "K":
                    self.conversion = ("_affine", a, b)
                elif u1[0] == "K" and u2[0] not in base_keys:
                    self.conversion = ("_affine", 1.0 / a, -b / a)
                else:
                    return False
                return True

            def _affine(self, value, a, b):
                return value * a + b
            return {"_istype": _istype, "_affine": _affine}
        for n, (a, b) in AFFINE.items():
            self.types[n] = type(n, (UnitType,), make_affine(a, b))
        self.s0 = self.snapshot()
        self.s0_objs = (list(S.UNIT_STANDARD.keys()), dict(S.UNIT_STANDARD.items()), list(S.UNIT_TYPES),
                        list(S.UNIT_PREFIXES.keys()), dict(S.UNIT_PREFIXES.items()))
        self.s0_rows = dict(self.s0["data"])

    # ---- canonical views of the live tables
    def tyname(self, t):
        return t.__name__ if isinstance(t, type) else repr(t)

    def row(self, v):
        d = v.data()
        df = d["definition"]
        if df is None:
            dj = None
        elif isinstance(df, str):
            dj = {"str": df}
        else:
            dj = {"ty": self.tyname(df)}
        p = d["prefixes"]
        pj = list(p) if isinstance(p, list) else (p if isinstance(p, bool) else {"other": repr(p)})
        return [repr(d["magnitude"]), repr(d["dimensions"]), dj, d["name"], pj]

    def snapshot(self):
        S = self.S
        return {"keys": list(S.UNIT_STANDARD.keys()),
                "data": [[k, self.row(v)] for k, v in S.UNIT_STANDARD.items()],
                "types": [self.tyname(t) for t in S.UNIT_TYPES],
                "prefixes": list(S.UNIT_PREFIXES.keys()),
                "prefix_rows": [[k, repr(copy.deepcopy(v.data()))] for k, v in S.UNIT_PREFIXES.items()]}

    def gsum(self):
        """Same summary as `gsum` in lean/SciVerif/Drive/C09.lean."""
        S = self.S
        k0 = self.s0["keys"]
        keys = list(S.UNIT_STANDARD.keys())
        data = [[k, self.row(v)] for k, v in S.UNIT_STANDARD.items()]
        out = {}
        if keys[:len(k0)] == k0:
            out["extra"] = keys[len(k0):]
        else:
            out["keys"] = keys
        out["datakeys"] = [k for k, _ in data] == keys
        out["changed"] = [[k, r] for k, r in data if self.s0_rows.get(k) != r]
        cur = {k for k, _ in data}
        out["gone"] = [k for k, _ in self.s0["data"] if k not in cur]
        out["types"] = [self.tyname(t) for t in S.UNIT_TYPES]
        out["prefixes_same"] = list(S.UNIT_PREFIXES.keys()) == self.s0["prefixes"]
        return out

    def restore(self):
        S = self.S
        keys, data, types, pkeys, pdata = self.s0_objs
        S.UNIT_STANDARD._keys[:] = keys
        S.UNIT_STANDARD._data.clear()
        S.UNIT_STANDARD._data.update(data)
        S.UNIT_TYPES[:] = types
        S.UNIT_PREFIXES._keys[:] = pkeys
        S.UNIT_PREFIXES._data.clear()
        S.UNIT_PREFIXES._data.update(pdata)

    # ---- building the definitions handed to UnitEnvironment
    def build_units(self, units, qvals):
        out = {}
        for sym, u in units:
            if "dict" in u:
                d = {}
                for k, v in u["dict"].items():
                    if k == "magnitude":
                        d[k] = int(v) if re.fullmatch(r"-?\d+", v) else float(v)
                    elif k == "dimensions":
                        d[k] = json.loads(v)
                    elif k == "definition":
                        d[k] = None if v is None else (v["str"] if "str" in v else self.types[v["ty"]])
                    elif k == "name":
                        d[k] = v
                    elif k == "prefixes":
                        d[k] = v if isinstance(v, bool) else list(v)
                if u.get("fault") and "magnitude" not in d:
                    d = _FaultyMagnitude(d, u["fault"])      # raises a BaseException instead of KeyError
                out[sym] = d
            elif "quantity" in u:
                q = self.Quantity(u["expr"][0], u["expr"][1])
                if u["quantity"][0] and u.get("fault"):
                    q.magnitude = _FaultyValue(u["fault"])   # unit.magnitude.value raises a BaseException
                elif u["quantity"][0]:
                    q.magnitude = None           # evaluating unit.magnitude.value raises AttributeError
                else:
                    qvals[str(u["qid"])] = [repr(q.magnitude.value * q.baseunits.magnitude),
                                            repr(q.baseunits.dimensions.value(dtype=list))]
                out[sym] = q
            else:
                kind = u["other"]
                if kind == "str":
                    out[sym] = "2*m"
                elif kind == "none":
                    out[sym] = None
                elif kind == "int":
                    out[sym] = 5
                else:        # "faulty", "faulty-base", "faulty-kbd", "faulty-exit"
                    out[sym] = _FaultyContains(kind[7:] if kind.startswith("faulty-") else "exc")
        return out

    # ---- executing a program with real `with` statements
    def exec_prog(self, p, ev, active, qvals, mism):
        if p == "skip":
            return
        if p == "raise":
            ev.append("raised")
            raise _Boom()
        k = p[0]
        if k == "use":
            s = p[1]
            expected = s in self.s0_rows or any(s in a for a in active)
            try:
                self.Quantity(1, s)
            except Exception:
                ev.append(["used", s, False])
                if expected:
                    mism.append(["usable", s])
                raise
            ev.append(["used", s, True])
            if not expected:
                mism.append(["outside", s])
        elif k == "conv":
            # a converted VALUE inside the scope: Quantity(v, s).value('K')
            s, v = p[1], p[2]
            try:
                val = float(self.Quantity(v, s).value("K"))
            except Exception:
                ev.append(["used", s, False])
                if s in self.s0_rows or any(s in a for a in active):
                    mism.append(["usable", s])
                raise
            ev.append(["used", s, True])
            self.convs.append([len(ev) - 1, s, v, val])
        elif k == "seq":
            for q in p[1:]:
                self.exec_prog(q, ev, active, qvals, mism)
        elif k == "attempt":
            try:
                self.exec_prog(p[1], ev, active, qvals, mism)
            except BaseException:      # the model has one kind of exception; injected faults include non-Exceptions
                ev.append("caught")
        elif k == "scope":
            units = self.build_units(p[1], qvals)
            entered = False
            body_exc = None
            try:
                with self.UnitEnvironment(units):
                    entered = True
                    ev.append(["entered", True, self.gsum()])
                    active.append([s for s, _ in p[1]])
                    try:
                        self.exec_prog(p[2], ev, active, qvals, mism)
                    except BaseException as e:
                        body_exc = e
                        raise
                    finally:
                        active.pop()
            except BaseException as e:
                if not entered:
                    ev.append(["entered", False, self.gsum()])
                else:
                    ev.append(["exited", e is body_exc, self.gsum()])
                raise
            ev.append(["exited", True, self.gsum()])
        else:
            raise ValueError("bad program %r" % (p,))

    def finish(self, res):
        res["final"] = self.gsum()
        res["deep_same"] = self.snapshot() == self.s0
        if not res["deep_same"]:
            self.restore()
            res["restored_by_harness"] = self.snapshot() == self.s0
        return res

    def case_prog(self, req):
        ev, qvals, mism = [], {}, []
        self.convs = []
        try:
            self.exec_prog(req["prog"], ev, [], qvals, mism)
            ok = True
        except (Exception, _Interrupt, KeyboardInterrupt, SystemExit):
            ok = False
        return self.finish({"ok": ok, "events": ev, "qvals": qvals, "mismatch": mism, "convs": self.convs})

    # ---- histories: explicit UnitEnvironment(...) / close() with overlapping lifetimes
    def case_hist(self, req):
        ev, qvals, mism = [], {}, []
        opens, syms = [], []
        n0 = len(self.s0["keys"])
        for op in req["ops"]:
            if op[0] == "opn":
                units = self.build_units(op[1], qvals)
                try:
                    env = self.UnitEnvironment(units)
                except BaseException:
                    ev.append(["opened", False, self.gsum()])
                    continue
                opens.append(env)
                syms.append([s for s, _ in op[1]])
                ev.append(["opened", True, self.gsum()])
            elif op[0] == "cls":
                if op[1] >= len(opens):
                    ev.append("noop")
                    continue
                env = opens.pop(op[1])
                syms.pop(op[1])
                try:
                    env.close()
                    ok = True
                except BaseException:
                    ok = False
                ev.append(["closed", ok, self.gsum()])
            else:
                s = op[1]
                expected = s in self.s0_rows or any(s in a for a in syms)
                try:
                    self.Quantity(1, s)
                    ok = True
                except Exception:
                    ok = False
                ev.append(["used", s, ok])
                if ok != expected:
                    mism.append(["usable" if expected else "outside", s])
            # specification, step by step: the extra keys are exactly the symbols of the open environments
            extra = list(self.S.UNIT_STANDARD.keys())[n0:]
            if extra != [x for a in syms for x in a] and not any(m[0] == "step" for m in mism):
                mism.append(["step", "after op %d %s: extra keys %s, open environments registered %s" %
                             (len(ev) - 1, op[0], extra, syms)])
        res = {"events": ev, "open": len(opens), "qvals": qvals, "mismatch": mism}
        return self.finish(res)

    # ---- the public solver classes used directly on a parsed environment
    def case_solver(self, req):
        from scinumtools.dip import DIP
        from scinumtools.dip import solvers as SV
        classes = {"numerical": SV.NumericalSolver, "logical": SV.LogicalSolver, "template": SV.TemplateSolver}
        res = {"steps": []}
        try:
            with DIP() as p:
                p.add_string(req["text"])
                env = p.parse()
        except Exception:
            res["parse_ok"] = False
            return self.finish(res)
        res["parse_ok"] = True
        res["after_parse"] = self.gsum()

        def call(s, c):
            r = s.solve(c[0], c[1]) if c[1] is not None else s.solve(c[0])
            r = getattr(r, "value", r)
            if isinstance(r, (bool,)) or type(r).__name__ == "bool_":
                return bool(r)
            if isinstance(r, str):
                return r
            return float(r)
        for st in req["steps"]:
            cls = classes[st["cls"]]
            vals = []
            ok = True
            try:
                if st["mode"] == "plain":
                    s = cls(env)
                    for c in st["calls"]:
                        vals.append(call(s, c))
                    del s
                elif st["mode"] in ("with", "raise"):
                    with cls(env) as s:
                        for c in st["calls"]:
                            vals.append(call(s, c))
                elif st["mode"] == "reuse":
                    s = cls(env)
                    for c in st["calls"]:
                        with s as t:
                            vals.append(call(t, c))
                    del s
            except (Exception, _Interrupt, KeyboardInterrupt, SystemExit):
                ok = False
            res["steps"].append({"ok": ok, "values": vals, "after": self.gsum()})
        return self.finish(res)

    # ---- DIP
    def case_dip(self, req):
        from scinumtools.dip import DIP
        from scinumtools.dip.settings import Format
        trace = []
        init_code = self.UnitEnvironment.__init__.__code__
        close_code = self.UnitEnvironment.close.__code__
        n0 = len(self.s0["keys"])

        def extra():
            return list(self.S.UNIT_STANDARD.keys())[n0:]

        def udef(v):
            if not isinstance(v, dict) or getattr(v, "_c09_fault", None) == "early":
                return {"other": "x"}
            d = {}
            for k in ("magnitude", "dimensions"):
                if k in v:
                    d[k] = repr(v[k])
            if "name" in v:
                d["name"] = v["name"]
            if "definition" in v:
                df = v["definition"]
                d["definition"] = None if df is None else ({"str": df} if isinstance(df, str) else {"ty": self.tyname(df)})
            if "prefixes" in v:
                d["prefixes"] = v["prefixes"] if isinstance(v["prefixes"], bool) else list(v["prefixes"])
            return {"dict": d}

        def prof(frame, event, arg):
            # records (without altering anything) every UnitEnvironment construction / close
            if frame.f_code is init_code:
                if event == "call":
                    u = frame.f_locals.get("units")
                    try:
                        units = [[str(k), udef(v)] for k, v in u.items()]
                    except Exception:
                        units = None
                    trace.append(["init", units, extra(), [self.tyname(t) for t in self.S.UNIT_TYPES]])
                elif event == "return":
                    trace.append(["init-end", extra(), [self.tyname(t) for t in self.S.UNIT_TYPES]])
            elif frame.f_code is close_code and event == "return":
                trace.append(["close-end", extra(), [self.tyname(t) for t in self.S.UNIT_TYPES]])

        def body():
            import shutil
            import tempfile
            text = req["text"]
            tmp = None
            if req.get("files"):
                tmp = tempfile.mkdtemp(prefix="c09dip_")
                for name, content in req["files"].items():
                    Path(tmp, name).write_text(content)
                text = text.replace("@DIR@", tmp)
            try:
                for extra_text in req.get("before_texts") or []:
                    # an earlier, complete DIP parse in the same case; nothing is evaluated in between
                    with DIP() as p0:
                        p0.add_string(extra_text)
                        p0.parse()
                with DIP() as p:
                    if req.get("preset_fault"):
                        # a unit the caller put into the DIP environment whose definition object raises a
                        # non-Exception fault when registered, AFTER another unit has been registered
                        p.env.units.units["[pre]"] = {"magnitude": 3.0, "dimensions": [1, 0, 0, 0, 0, 0, 0, 0],
                                                      "value": "3", "units": "m", "source": None}
                        p.env.units.units["[zfault]"] = _FaultyContains(req["preset_fault"])
                    p.add_string(text)
                    env = p.parse()
                    return env.data(Format.TUPLE)
            finally:
                if tmp:
                    shutil.rmtree(tmp, ignore_errors=True)
        res = {}
        outer = req.get("outer")
        inside = []
        try:
            sys.setprofile(prof)
            try:
                if outer:
                    with self.UnitEnvironment(self.build_units(outer, {})):
                        inside.append(self.gsum())
                        data = body()
                else:
                    data = body()
            finally:
                sys.setprofile(None)
            res["ok"] = True
            res["data"] = {k: [repr(v[0]) if not isinstance(v[0], (int, float)) else float(v[0]), v[1]]
                           if isinstance(v, tuple) else repr(v) for k, v in data.items()}
        except (Exception, _Interrupt, KeyboardInterrupt, SystemExit):
            res["ok"] = False
        res["trace"] = trace
        res["inside"] = inside
        # outside the scope the DIP units must be unknown
        res["outside_known"] = []
        for s in req.get("symbols", []):
            try:
                self.Quantity(1, s)
                res["outside_known"].append(s)
            except Exception:
                pass
        return self.finish(res)

    def serve(self):
        out = sys.stdout
        out.write(json.dumps({"g0": self.s0}) + "\n")
        out.flush()
        for line in sys.stdin:
            line = line.strip()
            if not line:
                continue
            req = json.loads(line)
            try:
                if req["kind"] == "prog":
                    r = self.case_prog(req)
                elif req["kind"] == "dip":
                    r = self.case_dip(req)
                elif req["kind"] == "hist":
                    r = self.case_hist(req)
                elif req["kind"] == "solver":
                    r = self.case_solver(req)
                else:
                    r = {"error": "unknown kind"}
            except BaseException as e:   # harness problem, not a verdict
                import traceback
                r = {"error": "%r\n%s" % (e, traceback.format_exc()[-1500:])}
                try:
                    self.restore()
                except Exception:
                    pass
            out.write(json.dumps(r) + "\n")
            out.flush()


# =====================================================================================
# parent side
# =====================================================================================
class WorkerProc:
    def __init__(self, repo):
        env = dict(os.environ)
        env["VERIF_REPO"] = str(repo)
        env["PYTHONWARNINGS"] = "ignore"
        self.p = subprocess.Popen([sys.executable, str(HERE), "--worker"], stdin=subprocess.PIPE,
                                  stdout=subprocess.PIPE, stderr=subprocess.DEVNULL, text=True, env=env)
        self.g0 = json.loads(self._readline(300))["g0"]

    def _readline(self, timeout):
        """One answer line; a worker that hangs or dies is a tool failure (exit 2), never a verdict."""
        import select
        ready, _, _ = select.select([self.p.stdout], [], [], timeout)
        if not ready:
            self.p.kill()
            raise subprocess.TimeoutExpired("C09 worker", timeout)
        line = self.p.stdout.readline()
        if not line:
            raise RuntimeError("C09 worker died (rc=%s)" % self.p.poll())
        return line

    def ask(self, req, timeout=120):
        self.p.stdin.write(json.dumps(req) + "\n")
        self.p.stdin.flush()
        return json.loads(self._readline(timeout))

    def close(self):
        try:
            self.p.stdin.close()
            self.p.wait(timeout=10)
        except Exception:
            self.p.kill()


def clean_sum(g0):
    return {"extra": [], "datakeys": True, "changed": [], "gone": [], "types": list(g0["types"]), "prefixes_same": True}


# ---------------------------------------------------------------- translator
EXTRA_OBLIGATIONS = ["SciVerif.C09.C09_real_tables_wf", "SciVerif.C09.C09_restored_real"]


def lean_str(x):
    return json.dumps(x, ensure_ascii=False)


def lean_row(r):
    df = ".none" if r[2] is None else ("(.str %s)" % lean_str(r[2]["str"]) if "str" in r[2] else "(.ty %s)" % lean_str(r[2]["ty"]))
    pf = ".no" if r[4] is False else (".all" if r[4] is True else "(.list [%s])" % ", ".join(lean_str(x) for x in r[4]))
    return "⟨%s, %s, %s, %s, %s⟩" % (lean_str(r[0]), lean_str(r[1]), df, lean_str(r[3]), pf)


def gen_tables(ctx):
    """Re-extracts the pristine process-wide tables from a fresh interpreter into Lean."""
    from harness import core
    w = WorkerProc(core.REPO)
    try:
        g0 = w.g0
    finally:
        w.close()
    for k, r in g0["data"]:
        if isinstance(r[4], dict):
            raise ValueError("row %s: prefixes field %s is outside the model" % (k, r[4]))
    out = ["import SciVerif.Model.C09", "",
           "/-! GENERATED by harness/props/c09.py (gen_tables) from the live UNIT_STANDARD / UNIT_TYPES /",
           "UNIT_PREFIXES of a fresh interpreter. Do not edit. -/", "namespace SciVerif.C09", "",
           "def realKeys : List Sym := [" + ", ".join(lean_str(k) for k in g0["keys"]) + "]", "",
           "def realData : List (Sym × Row) := ["]
    out.append(",\n".join("  (%s, %s)" % (lean_str(k), lean_row(r)) for k, r in g0["data"]))
    out += ["]", "", "def realTypes : List Ty := [" + ", ".join(lean_str(t) for t in g0["types"]) + "]", "",
            "def realPrefixes : List String := [" + ", ".join(lean_str(t) for t in g0["prefixes"]) + "]", "",
            "/-- the process-wide tables as they are when the library has just been imported -/",
            "def realG : Globals := ⟨⟨realKeys, realData⟩, realTypes, realPrefixes⟩", "",
            "end SciVerif.C09", ""]
    path = core.LEAN / "SciVerif" / "Generated" / "C09Tables.lean"
    return ["Generated/C09Tables.lean"] if core.write_if_changed(path, "\n".join(out)) else []


# ---------------------------------------------------------------- symbol universe
def universe(g0):
    """Custom symbols usable in `use`: alphabetic, not a key, and no key is a suffix of them."""
    keys = set(g0["keys"])
    cands = []
    for a in "qxzjvwy":
        for b in "qxzjvwyekobi":
            c = a + b
            if c in keys or any(c.endswith(k) for k in keys):
                continue
            cands.append(c)
    prefixes = g0["prefixes"]
    rows = dict((k, r) for k, r in g0["data"])
    # prefix + existing unit that accepts it, not itself a key  (registers fine, then fails the uniqueness check)
    clash = []
    for k, r in g0["data"]:
        if not k.isalpha():
            continue
        ps = prefixes if r[4] is True else (r[4] if isinstance(r[4], list) else [])
        for p in ps:
            if p + k not in keys:
                clash.append(p + k)
    # reverse clash: new symbol X with prefix list [p] such that p+X is an existing key
    rev = []
    for k in g0["keys"]:
        for p in prefixes:
            if k.startswith(p) and len(k) > len(p) and k[len(p):] not in keys and k[len(p):].isalpha():
                rev.append([k[len(p):], p])
    existing = [k for k in g0["keys"] if k.isalpha()]
    return {"customs": cands, "clash": sorted(clash), "rev": sorted(rev), "existing": existing}


# ---------------------------------------------------------------- generators
class Gen:
    def __init__(self, rng, uni):
        self.rng = rng
        self.uni = uni
        self.qid = 0
        self.faults = 0
        self.nested = 0
        self.kinds = []

    def good_def(self, allow_q=True):
        r = self.rng
        if allow_q and r.random() < 0.25:
            self.qid += 1
            return {"quantity": [False, "", ""], "expr": r.choice(QEXPRS), "qid": self.qid}
        d = {"magnitude": repr(r.choice(MAGS)), "dimensions": json.dumps(r.choice(DIMS))}
        x = r.random()
        if x < 0.2:
            d["definition"] = None
        elif x < 0.35:
            d["definition"] = {"str": r.choice(["3*m", "2*cm/g2", "not a unit ("])}
        elif x < 0.6:
            d["definition"] = {"ty": r.choice(TYPE_POOL)}
        elif x < 0.68:
            d["definition"] = {"ty": r.choice(["StandardUnitType", "TemperatureUnitType", "LogarithmicUnitType"])}
        if r.random() < 0.3:
            d["name"] = r.choice(["my unit", "x", ""])
        x = r.random()
        if x < 0.15:
            d["prefixes"] = False
        elif x < 0.3:
            d["prefixes"] = True
        elif x < 0.45:
            d["prefixes"] = r.sample(["k", "M", "G", "m", "da"], r.randint(1, 3))
        return {"dict": d}

    def scope(self, depth, outer_syms, free):
        """outer_syms: symbols of enclosing scopes; free: custom symbols not yet used on this path."""
        r = self.rng
        n = r.randint(1, 4)
        free = list(free)
        r.shuffle(free)
        units = []
        for _ in range(n):
            if not free:
                break
            units.append([free.pop(), self.good_def()])
        mine = [s for s, _ in units]
        fault = None
        if r.random() < 0.5:
            i = r.randint(0, len(units))
            kind = r.choice(["existing", "outer", "clash", "clash-custom", "rev", "badprefix", "nomag", "nodim",
                             "nomag-type", "other", "brokenq", "base-early", "base-late", "base-quantity"])
            ent = None
            if kind == "existing":
                ent = [r.choice(self.uni["existing"]), self.good_def()]
            elif kind == "outer" and outer_syms:
                ent = [r.choice(outer_syms), self.good_def()]
            elif kind == "clash":
                ent = [r.choice(self.uni["clash"]), self.good_def(False)]
            elif kind == "clash-custom" and (units or outer_syms) and free:
                # a custom unit with prefixes=True, and 'k'+symbol as another unit
                base = free.pop()
                units.insert(min(i, len(units)), [base, {"dict": {"magnitude": "3", "dimensions": json.dumps(DIMS[0]),
                                                                 "prefixes": r.choice([True, ["k", "M"]])}}])
                mine.append(base)
                ent = ["k" + base, self.good_def(False)]
                i = r.randint(0, len(units))
            elif kind == "rev" and self.uni["rev"]:
                x, p = r.choice(self.uni["rev"])
                ent = [x, {"dict": {"magnitude": "2", "dimensions": json.dumps(DIMS[1]), "prefixes": [p]}}]
            elif kind == "badprefix" and free:
                ent = [free.pop(), {"dict": {"magnitude": "2", "dimensions": json.dumps(DIMS[1]),
                                             "prefixes": r.choice([["q"], ["k", "kk"]])}}]
            elif kind in ("nomag", "nodim", "nomag-type") and free:
                d = self.good_def(False)["dict"]
                d.pop("magnitude" if kind != "nodim" else "dimensions")
                if kind == "nomag-type":
                    d["definition"] = {"ty": r.choice(TYPE_POOL)}
                ent = [free.pop(), {"dict": d}]
            elif kind == "other" and free:
                ent = [free.pop(), {"other": r.choice(["str", "none", "int", "faulty"])}]
            elif kind == "base-early" and free:
                # a non-Exception fault (watchdog BaseException, KeyboardInterrupt, SystemExit) at the first access
                ent = [free.pop(), {"other": "faulty-" + r.choice(["base", "kbd", "exit"])}]
            elif kind == "base-late" and free:
                # ... at `unit['magnitude']`, after the conversion class has gone into UNIT_TYPES
                d = self.good_def(False)["dict"]
                d.pop("magnitude")
                d["definition"] = {"ty": r.choice(TYPE_POOL)}
                ent = [free.pop(), {"dict": d, "fault": r.choice(["base", "kbd", "exit"])}]
            elif kind == "base-quantity" and free:
                ent = [free.pop(), {"quantity": [True, "", ""], "expr": r.choice(QEXPRS), "qid": 0,
                                    "fault": r.choice(["base", "kbd", "exit"])}]
            elif kind == "brokenq" and free:
                ent = [free.pop(), {"quantity": [True, "", ""], "expr": r.choice(QEXPRS), "qid": 0}]
            if ent is not None:
                units.insert(min(i, len(units)), ent)
                fault = kind
                self.faults += 1
                self.kinds.append(kind)
        body = self.body(depth, outer_syms + mine, free, mine)
        return ["scope", units, body], mine

    def body(self, depth, active, free, mine):
        r = self.rng
        stmts = []
        for _ in range(r.randint(0, 4)):
            x = r.random()
            if x < 0.4 and active:
                stmts.append(["use", r.choice(active)])
            elif x < 0.5 and free:
                stmts.append(["attempt", ["use", r.choice(free)]])
            elif x < 0.8 and depth < 3 and free:
                sc, _ = self.scope(depth + 1, active, free)
                self.nested += 1
                stmts.append(sc if r.random() < 0.35 else ["attempt", sc])
            elif x < 0.88:
                stmts.append("raise")
            elif x < 0.93:
                stmts.append(["attempt", "raise"])
            else:
                stmts.append("skip")
        if not stmts:
            return "skip"
        return stmts[0] if len(stmts) == 1 else ["seq"] + stmts

    def converting(self):
        """Scopes whose units come with conversion classes that really convert (K = a*x + b), single and nested;
        inside the scopes converted VALUES are taken. Specification: the class registered last (front of
        UNIT_TYPES, as the model says) converts; without any such class the conversion is linear."""
        r = self.rng
        syms = r.sample(self.uni["customs"], 4)
        classes = r.sample(sorted(AFFINE), 3)

        def tunit(cls):
            d = {"magnitude": "1", "dimensions": json.dumps(TEMP_DIMS)}
            if cls:
                d["definition"] = {"ty": cls}
            return {"dict": d}

        def conv(sym):
            return ["conv", sym, r.choice([0, 10, 80, -40, 2.5])]
        inner_kind = r.choice(["none", "other-class", "same-class", "no-class", "fails", "two-levels"])
        body = [conv(syms[0])]
        if inner_kind != "none":
            icls = {"other-class": classes[1], "same-class": classes[0], "no-class": None, "fails": classes[1],
                    "two-levels": classes[1]}[inner_kind]
            iunits = [[syms[1], tunit(icls)]]
            if inner_kind == "fails":
                iunits.append([r.choice(self.uni["existing"]), tunit(None)])
            ibody = [conv(syms[0]), conv(syms[1])]
            if inner_kind == "two-levels":
                ibody.append(["scope", [[syms[2], tunit(classes[2])]], ["seq", conv(syms[0]), conv(syms[1]), conv(syms[2])]])
                ibody.append(conv(syms[1]))
            inner = ["scope", iunits, ["seq"] + ibody]
            body += [["attempt", inner] if inner_kind == "fails" or r.random() < 0.5 else inner, conv(syms[0])]
        prog = ["scope", [[syms[0], tunit(classes[0])]] + ([[syms[3], tunit(None)]] if r.random() < 0.3 else []),
                body[0] if len(body) == 1 else ["seq"] + body]
        self.kinds.append("converting")
        self.nested += 0 if inner_kind == "none" else 1
        return ["seq", ["attempt", prog], ["attempt", ["use", syms[0]]]]

    def back_to_back(self):
        """Repeated scopes in direct succession: the same number of units, different symbols, and NO unit
        expression evaluated between them (no `use` at base table size, no Quantity-valued definitions).
        Inside each scope its own symbols are used and the previous scope's symbols must be unknown."""
        r = self.rng
        n = r.randint(1, 2)
        k = r.randint(2, 4)
        customs = r.sample(self.uni["customs"], n * k)
        top, prev = [], []
        for i in range(k):
            mine = customs[i * n:(i + 1) * n]
            units = [[s, self.good_def(False)] for s in mine]
            body = [["use", s] for s in mine] + [["attempt", ["use", s]] for s in prev[:1]]
            if r.random() < 0.3:
                body.append("raise")
            sc = ["scope", units, body[0] if len(body) == 1 else ["seq"] + body]
            top.append(["attempt", sc])
            prev = mine
        self.kinds.append("back-to-back")
        return ["seq"] + top

    def program(self):
        r = self.rng
        x = r.random()
        if x < 0.15:
            return self.back_to_back()
        if x < 0.27:
            return self.converting()
        customs = r.sample(self.uni["customs"], min(len(self.uni["customs"]), r.randint(4, 9)))
        top = []
        for _ in range(r.randint(1, 3)):
            sc, mine = self.scope(0, [], customs)
            top.append(["attempt", sc] if r.random() < 0.85 else sc)
            if r.random() < 0.6:          # otherwise the next scope follows with nothing evaluated in between
                for s in mine[:2]:
                    if s in customs:
                        top.append(["attempt", ["use", s]])
        return top[0] if len(top) == 1 else ["seq"] + top


def subst_qvals(p, qvals):
    """Fill the Quantity evaluations observed on the real run into the program for the model."""
    if isinstance(p, str):
        return p
    if p[0] == "scope":
        units = []
        for s, u in p[1]:
            if "quantity" in u and not u["quantity"][0]:
                v = qvals.get(str(u["qid"]))
                if v is None:
                    v = ["?", "?"]       # never evaluated on the real run (the scope was not reached)
                u = {"quantity": [False, v[0], v[1]]}
            elif "quantity" in u:
                u = {"quantity": [True, "", ""]}
            units.append([s, u])
        return ["scope", units, subst_qvals(p[2], qvals)]
    if p[0] in ("seq",):
        return ["seq"] + [subst_qvals(q, qvals) for q in p[1:]]
    if p[0] == "attempt":
        return ["attempt", subst_qvals(p[1], qvals)]
    if p[0] == "conv":
        return ["use", p[1]]          # for the model a conversion is a use; its value is judged by the harness
    return p


def is_nontrivial(p, depth=0):
    if isinstance(p, str):
        return False
    if p[0] in ("use", "conv"):
        return False
    if p[0] == "scope":
        if depth >= 1:
            return True
        for s, u in p[1]:
            if "other" in u or ("quantity" in u and u["quantity"][0]) or \
                    ("dict" in u and ("magnitude" not in u["dict"] or "dimensions" not in u["dict"])):
                return True
        return is_nontrivial(p[2], depth + 1)
    return any(is_nontrivial(q, depth) for q in p[1:] if not isinstance(q, str) or q in ("raise",)) or \
        any(q == "raise" for q in p[1:])


# ---------------------------------------------------------------- the specification on an impl result
def spec_violations(res, clean):
    """impl vs spec: list of (signature, what)."""
    out = []
    stack = []
    cur = clean
    for e in res["events"]:
        if isinstance(e, list) and e[0] == "entered":
            if e[1]:
                stack.append(cur)
            elif e[2] != cur:
                out.append(("leak:init-raised:" + what_leaked(cur, e[2]),
                            "UnitEnvironment.__init__ raised and left the process-wide tables changed: %s" % diff_text(cur, e[2])))
            cur = e[2]
        elif isinstance(e, list) and e[0] == "exited":
            before = stack.pop() if stack else clean
            if e[2] != before:
                out.append(("leak:exit:" + what_leaked(before, e[2]),
                            "after the scope ended the tables differ from before it was opened: %s" % diff_text(before, e[2])))
            cur = e[2]
    if res["final"] != clean and not out:
        out.append(("leak:final:" + what_leaked(clean, res["final"]),
                    "tables differ from their initial content after the run: %s" % diff_text(clean, res["final"])))
    if not res.get("deep_same", True) and not out:
        out.append(("leak:rows", "deep comparison of the tables (rows, prefix table) differs after the run"))
    for kind, s in res.get("mismatch", []):
        if kind == "usable":
            out.append(("usable", "custom unit %r is registered by an open scope but Quantity(1, %r) raises" % (s, s)))
        else:
            out.append(("outside", "custom unit %r is not registered by any open scope but Quantity(1, %r) works" % (s, s)))
    return out


def what_leaked(a, b):
    parts = []
    if a.get("extra") != b.get("extra") or "keys" in b:
        parts.append("units")
    if a["types"] != b["types"]:
        parts.append("types")
    if a["changed"] != b["changed"] or a["gone"] != b["gone"] or not b["datakeys"]:
        parts.append("rows")
    if not b["prefixes_same"]:
        parts.append("prefixes")
    return "+".join(parts) or "other"


def diff_text(a, b):
    return "symbols %s -> %s, UNIT_TYPES %s -> %s, changed rows %s, missing %s" % (
        a.get("extra", a.get("keys")), b.get("extra", b.get("keys")), a["types"], b["types"],
        [k for k, _ in b["changed"]], b["gone"])


# ---------------------------------------------------------------- shrinking
def shrink_candidates(p):
    if isinstance(p, str):
        return
    k = p[0]
    if k == "seq":
        for i in range(1, len(p)):
            rest = p[1:i] + p[i + 1:]
            yield rest[0] if len(rest) == 1 else (["seq"] + rest if rest else "skip")
        for i in range(1, len(p)):
            for c in shrink_candidates(p[i]):
                yield p[:i] + [c] + p[i + 1:]
    elif k == "attempt":
        yield p[1]
        for c in shrink_candidates(p[1]):
            yield ["attempt", c]
    elif k == "scope":
        yield p[2]
        if p[2] != "skip":
            yield ["scope", p[1], "skip"]
        for i in range(len(p[1])):
            if len(p[1]) > 1:
                yield ["scope", p[1][:i] + p[1][i + 1:], p[2]]
        for i, (s, u) in enumerate(p[1]):
            if "dict" in u:
                for f in ("name", "definition", "prefixes"):
                    if f in u["dict"]:
                        d = dict(u["dict"])
                        d.pop(f)
                        yield ["scope", p[1][:i] + [[s, {"dict": d}]] + p[1][i + 1:], p[2]]
        for c in shrink_candidates(p[2]):
            yield ["scope", p[1], c]


def shrink_prog(worker, clean, p, sig, max_steps=200):
    steps = 0
    progress = True
    while progress and steps < max_steps:
        progress = False
        for c in shrink_candidates(p):
            steps += 1
            if steps > max_steps:
                break
            r = worker.ask({"kind": "prog", "prog": c})
            if "error" in r:
                continue
            if any(s == sig for s, _ in spec_violations(r, clean)):
                p = c
                progress = True
                break
    return p


# ---------------------------------------------------------------- streams
def load_corpus():
    if CORPUS.exists():
        return json.loads(CORPUS.read_text())
    return {"progs": [], "dip": []}


def prog_stream(ctx, worker, g0, count):
    uni = universe(g0)
    from harness.util import rel_close
    clean = clean_sum(g0)
    gen = Gen(ctx.rng, uni)
    progs = list(load_corpus()["progs"])
    ncorpus = len(progs)
    for _ in range(count):
        progs.append(gen.program())
    for k in gen.kinds:
        ctx.count("prog.fault." + k)
    ctx.count("prog.corpus", ncorpus)
    ctx.count("prog.nested_scopes", gen.nested)
    results = []
    for p in progs:
        r = worker.ask({"kind": "prog", "prog": p})
        results.append(r)
    # the Lean model on the same programs (Quantity evaluations taken from the real run)
    G = {"keys": g0["keys"], "data": g0["data"], "types": g0["types"], "prefixes": g0["prefixes"]}
    mprogs = [subst_qvals(p, r.get("qvals", {})) for p, r in zip(progs, results)]
    model = []
    B = 100
    reqs = [{"p": "C09", "k": "run", "G": G, "progs": mprogs[i:i + B]} for i in range(0, len(mprogs), B)]
    for ans in ctx.driver.ask_many(reqs):
        if "ok" not in ans:
            ctx.disagreement("prog", {"driver": ans}, "driver error")
            return
        model += ans["ok"]
    seen_sig = set()
    for p, r, m in zip(progs, results, model):
        ctx.case(["prog", p], is_nontrivial(p), {"prog": p} if len(json.dumps(p)) < 400 else None)
        if "error" in r:
            ctx.notes.append("C09 worker error on a program: %s" % r["error"][:300])
            ctx.count("prog.worker_error")
            continue
        ctx.count("prog.events", len(r["events"]))
        ctx.count("prog.init_raised", sum(1 for e in r["events"] if isinstance(e, list) and e[0] == "entered" and not e[1]))
        ctx.count("prog.init_ok", sum(1 for e in r["events"] if isinstance(e, list) and e[0] == "entered" and e[1]))
        ctx.count("prog.used_ok", sum(1 for e in r["events"] if isinstance(e, list) and e[0] == "used" and e[2]))
        ctx.count("prog.used_fail", sum(1 for e in r["events"] if isinstance(e, list) and e[0] == "used" and not e[2]))
        # impl vs spec
        # one defect is reported once: only the first deviation of a case counts (later ones are
        # consequences: the worker restores the tables only at the end of the case)
        for sig, what in spec_violations(r, clean)[:1]:
            if sig in seen_sig:
                continue
            seen_sig.add(sig)
            small = shrink_prog(worker, clean, p, sig)
            rs = worker.ask({"kind": "prog", "prog": small})
            whats = [w for s, w in spec_violations(rs, clean) if s == sig] or [what]
            ctx.violation(sig, whats[0], {"stream": "prog", "prog": small, "impl_events": rs.get("events"),
                                          "impl_final": rs.get("final"), "clean": clean})
        # converted values inside the scopes: the class registered last (first in the model's UNIT_TYPES) converts
        for idx, sym, v, val in r.get("convs", []):
            types = g0["types"]
            for e in m["events"][:idx + 1]:
                if isinstance(e, list) and e[0] in ("entered", "exited"):
                    types = e[2]["types"]
            cls = next((t for t in types if t in AFFINE), None)
            exp = v * AFFINE[cls][0] + AFFINE[cls][1] if cls else float(v)
            ctx.count("prog.conversions")
            if not rel_close(val, exp) and "usable:conversion" not in seen_sig:
                seen_sig.add("usable:conversion")
                ctx.violation("usable:conversion",
                              "inside the scope Quantity(%s, %r).value('K') is %r; the conversion class registered last among the "
                              "open scopes (%s) gives %r" % (v, sym, val, "%s: K = %s*x + %s" % ((cls,) + AFFINE[cls]) if cls else
                                                              "none: linear", exp),
                              {"stream": "prog", "prog": p, "conversion": [sym, v, val, exp], "model_types": types,
                               "impl_events": r.get("events"), "clean": clean})
        # model's own verdict must be "restored" (theorem C09_restored); a model that is not is a tie problem
        if not m["restored"]:
            ctx.disagreement("prog", {"prog": p}, "the Lean model does not restore the tables (contradicts C09_restored)")
        # impl vs model
        mine = {"ok": r["ok"], "events": r["events"], "final": r["final"]}
        theirs = {"ok": m["ok"], "events": m["events"], "final": m["final"]}
        if mine != theirs:
            ctx.disagreement("prog", {"prog": p}, "impl %s model %s" % (json.dumps(mine)[:600], json.dumps(theirs)[:600]))


DIP_DEF_UNITS = [("m", 1.0), ("km", 1e3), ("cm", 1e-2), ("m", 1.0)]


def gen_dip(rng):
    """Returns dict(text, symbols, expect_ok (True/False/None), expect(dict of name -> value in m)).
    Every DIP call site that opens a unit scope is exercised with a body that completes and one that raises."""
    names = rng.sample(["x", "yy", "len", "uA", "q_1", "Zz"], rng.randint(1, 3))
    lines, symbols, expect = [], [], {}
    vals, defs = {}, {}
    for n in names:
        v = rng.choice([2, 0.5, 3, 10])
        u, f = rng.choice(DIP_DEF_UNITS)
        lines.append("$unit %s = %s %s" % (n, v, u))
        symbols.append("[%s]" % n)
        vals[n] = float(v) * f
        defs[n] = (float(v), u)
    ok = True
    for i, n in enumerate(names):
        k = rng.choice([1, 2, 4])
        lines.append("a%d float = 1 m" % i)
        lines.append("a%d = %d [%s]" % (i, k, n))
        expect["a%d" % i] = k * vals[n]
    mode = rng.choice(["ok", "ok", "unknown-unit", "int-unknown", "clash-const", "dup-unit", "bad-conv", "expr",
                       "expr-fail", "undefined-ref", "chain", "unit-fail", "cond", "cond-fail", "cond-unmet",
                       "case", "case-fail", "int"])
    n0 = names[0]
    if mode == "unknown-unit":      # node_float.parse raises inside its scope
        lines.insert(rng.randint(len(names), len(lines)), "b float = 3 [nope]")
        ok = False
    elif mode == "int-unknown":     # node_integer.parse
        lines.insert(rng.randint(len(names), len(lines)), "b int = 3 [nope]")
        ok = False
    elif mode == "clash-const":
        # `[c]` is a built-in constant: every later scope fails at its registration, after k>=0 others succeeded
        pos = rng.randint(0, len(names))
        lines.insert(pos, "$unit %s = 3 m" % rng.choice(["c", "k_B", "pi"]))
        lines.append("b float = 3 m")
        ok = False
    elif mode == "dup-unit":
        lines.insert(len(names), "$unit %s = 7 s" % n0)
        ok = False
    elif mode == "bad-conv":        # NumberType.convert raises inside its scope
        lines.append("a0 = 1 s")
        ok = False
    elif mode == "expr":            # numerical_solver.solve
        lines.append("e float = ('1 [%s] + 1 m') m" % n0)
        ok = None      # value judged by C18
    elif mode == "expr-fail":
        lines.append("e float = ('1 [nope] + 1 m') m")
        ok = False
    elif mode == "undefined-ref":
        lines.append("r float = {?nothing} m")
        ok = False
    elif mode == "chain":           # node_unit.parse uses an earlier custom unit
        lines.insert(len(names), "$unit ch = 3 [%s]" % n0)
        symbols.append("[ch]")
        lines.append("c0 float = 1 m")
        lines.append("c0 = 2 [ch]")
        expect["c0"] = 6 * vals[n0]
    elif mode == "unit-fail":       # node_unit.parse raises inside its scope
        lines.insert(len(names), "$unit ch = 3 [nope]")
        ok = False
    elif mode == "cond":            # logical_solver.solve
        lines.append("d float = 3000 m")
        lines.append("  !condition ('{?} > 0.001 [%s]')" % n0)
        ok = None      # judged by C16
    elif mode == "cond-fail":
        lines.append("d float = 3 m")
        lines.append("  !condition ('{?} > 1 [nope]')")
        ok = False
    elif mode == "cond-unmet":
        lines.append("d float = 3 m")
        lines.append("  !condition ('{?} > 70000 [%s]')" % n0)
        ok = False
    elif mode == "case":
        lines.append("@case ('{?a0} > 0.0001 [%s]')" % n0)
        lines.append("  z int = 1")
        lines.append("@end")
        ok = None      # judged by C15
    elif mode == "case-fail":
        lines.append("@case ('{?a0} > 1 [nope]')")
        lines.append("  z int = 1")
        lines.append("@end")
        ok = False
    elif mode == "int":
        lines.append("i int = 3 [%s]" % n0)
        ok = None
    case = {"text": "\n".join(lines) + "\n", "symbols": symbols, "expect_ok": ok, "expect": expect if ok else {}, "mode": mode}
    if ok:
        # control: `K [name]` written with the standard unit of the definition instead
        ctext = case["text"]
        for n, (v, u) in defs.items():
            ctext = re.sub(r"(\d+) \[%s\]" % re.escape(n), lambda m: "%s %s" % (_num(int(m.group(1)) * v), u), ctext)
        case["control"] = {"text": ctext, "expect_ok": True, "expect": dict(case["expect"])}
    if rng.random() < 0.3:
        case["outer"] = [["qq", {"dict": {"magnitude": "5", "dimensions": json.dumps(DIMS[0]),
                                          "definition": {"ty": "T1"}}}]]
        if rng.random() < 0.5 and ok:
            case["text"] += "o float = 2 qq\n"
            case["control"]["text"] += "o float = 2 qq\n"
    return case


def _num(x):
    """A number as DIP text (integral floats without exponent/fraction noise)."""
    x = float(x)
    return str(int(x)) if x == int(x) and abs(x) < 1e15 else repr(x)


POSITION_MODES = ["expr-operand", "expr-operand-literal", "expr-operand-fn", "expr-operand-two", "expr-result-float",
                  "expr-result-std-operands", "expr-result-int", "expr-result-other-custom", "option-lines",
                  "option-lines-reject", "options-short", "options-short-reject", "options-custom-node",
                  "cond-true", "cond-false", "cond-custom-node", "case-true", "case-false",
                  "mod-to-custom", "mod-from-custom", "mod-int", "def-chain",
                  # INDIRECT positions: the custom unit reaches the call site only through the unit of a referenced
                  # node (the expression / option / condition text itself spells standard units only)
                  "ind-expr-ref", "ind-expr-ref-scale", "ind-expr-two-refs",
                  "ind-bool-true", "ind-bool-false", "ind-bool-two-refs",
                  "ind-cond-true", "ind-cond-false", "ind-cond-ref-true", "ind-cond-ref-false",
                  "ind-case-true", "ind-case-false", "ind-option-lines", "ind-option-lines-reject",
                  "ind-inject-mod", "ind-unit-from-node", "ind-import-units", "ind-import-unit-by-name"]


def gen_dip_positions(rng, mode=None):
    """The custom unit in every position in which a DIP call site consumes a unit, with the value oracle
    `[name]` = value x magnitude of its definition:
      operands of a numerical expression (references to nodes in custom units, literals, function arguments),
      the unit of the node that holds a numerical expression (the requested unit of NumericalSolver.solve),
      option lines and `!options` arrays, literals of `!condition` and `@case` expressions,
      the unit of a modification and of the modified definition, another `$unit` definition.
    All magnitudes are powers of two times 1 or 1000 m and all values small integers, so every expected
    value / comparison is exact in binary floating point and far away from the comparison tolerance.
    Each case carries a CONTROL: the same text with the standard unit of the definition in place of the custom
    unit (magnitude f instead of v*f). A deviation that the control shows too is not specific to custom units
    (it belongs to the DIP properties C14-C18) and is not reported here."""
    mode = mode or rng.choice(POSITION_MODES)
    n0, n1 = rng.sample(["x", "yy", "len", "uA", "q_1", "Zz"], 2)
    v0, (u0, f0) = rng.choice([2, 4, 0.5]), rng.choice([("m", 1.0), ("km", 1000.0)])
    v1, (u1, f1) = rng.choice([2, 8, 0.25]), rng.choice([("m", 1.0), ("km", 1000.0)])
    defs = ["$unit %s = %s %s" % (n0, _num(v0), u0), "$unit %s = %s %s" % (n1, _num(v1), u1)]
    symbols = ["[%s]" % n0, "[%s]" % n1]
    P, K, J = rng.choice([1, 3, 5]), rng.choice([1, 2, 6]), rng.choice([2, 3, 7])
    if mode == "mod-int" and K * v0 * f0 != int(K * v0 * f0):
        mode = "mod-to-custom"            # an int node takes only integer literals (casting is C14's subject)
    filler = rng.random() < 0.5

    def build(c0, m0, c1, m1):
        lines = list(defs)
        expect, plain, reject, files = {}, {}, False, {}
        if mode == "expr-operand":
            lines += ["p float = %d %s" % (P, c0), "e float = ('{?p} + %d %s') m" % (K, c0)]
            expect["e"] = [(P + K) * m0, "m"]
        elif mode == "expr-operand-literal":
            lines += ["e float = ('%d %s * %d') km" % (K, c0, J)]
            expect["e"] = [K * m0 * J / 1000.0, "km"]
        elif mode == "expr-operand-fn":
            lines += ["e float = ('exp(0) * %d %s - %d %s') m" % (K + 8, c0, K, c0)]
            expect["e"] = [8 * m0, "m"]
        elif mode == "expr-operand-two":
            lines += ["e float = ('%d %s + %d %s') m" % (K, c0, J, c1)]
            expect["e"] = [K * m0 + J * m1, "m"]
        elif mode == "expr-result-float":
            # requested unit of the expression node is the custom unit; operands mix custom and standard units
            lines += ["p float = %d %s" % (P, c0), "e float = ('{?p} + %s m') %s" % (_num(K * m0), c0)]
            expect["e"] = [P + K, c0]
        elif mode == "expr-result-std-operands":
            lines += ["e float = ('%s m * %d') %s" % (_num(K * m0), J, c0)]
            expect["e"] = [K * J, c0]
        elif mode == "expr-result-int":
            lines += ["e int = ('2 * %s m') %s" % (_num(K * m0), c0)]
            expect["e"] = [2 * K, c0]
        elif mode == "expr-result-other-custom":
            lines += ["e float = ('%d %s') %s" % (K, c0, c1)]
            expect["e"] = [K * m0 / m1, c1]
        elif mode in ("option-lines", "option-lines-reject"):
            val = K * m0 if mode == "option-lines" else K * m0 * 1.5
            lines += ["o float = %s m" % _num(val), "  = %d %s" % (K + 9, c0), "  = %d %s" % (K, c0)]
            reject = mode.endswith("reject")
            expect["o"] = [val, "m"]
        elif mode in ("options-short", "options-short-reject"):
            val = K * m0 if mode == "options-short" else K * m0 * 1.5
            lines += ["o float = %s m" % _num(val), "  !options [%d,%d,%d] %s" % (K + 9, K, K + 20, c0)]
            reject = mode.endswith("reject")
            expect["o"] = [val, "m"]
        elif mode == "options-custom-node":
            lines += ["o float = %d %s" % (K, c0), "  !options [%s,%s] m" % (_num(K * m0 * 4), _num(K * m0))]
            expect["o"] = [K, c0]
        elif mode in ("cond-true", "cond-false"):
            val = K * m0 * (4 if mode == "cond-true" else 0.25)
            lines += ["d float = %s m" % _num(val), "  !condition ('{?} > %d %s')" % (K, c0)]
            reject = mode == "cond-false"
            expect["d"] = [val, "m"]
        elif mode == "cond-custom-node":
            lines += ["d float = %d %s" % (4 * K, c0), "  !condition ('{?} > %s m && {?} < %d %s')" % (_num(K * m0), 8 * K, c0)]
            expect["d"] = [4 * K, c0]
        elif mode in ("case-true", "case-false"):
            val = K * m0 * (4 if mode == "case-true" else 0.25)
            lines += ["d float = %s m" % _num(val), "@case ('{?d} > %d %s')" % (K, c0), "  z int = 1", "@else", "  z int = 2", "@end"]
            plain["z"] = "1" if mode == "case-true" else "2"
        elif mode == "mod-to-custom":
            lines += ["q float = 1 %s" % c0, "q = %s m" % _num(K * m0)]
            expect["q"] = [K, c0]
        elif mode == "mod-from-custom":
            lines += ["q float = 1 km", "q = %d %s" % (K, c0)]
            expect["q"] = [K * m0 / 1000.0, "km"]
        elif mode == "mod-int":
            lines += ["q int = 1 %s" % c0, "q = %s m" % _num(K * m0)]
            expect["q"] = [K, c0]
        elif mode == "def-chain":
            lines += ["$unit ch = %d %s" % (J, c0), "q float = 1 m", "q = %d [ch]" % K, "r float = %d [ch]" % K, "r = %d %s" % (J, c0)]
            expect["q"] = [K * J * m0, "m"]
            expect["r"] = [1, "[ch]"]
        elif mode == "ind-expr-ref":
            lines += ["a float = %d %s" % (P, c0), "e float = ('{?a} + %d km') m" % K]
            expect["e"] = [P * m0 + K * 1000.0, "m"]
        elif mode == "ind-expr-ref-scale":
            lines += ["a float = %d %s" % (P, c0), "e float = ('{?a} * %d') km" % J]
            expect["e"] = [P * m0 * J / 1000.0, "km"]
        elif mode == "ind-expr-two-refs":
            lines += ["a float = %d %s" % (P, c0), "b float = %d %s" % (K, c1), "e float = ('{?a} + {?b}') m"]
            expect["e"] = [P * m0 + K * m1, "m"]
        elif mode in ("ind-bool-true", "ind-bool-false"):
            lines += ["a float = %d %s" % (P, c0),
                      "t bool = ('{?a} == %s m')" % _num(P * m0) if mode == "ind-bool-true"
                      else "t bool = ('{?a} > %s m')" % _num(P * m0 * 4)]
            plain["t"] = "True" if mode == "ind-bool-true" else "False"
        elif mode == "ind-bool-two-refs":
            lines += ["a float = %d %s" % (P, c0), "b float = %s %s" % (_num(P * m0 * 4 / m1), c1), "t bool = ('{?a} < {?b}')"]
            plain["t"] = "True"
        elif mode in ("ind-cond-true", "ind-cond-false"):
            lim = P * m0 * (4 if mode == "ind-cond-true" else 0.25)
            lines += ["a float = %d %s" % (P, c0), "  !condition ('{?} < %s m')" % _num(lim)]
            reject = mode == "ind-cond-false"
            expect["a"] = [P, c0]
        elif mode in ("ind-cond-ref-true", "ind-cond-ref-false"):
            val = P * m0 * (0.25 if mode == "ind-cond-ref-true" else 4)
            lines += ["a float = %d %s" % (P, c0), "d float = %s m" % _num(val), "  !condition ('{?} < {?a}')"]
            reject = mode == "ind-cond-ref-false"
            expect["d"] = [val, "m"]
        elif mode in ("ind-case-true", "ind-case-false"):
            lim = P * m0 * (0.25 if mode == "ind-case-true" else 4)
            lines += ["a float = %d %s" % (P, c0), "@case ('{?a} > %s m')" % _num(lim), "  z int = 1", "@else", "  z int = 2", "@end"]
            plain["z"] = "1" if mode == "ind-case-true" else "2"
        elif mode in ("ind-option-lines", "ind-option-lines-reject"):
            opt = K * m0 if mode == "ind-option-lines" else K * m0 * 1.5
            lines += ["o float = %d %s" % (K, c0), "  = %s m" % _num(K * m0 * 8), "  = %s m" % _num(opt)]
            reject = mode.endswith("reject")
            expect["o"] = [K, c0]
        elif mode == "ind-inject-mod":
            lines += ["a float = %d %s" % (P, c0), "b float = 1 km", "b = {?a}"]
            expect["b"] = [P * m0 / 1000.0, "km"]
        elif mode == "ind-unit-from-node":
            lines += ["a float = %d %s" % (P, c0), "$unit via = {?a}", "q float = 1 km", "q = %d [via]" % K]
            expect["q"] = [K * P * m0 / 1000.0, "km"]
        elif mode in ("ind-import-units", "ind-import-unit-by-name"):
            # the units are defined in a remote DIP file and imported; nodes of the file carry them
            files["inc.dip"] = "\n".join(defs + ["w float = %d %s" % (P, c0)]) + "\n"
            lines[:] = ["$source inc = @DIR@/inc.dip",
                        "$unit {inc?*}" if mode == "ind-import-units" else "$unit {inc?%s}" % n0,
                        "h {inc?w}", "q float = 1 km", "q = {?h.w}", "t bool = ('{?h.w} == %s m')" % _num(P * m0)]
            if c0.startswith("["):
                lines.insert(3, "r float = 1 km")
                lines.insert(4, "r = %d %s" % (K, c0))
                expect["r"] = [K * m0 / 1000.0, "km"]
            expect["q"] = [P * m0 / 1000.0, "km"]
            expect["h.w"] = [P, c0]
            plain["t"] = "True"
        if filler:                         # something unrelated in between, so positions vary
            lines.insert(2, "w float = 7 s")
        return {"text": "\n".join(lines) + "\n", "expect_ok": not reject, "expect_reject": reject,
                "expect": {} if reject else expect, "expect_plain": {} if reject else plain,
                "files": files or None}

    case = build("[%s]" % n0, v0 * f0, "[%s]" % n1, v1 * f1)
    case["control"] = build(u0, f0, u1, f1)
    case["symbols"] = symbols + (["[ch]"] if mode == "def-chain" else []) + (["[via]"] if mode == "ind-unit-from-node" else [])
    case["mode"] = "pos:" + mode
    if rng.random() < 0.2:
        case["outer"] = [["qq", {"dict": {"magnitude": "5", "dimensions": json.dumps(DIMS[0]),
                                          "definition": {"ty": "T1"}}}]]
    return case


def usable_deviation(c, r, rel_close):
    """The value oracle on one DIP result: None, or the description of the deviation."""
    if c.get("expect_reject"):
        if r["ok"]:
            return ("a DIP text whose node violates an option/condition stated in a custom unit "
                    "(custom unit = value x magnitude of its definition) was accepted")
        return None
    if c.get("expect_ok") is not True:
        return None
    if not r["ok"]:
        return ("a DIP text that only defines custom units and uses them inside the parse failed "
                "(custom unit not usable inside its scope)")
    for k, v in c.get("expect", {}).items():
        v = v if isinstance(v, list) else [v, "m"]
        got = r["data"].get(k)
        if not (isinstance(got, list) and got[1] == v[1] and rel_close(got[0], v[0])):
            return "node %s should be %s %s (custom unit = value x magnitude of its definition), got %s" % (k, v[0], v[1], got)
    for k, v in c.get("expect_plain", {}).items():
        if r["data"].get(k) != v:
            return "node %s should be %s, got %s" % (k, v, r["data"].get(k))
    return None


def trace_to_prog(trace):
    """The UnitEnvironment constructions / closes recorded during a DIP parse, as a program for the
    model plus the observed (extra keys, UNIT_TYPES) after every construction and every scope end.
    Returns (prog, observed) or None when the trace is not well nested."""
    root = {"children": []}
    stack = [root]
    observed = []
    for t in trace:
        if t[0] == "init":
            if t[1] is None:
                return None
            stack.append({"units": t[1], "state": "init", "children": [], "before": t[2]})
        elif t[0] == "init-end":
            fr = stack[-1]
            if fr.get("state") != "init":
                return None
            # completed iff exactly its symbols were appended behind what was registered before
            ok = t[1] == (fr["before"] or []) + [sym for sym, _ in fr["units"]]
            observed.append(["entered", ok, t[1], t[2]])
            if ok:
                fr["state"] = "open"
            else:
                stack.pop()
                stack[-1]["children"].append(["attempt", ["scope", fr["units"], "skip"]])
        elif t[0] == "close-end":
            fr = stack[-1]
            if fr.get("state") == "init":
                continue                      # the undo inside a failing __init__
            if fr.get("state") != "open":
                return None
            stack.pop()
            observed.append(["exited", t[1], t[2]])
            body = fr["children"]
            stack[-1]["children"].append(["scope", fr["units"],
                                          "skip" if not body else (body[0] if len(body) == 1 else ["seq"] + body)])
    if len(stack) != 1:
        return None
    ch = root["children"]
    return ("skip" if not ch else (ch[0] if len(ch) == 1 else ["seq"] + ch)), observed


def dip_stream(ctx, worker, g0, count):
    from harness.util import rel_close, shrink_list
    clean = clean_sum(g0)
    cases = list(load_corpus()["dip"])
    # every position in which a call site consumes a unit is covered on every run, whatever the seed
    per_mode = 3 if count < 1000 else 12
    for m in POSITION_MODES:
        for _ in range(per_mode):
            cases.append(gen_dip_positions(ctx.rng, m))
    # a definition object in the DIP environment that raises a non-Exception fault during registration,
    # after another unit has been registered: every scope a call site opens must roll back
    for kind in ("base", "kbd", "exit", "exc"):
        for _ in range(2 if count < 1000 else 6):
            c = gen_dip(ctx.rng)
            c.update({"preset_fault": kind, "expect_ok": None, "expect": {}, "mode": "preset-fault-" + kind})
            c.pop("control", None)
            c["symbols"] = c.get("symbols", []) + ["[pre]"]
            cases.append(c)
    # two complete DIP parses one right after the other: the same number of custom units, different names,
    # defined from injected plain numbers so that nothing is evaluated while the tables have their base size
    for _ in range(6 if count < 1000 else 24):
        na, nb = ctx.rng.sample(["len", "wid", "x", "yy", "q_1", "Zz", "uA"], 2)
        v, k = ctx.rng.choice([2, 3, 5]), ctx.rng.choice([1, 2, 4])
        t = "size float = %d\n$unit %%s = {?size}\na float = %d [%%s]\n" % (v, k)
        cases.append({"before_texts": [t % (na, na)], "text": t % (nb, nb), "symbols": ["[%s]" % na, "[%s]" % nb],
                      "expect_ok": True, "expect": {"a": [k, "[%s]" % nb]}, "mode": "repeat-parse",
                      "control": {"text": t % (nb, nb), "expect_ok": True, "expect": {"a": [k, "[%s]" % nb]}}})
    for _ in range(max(0, count - per_mode * len(POSITION_MODES))):
        cases.append(gen_dip_positions(ctx.rng) if ctx.rng.random() < 0.3 else gen_dip(ctx.rng))
    seen_sig = set()
    traced = []
    for c in cases:
        r = worker.ask({"kind": "dip", "text": c["text"], "symbols": c.get("symbols", []), "outer": c.get("outer"),
                        "files": c.get("files"), "preset_fault": c.get("preset_fault"), "before_texts": c.get("before_texts"), "preset_fault": c.get("preset_fault")})
        ctx.case(["dip", c["text"], bool(c.get("outer"))], "$unit" in c["text"],
                 {"dip": c["text"], "outer": bool(c.get("outer"))})
        ctx.count("dip.mode." + c.get("mode", "corpus"))
        if "error" in r:
            ctx.notes.append("C09 worker error on a DIP text: %s" % r["error"][:300])
            ctx.count("dip.worker_error")
            continue
        ctx.count("dip.parse_ok" if r["ok"] else "dip.parse_err")
        ctx.count("dip.scopes_opened", sum(1 for t in r["trace"] if t[0] == "init"))
        replay = {"stream": "dip", "text": c["text"], "outer": c.get("outer"), "symbols": c.get("symbols", []),
                  "files": c.get("files"), "preset_fault": c.get("preset_fault"), "before_texts": c.get("before_texts"),
                  "impl_ok": r["ok"], "impl_final": r["final"], "clean": clean}
        sigs = []
        if r["final"] != clean or not r["deep_same"]:
            sigs.append(("leak:dip:%s:%s" % ("parsed" if r["ok"] else "failed", what_leaked(clean, r["final"])),
                         "after DIP.parse (%s) the process-wide tables differ from before: %s" %
                         ("returned" if r["ok"] else "raised", diff_text(clean, r["final"]))))
        if r["outside_known"]:
            sigs.append(("outside:dip", "DIP units %s are known to Quantity after the parse" % r["outside_known"]))
        pos = c.get("mode", "corpus")
        usig = "usable:dip:" + (pos[4:] if pos.startswith("pos:") else "assignment")
        dev = usable_deviation(c, r, rel_close)
        if dev is not None and c.get("control"):
            # the same text with the standard unit in place of the custom unit: a deviation it shares is not
            # about custom units (C14-C18 judge it)
            rc = worker.ask({"kind": "dip", "text": c["control"]["text"], "symbols": [], "outer": c.get("outer"),
                             "files": c["control"].get("files")})
            if "error" in rc or usable_deviation(c["control"], rc, rel_close) is not None:
                ctx.count("dip.control_also_deviates")
                ctx.count("dip.control_also_deviates." + pos)
                if not any(n.startswith("C09 control") for n in ctx.notes):
                    ctx.notes.append("C09 control: a DIP text deviates with the standard unit in place of the custom unit "
                                     "too (not judged here): %r" % c["control"]["text"][:200])
                dev = None
        if dev is not None:
            sigs.append((usig, dev))
            replay["control_text"] = (c.get("control") or {}).get("text")
        for sig, what in sigs[:1]:
            if sig in seen_sig:
                continue
            seen_sig.add(sig)
            # minimal replay: drop lines of the text while the same deviation remains
            def fails(lines, sig=sig, c=c):
                rr = worker.ask({"kind": "dip", "text": "\n".join(lines) + "\n", "symbols": c.get("symbols", []),
                                 "outer": c.get("outer"), "files": c.get("files"), "preset_fault": c.get("preset_fault"),
                                 "before_texts": c.get("before_texts")})
                if "error" in rr:
                    return False
                if sig.startswith("leak:dip"):
                    return rr["final"] != clean or not rr["deep_same"]
                if sig == "outside:dip":
                    return bool(rr["outside_known"])
                return False
            if not sig.startswith("usable"):
                small = shrink_list(c["text"].rstrip("\n").split("\n"), fails, max_steps=60)
                replay["text"] = "\n".join(small) + "\n"
            ctx.violation(sig, what, replay)
        # the scopes the DIP call sites opened, replayed on the model
        tp = trace_to_prog(r["trace"])
        if tp is None:
            ctx.count("dip.trace_not_nested")
            if not sigs:
                ctx.disagreement("dip-trace", {"text": c["text"], "outer": c.get("outer")},
                                 "UnitEnvironment constructions/closes during the parse are not well nested: %s" %
                                 json.dumps([t[:1] + t[-2:] for t in r["trace"]])[:500])
        else:
            traced.append((c, tp[0], tp[1]))


    # model run of the recorded scope sequences
    G = {"keys": g0["keys"], "data": g0["data"], "types": g0["types"], "prefixes": g0["prefixes"]}
    model = []
    B = 100
    reqs = [{"p": "C09", "k": "run", "G": G, "progs": [t[1] for t in traced[i:i + B]]} for i in range(0, len(traced), B)]
    for ans in ctx.driver.ask_many(reqs):
        if "ok" not in ans:
            ctx.disagreement("dip-trace", {"driver": ans}, "driver error")
            return
        model += ans["ok"]
    for (c, prog, observed), m in zip(traced, model):
        mev = []
        for e in m["events"]:
            if isinstance(e, list) and e[0] == "entered":
                mev.append(["entered", e[1], e[2].get("extra"), e[2]["types"]])
            elif isinstance(e, list) and e[0] == "exited":
                mev.append(["exited", e[2].get("extra"), e[2]["types"]])
        ctx.count("dip.trace_events", len(observed))
        if mev != observed:
            ctx.disagreement("dip-trace", {"text": c["text"], "outer": c.get("outer")},
                             "scopes opened by the DIP call sites: observed %s model %s" %
                             (json.dumps(observed)[:500], json.dumps(mev)[:500]))


# ---------------------------------------------------------------- histories (overlapping lifetimes)
def gen_hist(rng, uni):
    customs = rng.sample(uni["customs"], min(len(uni["customs"]), 10))
    k = rng.randint(2, 4)
    shared = rng.choice(TYPE_POOL)
    pending = []
    for i in range(k):
        units = []
        for _ in range(rng.randint(1, 2)):
            d = {"magnitude": repr(rng.choice(MAGS)), "dimensions": json.dumps(rng.choice(DIMS))}
            x = rng.random()
            if x < 0.45:
                d["definition"] = {"ty": TYPE_POOL[i % len(TYPE_POOL)]}      # this environment's own class
            elif x < 0.6:
                d["definition"] = {"ty": shared}                             # a class several environments name
            elif x < 0.7:
                d["definition"] = {"ty": rng.choice(["StandardUnitType", "TemperatureUnitType", "LogarithmicUnitType"])}
            if rng.random() < 0.2:
                d["prefixes"] = rng.choice([True, ["k", "M"]])
            units.append([customs.pop(), {"dict": d}])
        if rng.random() < 0.15:      # a construction that raises part-way
            units.insert(rng.randint(0, len(units)), [rng.choice(uni["existing"]), {"dict": {"magnitude": "1", "dimensions": json.dumps(DIMS[0])}}])
        pending.append(units)
    ops, nopen, nopn, seen = [], 0, 0, []
    while pending or nopen:
        x = rng.random()
        if pending and (x < 0.5 or not nopen):
            units = pending.pop(0)
            ops.append(["opn", units])
            nopn += 1
            if all(sym not in uni["existing"] for sym, _ in units):
                nopen += 1
                seen += [sym for sym, _ in units]
        elif nopen and x < 0.85:
            i = 0 if rng.random() < 0.5 else rng.randrange(nopen)       # first-opened-first, or any
            ops.append(["cls", i])
            nopen -= 1
        elif seen:
            ops.append(["use", rng.choice(seen)])
    ops += [["cls", 0]] * nopn          # whatever the outcome of the constructions: everything is closed
    for sym in seen[:2]:
        ops.append(["use", sym])
    return ops


def hist_stream(ctx, worker, g0, count):
    uni = universe(g0)
    clean = clean_sum(g0)
    ta = {"dict": {"magnitude": "3", "dimensions": json.dumps(DIMS[0]), "definition": {"ty": "T1"}}}
    tb = {"dict": {"magnitude": "5", "dimensions": json.dumps(DIMS[0]), "definition": {"ty": "T2"}}}
    hists = [
        # open A, open B, close A, close B  (the documented explicit close(), lifetimes overlap)
        [["opn", [["qx", ta]]], ["opn", [["zq", tb]]], ["cls", 0], ["use", "zq"], ["cls", 0], ["use", "qx"], ["use", "zq"]],
        [["opn", [["qx", ta]]], ["opn", [["zq", ta]]], ["opn", [["jq", tb]]], ["cls", 1], ["cls", 0], ["use", "jq"], ["cls", 0]],
    ]
    for _ in range(count):
        hists.append(gen_hist(ctx.rng, uni))
    results = [worker.ask({"kind": "hist", "ops": h}) for h in hists]
    G = {"keys": g0["keys"], "data": g0["data"], "types": g0["types"], "prefixes": g0["prefixes"]}
    model = []
    B = 100
    for ans in ctx.driver.ask_many([{"p": "C09", "k": "hist", "G": G, "hists": hists[i:i + B]} for i in range(0, len(hists), B)]):
        if "ok" not in ans:
            ctx.disagreement("hist", {"driver": ans}, "driver error")
            return
        model += ans["ok"]
    seen_sig = set()
    for h, r, m in zip(hists, results, model):
        # non-trivial: some environment is closed while a later-opened one is still open
        nontriv, depth = False, 0
        for op in h:
            if op[0] == "opn":
                depth += 1
            elif op[0] == "cls" and depth:
                nontriv = nontriv or op[1] < depth - 1
                depth -= 1
        ctx.case(["hist", h], nontriv, {"hist": h} if len(json.dumps(h)) < 500 else None)
        if "error" in r:
            ctx.notes.append("C09 worker error on a history: %s" % r["error"][:300])
            ctx.count("hist.worker_error")
            continue
        ctx.count("hist.ops", len(h))
        ctx.count("hist.non_lifo" if nontriv else "hist.lifo")
        sigs = []
        for kind, what in r["mismatch"]:
            if kind == "step":
                sigs.append(("overlap:step", "explicit open/close in any order: " + what))
            elif kind == "usable":
                sigs.append(("overlap:usable", "unit %r of a still-open environment is unknown to Quantity" % what))
            else:
                sigs.append(("overlap:outside", "unit %r of no open environment is known to Quantity" % what))
        if r["open"] == 0 and (r["final"] != clean or not r["deep_same"]):
            sigs.append(("overlap:final:" + what_leaked(clean, r["final"]),
                         "every environment has been closed (not in LIFO order) but the tables differ from the initial ones: %s" %
                         diff_text(clean, r["final"])))
        for sig, what in sigs[:1]:
            if sig in seen_sig:
                continue
            seen_sig.add(sig)

            def fails(ops, sig=sig):
                rr = worker.ask({"kind": "hist", "ops": ops})
                if "error" in rr:
                    return False
                if sig.startswith("overlap:final"):
                    return rr["open"] == 0 and (rr["final"] != clean or not rr["deep_same"])
                want = {"overlap:step": "step", "overlap:usable": "usable", "overlap:outside": "outside"}[sig]
                return any(k == want for k, _ in rr["mismatch"])
            from harness.util import shrink_list
            small = shrink_list(h, fails, max_steps=80)
            rs = worker.ask({"kind": "hist", "ops": small})
            ctx.violation(sig, what, {"stream": "hist", "ops": small, "impl_events": rs.get("events"),
                                      "impl_final": rs.get("final"), "clean": clean})
        if not m["restored"] and m["open"] == 0:
            ctx.disagreement("hist", {"ops": h}, "the Lean model does not restore the tables (contradicts C09_restored_any_order)")
        mine = {"open": r["open"], "events": r["events"], "final": r["final"]}
        theirs = {"open": m["open"], "events": m["events"], "final": m["final"]}
        if mine != theirs:
            ctx.disagreement("hist", {"ops": h}, "impl %s model %s" % (json.dumps(mine)[:600], json.dumps(theirs)[:600]))


# ---------------------------------------------------------------- the public solver classes, used directly
def gen_solver_case(rng):
    n0, n1 = rng.sample(["x", "yy", "len", "wid", "q_1", "Zz"], 2)
    v0, (u0, f0) = rng.choice([2, 4, 0.5]), rng.choice([("m", 1.0), ("km", 1000.0)])
    v1, (u1, f1) = rng.choice([2, 8, 0.25]), rng.choice([("m", 1.0), ("km", 1000.0)])
    P, K, J = rng.choice([1, 3, 5]), rng.choice([1, 2, 6]), rng.choice([2, 3, 7])
    modes = ["plain", "with", "reuse", "raise"]

    def build(c0, m0, c1, m1):
        text = "\n".join(["$unit %s = %s %s" % (n0, _num(v0), u0), "$unit %s = %s %s" % (n1, _num(v1), u1),
                           "a float = %d %s" % (P, c0), "w float = 4 m"]) + "\n"
        num = [["{?a} + %d %s" % (K, c0), "m", (P + K) * m0], ["%d %s" % (J, c0), c1, J * m0 / m1],
               ["{?a} * 2", "km", P * m0 * 2 / 1000.0], ["{?w} + %d %s" % (K, c1), "m", 4 + K * m1]]
        log = [["{?a} == %s m" % _num(P * m0), None, True], ["{?a} > %d %s" % (4 * P, c0), None, False],
               ["{?w} < %s %s" % (_num(8 / m1 * 2), c1), None, True]]
        tpl = [["a={{?a}} w={{?w}}", None, "a=%s w=4.0" % float(P)]]
        steps = []
        for cls, calls, bad in (("numerical", num, ["1 [nope] + 1 m", "m", None]), ("logical", log, ["{?a} > 1 [nope]", None, None]),
                                ("template", tpl, None)):
            for mode in modes:
                if mode == "raise":
                    if bad:
                        steps.append({"cls": cls, "mode": mode, "calls": [calls[0], bad], "expect_raise": True})
                else:
                    steps.append({"cls": cls, "mode": mode, "calls": calls})
        return {"text": text, "steps": steps}
    case = build("[%s]" % n0, v0 * f0, "[%s]" % n1, v1 * f1)
    order = list(range(len(case["steps"])))
    rng.shuffle(order)
    case["steps"] = [case["steps"][i] for i in order]
    ctl = build(u0, f0, u1, f1)
    ctl["steps"] = [ctl["steps"][i] for i in order]
    case["control"] = ctl
    return case


def solver_deviations(c, r, clean, rel_close):
    """[(signature, what)] of one solver case result: leaks after each statement group, values."""
    out = []
    if not r.get("parse_ok"):
        return [("usable:solver:parse", "the DIP text defining the custom units failed to parse")]
    for st, rs in zip(c["steps"], r["steps"]):
        tag = "%s:%s" % (st["cls"], st["mode"])
        if rs["after"] != clean:
            out.append(("leak:solver:" + tag, "after %sSolver used %s the process-wide tables differ from before: %s" %
                        (st["cls"].capitalize(), {"plain": "as a plain object", "with": "as a context manager",
                                                  "reuse": "as one object for several with-blocks",
                                                  "raise": "with an expression that raises"}[st["mode"]],
                         diff_text(clean, rs["after"]))))
            continue
        if st.get("expect_raise"):
            continue
        exp = [c2[2] for c2 in st["calls"]]
        good = rs["ok"] and len(rs["values"]) == len(exp) and all(
            (rel_close(a, b) if isinstance(b, float) and not isinstance(b, bool) and not isinstance(a, (bool, str)) else a == b)
            for a, b in zip(rs["values"], [float(e) if isinstance(e, (int, float)) and not isinstance(e, bool) else e for e in exp]))
        if not good:
            out.append(("usable:solver:" + tag, "%sSolver (%s) on an environment with custom units: expected %s, got %s%s" %
                        (st["cls"].capitalize(), st["mode"], exp, rs["values"], "" if rs["ok"] else " then an exception")))
    return out


def solver_stream(ctx, worker, g0, count):
    from harness.util import rel_close
    clean = clean_sum(g0)
    seen_sig = set()
    for _ in range(count):
        c = gen_solver_case(ctx.rng)
        r = worker.ask({"kind": "solver", "text": c["text"], "steps": c["steps"]})
        ctx.case(["solver", c["text"], c["steps"]], True, {"solver_text": c["text"], "steps": [s["cls"] + ":" + s["mode"] for s in c["steps"]]})
        if "error" in r:
            ctx.notes.append("C09 worker error on a solver case: %s" % r["error"][:300])
            ctx.count("solver.worker_error")
            continue
        ctx.count("solver.steps", len(r.get("steps", [])))
        devs = solver_deviations(c, r, clean, rel_close)
        if r["final"] != clean or not r["deep_same"]:
            devs.append(("leak:solver:final", "tables differ after the solver case: %s" % diff_text(clean, r["final"])))
        if devs and any(d[0].startswith("usable") for d in devs[:1]):
            rc = worker.ask({"kind": "solver", "text": c["control"]["text"], "steps": c["control"]["steps"]})
            cdev = [] if "error" in rc else solver_deviations(c["control"], rc, clean, rel_close)
            if "error" in rc or any(d[0] == devs[0][0] for d in cdev):
                ctx.count("solver.control_also_deviates")
                devs = [d for d in devs if not d[0].startswith("usable")]
        for sig, what in devs[:1]:
            if sig in seen_sig:
                continue
            seen_sig.add(sig)
            ctx.violation(sig, what, {"stream": "solver", "text": c["text"], "steps": c["steps"],
                                      "impl": r.get("steps"), "clean": clean})


def correspond(ctx):
    from harness import core
    thorough = ctx.tier == "thorough"
    worker = WorkerProc(core.REPO)
    try:
        g0 = worker.g0
        # the worker's tables must be in the modelled format
        for k, row in g0["data"]:
            if isinstance(row[4], dict):
                ctx.notes.append("row %s has a prefixes field outside the model: %s" % (k, row[4]))
        prog_stream(ctx, worker, g0, 3000 if thorough else 500)
        dip_stream(ctx, worker, g0, 1500 if thorough else 250)
        hist_stream(ctx, worker, g0, 1200 if thorough else 200)
        solver_stream(ctx, worker, g0, 120 if thorough else 20)
    finally:
        worker.close()
    # check_unique_symbols on the pristine tables: real code vs model
    ans = ctx.driver.ask({"p": "C09", "k": "unique", "G": {"keys": g0["keys"], "data": g0["data"],
                                                             "types": g0["types"], "prefixes": g0["prefixes"]}})
    from scinumtools.units.unit_environment import check_unique_symbols
    try:
        real = bool(check_unique_symbols())
    except Exception:
        real = False
    if ans.get("ok") is not real:
        ctx.disagreement("unique", {"real": real, "model": ans}, "check_unique_symbols on the pristine tables")


def replay(ctx, payload):
    from harness import core
    from harness.util import rel_close
    worker = WorkerProc(core.REPO)
    try:
        clean = clean_sum(worker.g0)
        rp = payload.get("replay", {})
        stream = rp.get("stream")
        if stream == "dip":
            r = worker.ask({"kind": "dip", "text": rp["text"], "symbols": rp.get("symbols", []), "outer": rp.get("outer"),
                            "files": rp.get("files"), "preset_fault": rp.get("preset_fault"),
                            "before_texts": rp.get("before_texts")})
            print(json.dumps(r, indent=1)[:3000])
            bad = r.get("final") != clean or not r.get("deep_same", True) or r.get("outside_known") or \
                (payload.get("signature", "").startswith("usable") and not r.get("ok"))
        elif stream == "hist":
            r = worker.ask({"kind": "hist", "ops": rp["ops"]})
            print(json.dumps(r, indent=1)[:3000])
            bad = bool(r.get("mismatch")) or (r.get("open") == 0 and (r.get("final") != clean or not r.get("deep_same", True)))
        elif stream == "solver":
            r = worker.ask({"kind": "solver", "text": rp["text"], "steps": rp["steps"]})
            print(json.dumps(r, indent=1)[:3000])
            bad = bool(solver_deviations(rp, r, clean, rel_close)) or r.get("final") != clean
        else:
            r = worker.ask({"kind": "prog", "prog": rp["prog"]})
            print(json.dumps(r, indent=1)[:3000])
            bad = bool(spec_violations(r, clean))
        print("replay: %s" % ("VIOLATION reproduced" if bad else "not reproduced"))
        return 1 if bad else 0
    finally:
        worker.close()


if __name__ == "__main__" and "--worker" in sys.argv:
    Worker().serve()
