"""C01/C02 harness library: the expression language of the default solver (generator, reference
recogniser, term tools) and the drivers of the REAL solver (recording atom / stock AtomBase).

AST (JSON-able lists): ["num",text] | ["fn1",f,e] | ["fn2",g,a,b] | ["sign",neg,e] | ["bin",o,l,r] | ["not",e]
"""
import math
import re
import warnings

F1_SYM = {"par": "(", "exp": "exp(", "log": "log(", "log10": "log10(", "sqrt": "sqrt(",
          "sin": "sin(", "cos": "cos(", "tan": "tan("}
F2_SYM = {"logb": "logb(", "powb": "pow("}
B2_SYM = {"pow": "**", "mul": "*", "div": "/", "add": "+", "sub": "-", "eq": "==", "ne": "!=",
          "le": "<=", "ge": ">=", "lt": "<", "gt": ">", "and": "&&", "or": "||"}
B2_LEVEL = {"pow": 2, "mul": 3, "div": 3, "add": 4, "sub": 4, "eq": 5, "ne": 5, "le": 5, "ge": 5,
            "lt": 5, "gt": 5, "and": 7, "or": 8}
B2_FN = {"pow": "pow", "mul": "mul", "div": "div", "add": "add", "sub": "sub", "eq": "eq", "ne": "ne",
         "le": "le", "ge": "ge", "lt": "lt", "gt": "gt", "and": "land", "or": "lor"}
LEVEL_OPS = {}
for _o, _l in B2_LEVEL.items():
    LEVEL_OPS.setdefault(_l, []).append(_o)
ALPHABET = "0123456789.e +-*/()<>=!&|," + "sincotalgxpqrwb"


def level(e):
    k = e[0]
    if k in ("num", "fn1", "fn2"):
        return 0
    if k == "sign":
        return 1
    if k == "bin":
        return B2_LEVEL[e[1]]
    return 6


def lexemes(e):
    k = e[0]
    if k == "num":
        return [e[1]]
    if k == "fn1":
        return [F1_SYM[e[1]]] + lexemes(e[2]) + [")"]
    if k == "fn2":
        return [F2_SYM[e[1]]] + lexemes(e[2]) + [","] + lexemes(e[3]) + [")"]
    if k == "sign":
        return ["-" if e[1] else "+"] + lexemes(e[2])
    if k == "bin":
        return lexemes(e[2]) + [B2_SYM[e[1]]] + lexemes(e[3])
    return ["!"] + lexemes(e[1])


def subterms(e):
    yield e
    for c in e[1:]:
        if isinstance(c, list):
            yield from subterms(c)


def size(e):
    return sum(1 for _ in subterms(e))


def depth(e):
    return 1 + max([depth(c) for c in e[1:] if isinstance(c, list)] or [0])


# ------------------------------------------------------------------ generator
def gen_lit(rng):
    r = rng.random()
    if r < 0.04:
        # integer literals beyond 2**53: the literal denotes the nearest float
        return str(rng.choice([2 ** 53, 10 ** 16, 10 ** 17 - 1, 10 ** 20, 3 ** 40]) + rng.randint(0, 3))
    if r < 0.25:
        return rng.choice(["0", "1", "2", "3", "0.5", "10"])
    s = "".join(rng.choice("0123456789") for _ in range(rng.randint(1, 3)))
    if rng.random() < 0.3:
        s += "." + "".join(rng.choice("0123456789") for _ in range(rng.randint(0, 2)))
    elif rng.random() < 0.08:
        s = "." + "".join(rng.choice("0123456789") for _ in range(rng.randint(1, 2)))
    if rng.random() < 0.12:
        s += "e" + "".join(rng.choice("0123456789") for _ in range(rng.randint(1, 2)))
    return s


def gen_expr(rng, k, d):
    """random well-formed expression of level <= k and depth <= d"""
    if d <= 1:
        return ["num", gen_lit(rng)]
    cands = [j for j in (0, 1, 2, 3, 4, 5, 6, 7, 8) if j <= k]
    weights = {0: 4, 1: 2, 2: 2, 3: 3, 4: 3, 5: 2, 6: 1, 7: 1.5, 8: 1.5}
    j = rng.choices(cands, [weights[c] for c in cands])[0]
    if j == 0:
        r = rng.random()
        if r < 0.3:
            return ["num", gen_lit(rng)]
        if r < 0.55:
            return ["fn1", "par", gen_expr(rng, 8, d - 1)]
        if r < 0.85:
            return ["fn1", rng.choice(list(F1_SYM)[1:]), gen_expr(rng, 8, d - 1)]
        return ["fn2", rng.choice(list(F2_SYM)), gen_expr(rng, 8, d - 1), gen_expr(rng, 8, d - 1)]
    if j == 1:
        return ["sign", rng.random() < 0.6, gen_expr(rng, 1, d - 1)]
    if j == 6:
        return ["not", gen_expr(rng, 5, d - 1)]
    o = rng.choice(LEVEL_OPS[j])
    # split the depth budget so that size stays moderate
    dl, dr = (d - 1, max(1, d - 2 - rng.randint(0, 2))) if rng.random() < 0.5 else (max(1, d - 2 - rng.randint(0, 2)), d - 1)
    return ["bin", o, gen_expr(rng, j, dl), gen_expr(rng, j - 1, dr)]


def gen_blanks(rng, n):
    mode = rng.random()
    if mode < 0.3:
        return [0] * (n + 1)
    if mode < 0.6:
        return [rng.choice([0, 1]) for _ in range(n + 1)]
    return [rng.randint(0, 3) for _ in range(n + 1)]


def render(e, bl=None):
    lx = lexemes(e)
    bl = bl or []
    out = []
    for i, x in enumerate(lx):
        out.append(" " * (bl[i] if i < len(bl) else 0))
        out.append(x)
    out.append(" " * (bl[len(lx)] if len(lx) < len(bl) else 0))
    return "".join(out)


# ------------------------------------------------------------------ reference recogniser
SYMS = sorted(list(F1_SYM.values()) + list(F2_SYM.values()) + list(B2_SYM.values()) + [")", ",", "!"],
              key=lambda s: -len(s))
LIT = re.compile(r"(\d+(\.\d*)?|\.\d+)(e\d+)?")
SYM_F1 = {v: k for k, v in F1_SYM.items()}
SYM_F2 = {v: k for k, v in F2_SYM.items()}
SYM_B2 = {v: k for k, v in B2_SYM.items()}
BINARY_ONLY = {s for s in SYM_B2 if s not in ("+", "-")}


class Missing(Exception):
    pass


class ParseError(Exception):
    pass


class Adjacent(Exception):
    """two operands with no operator between them (a deleted binary operator): `(1+2)(3+4)`, `sin(1)cos(1)`, `2 3`"""


def lex(text):
    toks, i = [], 0
    while i < len(text):
        c = text[i]
        if c == " ":
            i += 1
            continue
        m = LIT.match(text, i)
        if m:
            toks.append(("lit", m.group(0)))
            i = m.end()
            continue
        for s in SYMS:
            if text.startswith(s, i):
                toks.append(("sym", s))
                i += len(s)
                break
        else:
            return None
    return toks


def unbalanced(text):
    d = 0
    for c in text:
        if c == "(":
            d += 1
        elif c == ")":
            d -= 1
            if d < 0:
                return True
    return d != 0


class Parser:
    def __init__(self, toks):
        self.t, self.i, self.arity_bad = toks, 0, False

    def peek(self):
        return self.t[self.i] if self.i < len(self.t) else None

    def sym(self):
        p = self.peek()
        return p[1] if p and p[0] == "sym" else None

    def operand_starts(self):
        """the next token begins an operand: a literal, a parenthesis / call, or `!`"""
        p = self.peek()
        return p is not None and (p[0] == "lit" or p[1] in SYM_F1 or p[1] in SYM_F2 or p[1] == "!")

    def operand_missing(self, after_operator):
        """called where an operand must start"""
        p = self.peek()
        s = self.sym()
        if after_operator and (p is None or s in (")", ",") or s in BINARY_ONLY):
            raise Missing()
        if not after_operator and s in BINARY_ONLY:
            raise Missing()

    def binlevel(self, lv, sub, after_operator):
        l = sub(after_operator)
        while self.sym() in SYM_B2 and B2_LEVEL[SYM_B2[self.sym()]] == lv:
            o = SYM_B2[self.sym()]
            self.i += 1
            r = sub(True)
            l = ["bin", o, l, r]
        return l

    def or_(self, ao=False):
        return self.binlevel(8, self.and_, ao)

    def and_(self, ao=False):
        return self.binlevel(7, self.not_, ao)

    def not_(self, ao=False):
        if self.sym() == "!":
            self.i += 1
            return ["not", self.cmp(False)]
        return self.cmp(ao)

    def cmp(self, ao=False):
        return self.binlevel(5, self.add, ao)

    def add(self, ao=False):
        return self.binlevel(4, self.mul, ao)

    def mul(self, ao=False):
        return self.binlevel(3, self.pow, ao)

    def pow(self, ao=False):
        return self.binlevel(2, self.sgn, ao)

    def sgn(self, ao=False):
        if self.sym() in ("+", "-"):
            neg = self.sym() == "-"
            self.i += 1
            return ["sign", neg, self.sgn(True)]
        return self.prim(ao)

    def prim(self, ao=False):
        self.operand_missing(ao)
        p = self.peek()
        if p is None:
            raise ParseError()
        if p[0] == "lit":
            self.i += 1
            return ["num", p[1]]
        s = p[1]
        if s in SYM_F1 or s in SYM_F2:
            self.i += 1
            args = []
            while True:
                # an argument may be empty ('sin(1,)', 'pow(,2)'): it still counts for the arity
                args.append(None if self.sym() in (",", ")") else self.or_(False))
                if self.sym() == ",":
                    self.i += 1
                    continue
                break
            if self.sym() != ")":
                if self.operand_starts() and args[-1] is not None:
                    raise Adjacent()
                raise ParseError()
            self.i += 1
            narg = 1 if s in SYM_F1 else 2
            if len(args) != narg:
                self.arity_bad = True
                return ["num", "0"]
            if any(a is None for a in args):
                raise ParseError()       # right number of arguments, one of them empty: no verdict
            if s in SYM_F1:
                return ["fn1", SYM_F1[s], args[0]]
            return ["fn2", SYM_F2[s], args[0], args[1]]
        raise ParseError()


def classify(text):
    """-> (class, ast): wf / unbalanced / arity / missing / adjacent / other"""
    if unbalanced(text):
        return "unbalanced", None
    toks = lex(text)
    if toks is None or not toks:
        return "other", None
    p = Parser(toks)
    try:
        e = p.or_(False)
        if p.peek() is not None:
            if p.operand_starts():
                raise Adjacent()
            raise ParseError()
    except Missing:
        return "missing", None
    except Adjacent:
        return "adjacent", None
    except ParseError:
        return "other", None
    except RecursionError:
        return "other", None
    if p.arity_bad:
        return "arity", None
    return "wf", e


# ------------------------------------------------------------------ terms
def listify(t):
    return [listify(x) if isinstance(x, tuple) else x for x in t]


def norm(t):
    """normal form modulo  neg(neg a) = a  (the only law the sign folding relies on)"""
    k = t[0]
    if k == "un":
        a = norm(t[2])
        if t[1] == "neg" and a[0] == "un" and a[1] == "neg":
            return a[2]
        return ["un", t[1], a]
    if k == "bin":
        return ["bin", t[1], norm(t[2]), norm(t[3])]
    return list(t)


def eval_float(t):
    """the term under the stock AtomBase's arithmetic (same operations, same order)"""
    import numpy as np
    k = t[0]
    if k == "val":
        return t[1]
    if k == "num":
        return float(t[1].strip())
    if k == "e":
        return np.e
    if k == "un":
        v = eval_float(t[2])
        f = t[1]
        if f == "neg":
            return -v
        if f == "lnot":
            return not bool(v)
        return getattr(np, f)(v)
    a, b = eval_float(t[2]), eval_float(t[3])
    f = t[1]
    if f == "add":
        return a + b
    if f == "sub":
        return a - b
    if f == "mul":
        return a * b
    if f == "div":
        return a / b
    if f == "pow":
        return a ** b
    if f == "eq":
        return a == b
    if f == "ne":
        return a != b
    if f == "le":
        return a <= b
    if f == "ge":
        return a >= b
    if f == "lt":
        return a < b
    if f == "gt":
        return a > b
    if f == "land":
        return a and b
    if f == "lor":
        return a or b
    raise ValueError(f)


def eval_str(t):
    """the term under the string atom of the documentation (AtomCustom: + concatenates, > compares lengths)"""
    k = t[0]
    if k == "num":
        return str(t[1])
    if k == "bin" and t[1] == "add":
        return eval_str(t[2]) + eval_str(t[3])
    if k == "bin" and t[1] == "gt":
        return str(len(eval_str(t[2])) > len(eval_str(t[3])))
    raise ValueError("operation outside the string atom")


# ---- flat (postfix) form of terms: for expressions thousands of operators long, no recursion anywhere
def postfix_of(term):
    """nested tuple/list term -> postfix token list (iterative)"""
    out, stack = [], [(term, False)]
    while stack:
        t, done = stack.pop()
        k = t[0]
        if k == "num":
            out.append("n:" + t[1])
        elif k == "e":
            out.append("e")
        elif k == "un":
            if done:
                out.append("u:" + t[1])
            else:
                stack.append((t, True))
                stack.append((t[2], False))
        else:
            if done:
                out.append("b:" + t[1])
            else:
                stack.append((t, True))
                stack.append((t[3], False))
                stack.append((t[2], False))
    return out


def norm_postfix(pf):
    """modulo neg(neg a) = a: in postfix a unary operator follows its operand directly"""
    out = []
    for x in pf:
        if x == "u:neg" and out and out[-1] == "u:neg":
            out.pop()
        else:
            out.append(x)
    return out


def eval_postfix_float(pf):
    """the postfix term under the stock AtomBase's arithmetic"""
    import numpy as np
    st = []
    for x in pf:
        if x.startswith("n:"):
            st.append(float(x[2:].strip()))
        elif x == "e":
            st.append(np.e)
        elif x.startswith("u:"):
            st.append(eval_float(("un", x[2:], ("val", st.pop()))))
        else:
            b = st.pop()
            a = st.pop()
            st.append(eval_float(("bin", x[2:], ("val", a), ("val", b))))
    return st[-1]


def num_kind(v):
    """bool / int / float / complex: a literal denotes a float, `99999999999999999` is the float nearest to it"""
    import numpy as np
    if isinstance(v, (bool, np.bool_)):
        return "bool"
    if isinstance(v, (int, np.integer)):
        return "int"
    if isinstance(v, (float, np.floating)):
        return "float"
    if isinstance(v, (complex, np.complexfloating)):
        return "complex"
    return type(v).__name__


def kind_class(v):
    """integral (bool or int) / float / complex.  bool and int are ONE class: the specification term is evaluated
    after the neg-neg law was applied, and cancelling two signs in front of a comparison keeps the bool where the
    real solver has computed -(-True) = 1 (an int of the same value); a literal is always a float."""
    k = num_kind(v)
    return "integral" if k in ("bool", "int") else k


class Val:
    """outcome of a float computation; equality is equality of the VALUE (nan == nan) and of the numeric kind
    class (integral = bool or int / float / complex; np.float64 counts as float).  Both sides apply the same
    operations to the same operand kinds up to the neg-neg law (see kind_class), so kind classes agree."""

    def __init__(self, v):
        self.v = v

    def __eq__(self, other):
        if not isinstance(other, Val):
            return False
        a, b = self.v, other.v
        if a is None or b is None:
            return a is None and b is None
        if kind_class(a) != kind_class(b):
            return False
        try:
            if a != a and b != b:
                return True
            return bool(a == b)
        except Exception:
            return False

    def __ne__(self, other):
        return not self.__eq__(other)

    def __repr__(self):
        return "ok(%s %r)" % (num_kind(self.v), self.v)


def float_outcome(f):
    """Val(value) or 'err' of a float computation; warnings silenced"""
    with warnings.catch_warnings():
        warnings.simplefilter("ignore")
        try:
            return Val(f())
        except Exception:
            return "err"


# ------------------------------------------------------------------ the real solver
def canon_result(r, names=None):
    from harness.props.c01_probe import RecAtom
    if r is None:
        return "none"
    if isinstance(r, RecAtom):
        return {"atom": listify(r.value)}
    return {"op": type(r).__name__}


def run_rec(text, atom=None, operators=None, steps=None):
    """real ExpressionSolver with the recording atom -> canonical outcome"""
    from scinumtools.solver import ExpressionSolver
    from harness.props.c01_probe import RecAtom
    try:
        with ExpressionSolver(atom or RecAtom, operators, steps) as es:
            r = es.solve(text)
    except Exception:
        return "err"
    return canon_result(r)


def _stock_local(text):
    """real ExpressionSolver(AtomBase) in THIS process -> Val / 'err'"""
    from scinumtools.solver import ExpressionSolver, AtomBase

    def f():
        with ExpressionSolver(AtomBase) as es:
            r = es.solve(text)
        if r is None:
            return None
        if not isinstance(r, AtomBase):
            return ("non-atom result", type(r).__name__)
        return r.value
    return float_outcome(f)


def _encode(o):
    if not isinstance(o, Val):
        return {"o": o}
    v = o.v
    k = num_kind(v)
    if v is None:
        return {"k": "none"}
    if k == "bool":
        return {"k": "bool", "v": bool(v)}
    if k == "int":
        return {"k": "int", "v": str(int(v))} if int(v).bit_length() < 200000 else {"o": "huge-int"}
    if k == "float":
        return {"k": "float", "v": float(v).hex()}
    if k == "complex":
        return {"k": "complex", "v": [float(v.real).hex(), float(v.imag).hex()]}
    return {"k": "other", "v": repr(v)}


def _decode(d):
    if "o" in d:
        return d["o"]
    k = d["k"]
    if k == "none":
        return Val(None)
    if k == "bool":
        return Val(d["v"])
    if k == "int":
        return Val(int(d["v"]))
    if k == "float":
        return Val(float.fromhex(d["v"]))
    if k == "complex":
        return Val(complex(float.fromhex(d["v"][0]), float.fromhex(d["v"][1])))
    return Val(d["v"])


class _StockWorker:
    """The stock solver runs in a worker process with a watchdog: a change that makes an evaluation explode
    (e.g. exact big-integer powers) must give the outcome 'timeout', not hang the check."""

    def __init__(self):
        self.p = None

    def start(self):
        import os
        import subprocess
        import sys
        here = os.path.dirname(os.path.dirname(os.path.dirname(os.path.abspath(__file__))))
        code = ("import sys, json, resource; sys.path.insert(0, %r); sys.setrecursionlimit(20000)\n"
                "resource.setrlimit(resource.RLIMIT_AS, (6 << 30, 6 << 30))\n"
                "sys.set_int_max_str_digits(0)\n"
                "from harness import core; core.use_repo()\n"
                "from harness.props import c01_lang as L\n"
                "for line in sys.stdin:\n"
                "    try:\n"
                "        out = L._encode(L._stock_local(json.loads(line)['s']))\n"
                "    except BaseException as ex:\n"
                "        out = {'o': 'worker-failure'}\n"
                "    sys.stdout.write(json.dumps(out) + '\\n'); sys.stdout.flush()\n") % here
        self.p = subprocess.Popen([sys.executable, "-c", code], stdin=subprocess.PIPE, stdout=subprocess.PIPE,
                                  stderr=subprocess.DEVNULL, text=True, bufsize=1)

    def ask(self, text, timeout):
        import json as _json
        import select
        if self.p is None or self.p.poll() is not None:
            self.start()
        try:
            self.p.stdin.write(_json.dumps({"s": text}) + "\n")
            self.p.stdin.flush()
            r, _, _ = select.select([self.p.stdout], [], [], timeout)
            if r:
                line = self.p.stdout.readline()
                if line:
                    return _decode(_json.loads(line))
        except (OSError, ValueError):
            pass
        try:
            self.p.kill()
            self.p.wait()
        except OSError:
            pass
        self.p = None
        return None


_WORKER = _StockWorker()


def run_stock(text):
    """real ExpressionSolver(AtomBase) -> Val / 'err' / 'timeout' (worker process with a watchdog)"""
    if STOCK["off"]:
        return "skipped"
    out = _WORKER.ask(text, 20)             # unchanged code needs well under a second for every generated input
    if out in (None, "worker-failure"):
        STOCK["off"] = True                 # one explosion is enough: do not wait for the next ones
        return "timeout"
    return out


STOCK = {"off": False}


def canon_model(m, opname=None):
    """model outcome -> same canonical form as canon_result; 'err' for every raised exception"""
    if m == "none":
        return "none"
    if "err" in m:
        return "err"
    if "atom" in m:
        return {"atom": m["atom"]}
    return {"op": opname(m["op"]) if opname else m["op"]}
