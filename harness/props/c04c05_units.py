"""Shared helpers of the C04 / C05 checks: translator (tables regenerated from the live
`scinumtools.units` objects), unit-expression builders, float transport, real-code drivers."""
import inspect
import math
import struct
from fractions import Fraction as F

from harness import core

GEN = core.LEAN / "SciVerif" / "Generated"


# ------------------------------------------------------------------ float transport
def f2b(x):
    """float -> unsigned 64-bit pattern (exact transport to Lean `Float.ofBits`)."""
    return struct.unpack("<Q", struct.pack("<d", float(x)))[0]


def b2f(n):
    return struct.unpack("<d", struct.pack("<Q", int(n)))[0]


def dec(x):
    """number literal -> exact rational at its shortest-repr decimal (273.15 -> 27315/100)."""
    if isinstance(x, bool):
        raise TypeError("bool literal")
    if isinstance(x, int):
        return F(x)
    if isinstance(x, float):
        if not math.isfinite(x):
            raise ValueError("non-finite literal")
        return F(repr(x))
    if isinstance(x, F):
        return x
    raise TypeError("unsupported literal %r" % (x,))


def lean_rat(q):
    q = F(q)
    return "(mkRat (%d) %d)" % (q.numerator, q.denominator)


def lean_str(s):
    return '"' + s.replace("\\", "\\\\").replace('"', '\\"') + '"'


def lean_list(xs, indent="  "):
    xs = list(xs)
    if not xs:
        return "[]"
    return "[\n" + ",\n".join(indent + x for x in xs) + "]"


# ------------------------------------------------------------------ live tables
def units_mod():
    import scinumtools.units as su          # noqa: F401  (ensures package import order)
    from scinumtools.units import settings, unit_types
    return settings, unit_types


def dims_of(entry_dims):
    """table dimension list -> [(num, den)] * 8 exactly as `Dimensions.from_list` reads it."""
    out = []
    for d in entry_dims:
        if isinstance(d, tuple):
            out.append((int(d[0]), int(d[1])))
        else:
            out.append((int(d), 1))
    return out


def split_name(name, symbols):
    """'X_Y' -> (X, Y), both table symbols (or 'Ratio'); exactly one split must exist."""
    cands = []
    for i, ch in enumerate(name):
        if ch == "_":
            u, v = name[:i], name[i + 1:]
            if u in symbols and v in symbols:
                cands.append((u, v))
    if len(cands) != 1:
        raise ValueError("cannot split conversion name %r uniquely: %r" % (name, cands))
    return cands[0]


# ------------------------------------------------------------------ abstract execution
class Aff:
    """Exact affine abstract value a*x + b (x = the method's `value` argument)."""

    def __init__(self, a, b):
        self.a, self.b = F(a), F(b)

    @staticmethod
    def lift(o):
        return o if isinstance(o, Aff) else Aff(0, dec(o))

    def __add__(self, o):
        o = Aff.lift(o)
        return Aff(self.a + o.a, self.b + o.b)
    __radd__ = __add__

    def __sub__(self, o):
        o = Aff.lift(o)
        return Aff(self.a - o.a, self.b - o.b)

    def __rsub__(self, o):
        o = Aff.lift(o)
        return Aff(o.a - self.a, o.b - self.b)

    def __neg__(self):
        return Aff(-self.a, -self.b)

    def __mul__(self, o):
        o = Aff.lift(o)
        if self.a != 0 and o.a != 0:
            raise ValueError("not affine: product of two non-constant terms")
        if o.a == 0:
            return Aff(self.a * o.b, self.b * o.b)
        return Aff(o.a * self.b, o.b * self.b)
    __rmul__ = __mul__

    def __truediv__(self, o):
        o = Aff.lift(o)
        if o.a != 0 or o.b == 0:
            raise ValueError("not affine: division by a non-constant or zero term")
        return Aff(self.a / o.b, self.b / o.b)


class Sym:
    """Symbolic term recorder for the generic log/exp methods."""

    def __init__(self, t):
        self.t = t

    @staticmethod
    def term(o):
        if isinstance(o, Sym):
            return o.t
        return ("const", dec(o))

    def _bin(op):
        def f(self, o):
            return Sym((op, self.t, Sym.term(o)))
        return f

    def _rbin(op):
        def f(self, o):
            return Sym((op, Sym.term(o), self.t))
        return f
    __add__ = _bin("add")
    __radd__ = _rbin("add")
    __sub__ = _bin("sub")
    __rsub__ = _rbin("sub")
    __mul__ = _bin("mul")
    __rmul__ = _rbin("mul")
    __truediv__ = _bin("div")
    __rtruediv__ = _rbin("div")
    __pow__ = _bin("pow")
    __rpow__ = _rbin("pow")

    def __neg__(self):
        return Sym(("neg", self.t))

    # numpy ufuncs on an object call these methods
    def log10(self):
        return Sym(("log10", self.t))

    def log(self):
        return Sym(("log", self.t))

    def exp(self):
        return Sym(("exp", self.t))


X, K_, C_ = ("var", "x"), ("var", "k"), ("var", "c")


def classify_log_method(fn, argnames, owner=None):
    """Runs the real method on symbolic arguments; returns (kind, [names of the args used
    as k and c]) or raises if the body has none of the known shapes."""
    syms = {"exp": Sym(K_), "conv": Sym(C_)}
    args = []
    for n in argnames:
        if n not in syms:
            raise ValueError("unknown extra parameter %r" % n)
        args.append(syms[n])
    r = fn(owner, Sym(X), *args)
    t = r.t if isinstance(r, Sym) else getattr(r, "item", lambda: r)()
    t = t.t if isinstance(t, Sym) else t
    if t == ("mul", K_, ("log10", ("mul", X, C_))):
        return "ratioB"
    if t == ("mul", ("pow", ("const", F(10)), ("div", X, K_)), C_):
        return "bRatio"
    if t == ("mul", K_, ("log", ("mul", X, C_))):
        return "ratioNp"
    if t == ("mul", ("exp", ("div", X, K_)), C_):
        return "npRatio"
    if t == ("add", X, K_):
        return "shift"
    if t[0] == "mul" and t[1][0] == "const" and t[2] == X:
        return ("scale", t[1][1])
    if t[0] == "div" and t[1] == X and t[2][0] == "const":
        return ("unscale", t[2][1])
    raise ValueError("unrecognised method body: %r" % (t,))


def extract_c05_tables():
    """Re-extracts everything `Generated/C05Tables.lean` holds from the live objects."""
    settings, ut = units_mod()
    symbols = set(settings.UNIT_STANDARD.keys()) | {"Ratio"}
    T = ut.TemperatureUnitType
    L = ut.LogarithmicUnitType
    out = {}
    out["unitTypes"] = [c.__name__ for c in settings.UNIT_TYPES]
    out["tempProcess"] = list(T.process)
    temp = []
    for name in sorted(n for n in dir(T) if n.startswith("_convert_")):
        fn = getattr(T, name)
        if not callable(fn):
            continue
        short = name[len("_convert_"):]
        u, v = split_name(short, symbols)
        r = fn(object.__new__(T), Aff(1, 0))
        r = Aff.lift(r)
        temp.append((short, u, v, r.a, r.b))
    out["tempMethods"] = temp
    out["logProcess"] = list(L.process)
    kinds = {}
    methods = []
    for name in sorted(n for n in dir(L) if n.startswith("_convert_")):
        fn = getattr(L, name)
        if not callable(fn):
            continue
        sig = inspect.signature(fn)
        params = list(sig.parameters.values())[2:]      # after self, value
        # `self` is a real (uninitialised) instance, so helper methods the body calls are the real ones
        k = classify_log_method(fn, [p.name for p in params], object.__new__(L))
        kinds[name] = (k, [p.name for p in params])
        short = name[len("_convert_"):]
        # reachable through the `_convert_<u>_<v>` name fallback only with defaults
        if all(p.default is not inspect.Parameter.empty for p in params):
            u, v = split_name(short, symbols)
            if isinstance(k, tuple):
                methods.append((short, u, v, k))
            elif k == "shift":
                methods.append((short, u, v, ("shift", dec(params[0].default))))
            else:
                raise ValueError("defaulted generic method %s" % name)
    out["logMethods"] = methods
    conv = []
    for key, val in L.conversions.items():
        u, v = split_name(key, symbols)
        mname, args = val[0], list(val[1:])
        if mname not in kinds:
            raise ValueError("conversions[%r] names unknown method %r" % (key, mname))
        k, pnames = kinds[mname]
        if isinstance(k, tuple):
            if args:
                raise ValueError("extra arguments for %s" % mname)
            conv.append((key, u, v, k))
        elif k == "shift":
            e = dec(args[0]) if args else dec(inspect.signature(getattr(L, mname)).parameters["exp"].default)
            conv.append((key, u, v, ("shift", e)))
        else:
            if len(args) != 2:
                raise ValueError("conversions[%r]: expected (exp, conv)" % key)
            byname = dict(zip(pnames, args))
            conv.append((key, u, v, (k, dec(byname["exp"]), dec(byname["conv"]))))
    out["logConversions"] = conv
    # magnitudes / prefix lists of every symbol the specification mentions
    need = ["K", "degR", "Cel", "degF", "W", "V", "A", "Ohm", "Pa", "PR", "AR", "m", "Hz"] + list(L.process)
    out["mags"] = [(s, dec(settings.UNIT_STANDARD[s].magnitude)) for s in need if s in settings.UNIT_STANDARD]
    out["prefixes"] = [(p, dec(settings.UNIT_PREFIXES[p].magnitude)) for p in settings.UNIT_PREFIXES.keys()]
    out["dims"] = [(s, dims_of(settings.UNIT_STANDARD[s].dimensions)) for s in need if s in settings.UNIT_STANDARD]
    return out


def render_logfn(k):
    if k[0] in ("shift", "scale", "unscale"):
        return "(.%s %s)" % (k[0], lean_rat(k[1]))
    return "(.%s %s %s)" % (k[0], lean_rat(k[1]), lean_rat(k[2]))


def render_c05_tables(t):
    L = []
    L.append("import SciVerif.Model.C05Types")
    L.append("/-! GENERATED by harness/props/c04c05_units.py from the live `scinumtools.units` objects")
    L.append("    (TemperatureUnitType methods executed on an exact affine value, LogarithmicUnitType")
    L.append("    methods on a symbolic term, float literals at their shortest-repr decimal). Do not edit. -/")
    L.append("namespace SciVerif.C05.Gen")
    L.append("open SciVerif.C05")
    L.append("")
    L.append("def unitTypes : List String := [%s]" % ", ".join(lean_str(s) for s in t["unitTypes"]))
    L.append("def tempProcess : List String := [%s]" % ", ".join(lean_str(s) for s in t["tempProcess"]))
    L.append("def tempMethods : List TempEntry := " + lean_list(
        "⟨%s, %s, %s, %s, %s⟩" % (lean_str(n), lean_str(u), lean_str(v), lean_rat(a), lean_rat(b))
        for n, u, v, a, b in t["tempMethods"]))
    L.append("def logProcess : List String := [%s]" % ", ".join(lean_str(s) for s in t["logProcess"]))
    L.append("def logConversions : List LogEntry := " + lean_list(
        "⟨%s, %s, %s, %s⟩" % (lean_str(k), lean_str(u), lean_str(v), render_logfn(fn))
        for k, u, v, fn in t["logConversions"]))
    L.append("def logMethods : List LogEntry := " + lean_list(
        "⟨%s, %s, %s, %s⟩" % (lean_str(k), lean_str(u), lean_str(v), render_logfn(fn))
        for k, u, v, fn in t["logMethods"]))
    L.append("/-- table magnitudes (shortest-repr decimals) of the symbols the specification mentions -/")
    L.append("def mags : List (String × Rat) := " + lean_list(
        "(%s, %s)" % (lean_str(s), lean_rat(m)) for s, m in t["mags"]))
    L.append("def prefixes : List (String × Rat) := " + lean_list(
        "(%s, %s)" % (lean_str(s), lean_rat(m)) for s, m in t["prefixes"]))
    L.append("def dims : List (String × List (Int × Int)) := " + lean_list(
        "(%s, [%s])" % (lean_str(s), ", ".join("(%d, %d)" % d for d in ds)) for s, ds in t["dims"]))
    L.append("")
    L.append("def tables : Tables :=")
    L.append("  { unitTypes := unitTypes, tempProcess := tempProcess, tempMethods := tempMethods,")
    L.append("    logProcess := logProcess, logConversions := logConversions, logMethods := logMethods }")
    L.append("")
    L.append("end SciVerif.C05.Gen")
    return "\n".join(L) + "\n"


def gen_c05_tables():
    t = extract_c05_tables()
    path = GEN / "C05Tables.lean"
    changed = core.write_if_changed(path, render_c05_tables(t))
    return [str(path.relative_to(core.LEAN))] if changed else []


# ------------------------------------------------------------------ C04 tables
def extract_c04_tables():
    settings, ut = units_mod()
    rows = []
    for s in settings.UNIT_STANDARD.keys():
        e = settings.UNIT_STANDARD[s]
        rows.append(("unit", s, F(float(e.magnitude)) if isinstance(e.magnitude, float) else F(e.magnitude),
                     dims_of(e.dimensions)))
    for s in settings.UNIT_PREFIXES.keys():
        e = settings.UNIT_PREFIXES[s]
        rows.append(("prefix", s, F(float(e.magnitude)), dims_of(e.dimensions)))
    for s, (m, d) in settings.QUANTITY_UNITS.items():
        rows.append(("system", s, F(float(m)), dims_of(d)))
    return rows


def render_c04_tables(rows):
    L = []
    L.append("/-! GENERATED by harness/props/c04c05_units.py from the live UNIT_STANDARD, UNIT_PREFIXES and")
    L.append("    QUANTITY_UNITS tables (magnitudes as the exact rational value of the float). Do not edit. -/")
    L.append("namespace SciVerif.C04.Gen")
    L.append("")
    L.append("/-- table (\"unit\", \"prefix\", \"system\"), symbol, magnitude, dimensions as (num, den) × 8 -/")
    L.append("structure Row where")
    L.append("  table : String")
    L.append("  sym : String")
    L.append("  mag : Rat")
    L.append("  dims : List (Int × Int)")
    L.append("")
    chunk = 20
    names = []
    for n in range(0, len(rows), chunk):
        nm = "factors%d" % (n // chunk)
        names.append(nm)
        L.append("def %s : List Row := " % nm + lean_list(
            "⟨%s, %s, %s, [%s]⟩" % (lean_str(k), lean_str(s), lean_rat(m), ", ".join("(%d, %d)" % d for d in ds))
            for k, s, m, ds in rows[n:n + chunk]))
    L.append("")
    L.append("def factors : List Row := " + " ++ ".join(names) if names else "def factors : List Row := []")
    L.append("")
    L.append("end SciVerif.C04.Gen")
    return "\n".join(L) + "\n"


def gen_c04_tables():
    path = GEN / "C04Tables.lean"
    changed = core.write_if_changed(path, render_c04_tables(extract_c04_tables()))
    return [str(path.relative_to(core.LEAN))] if changed else []


# ------------------------------------------------------------------ unit catalogue / expressions
class Catalog:
    """Live unit tables in the form the generators need."""

    def __init__(self):
        settings, ut = units_mod()
        self.settings = settings
        self.temp_process = set(ut.TemperatureUnitType.process)
        self.log_process = set(ut.LogarithmicUnitType.process)
        self.prefix_mag = {p: settings.UNIT_PREFIXES[p].magnitude for p in settings.UNIT_PREFIXES.keys()}
        self.units = {}
        for s in settings.UNIT_STANDARD.keys():
            e = settings.UNIT_STANDARD[s]
            if e.prefixes is True:
                pf = list(self.prefix_mag)
            elif isinstance(e.prefixes, list):
                pf = [p for p in e.prefixes if p in self.prefix_mag]
            else:
                pf = []
            self.units[s] = (e.magnitude, dims_of(e.dimensions), pf)
        for s, (m, d) in settings.QUANTITY_UNITS.items():
            self.units[s] = (m, dims_of(d), [])
        self.linear = [s for s in self.units if s not in self.temp_process and s not in self.log_process]
        self.base = list(settings.DIMENSION_LIST)

    def dimkey(self, s):
        return tuple(F(n, d) for n, d in self.units[s][1])

    def by_dimension(self, symbols):
        groups = {}
        for s in symbols:
            groups.setdefault(self.dimkey(s), []).append(s)
        return groups

    def unitid(self, prefix, sym):
        return "%s:%s" % (prefix, sym) if prefix else sym

    def req_items(self, items):
        out = []
        for p, s, (n, d) in items:
            m, dims, _ = self.units[s]
            out.append({"id": self.unitid(p, s), "base": s,
                        "p": f2b(self.prefix_mag[p]) if p else None,
                        "m": f2b(m), "d": [list(x) for x in dims], "e": [n, d]})
        return out

    def dims_of_items(self, items):
        tot = [F(0)] * 8
        for p, s, (n, d) in items:
            for i, (a, b) in enumerate(self.units[s][1]):
                tot[i] += F(a, b) * F(n, d)
        return tuple(tot)

    def factor_exact(self, items):
        """exact rational factor when all exponents are integers, else None"""
        f = F(1)
        for p, s, (n, d) in items:
            if n % d != 0:
                return None
            m = F(self.units[s][0]) * (F(self.prefix_mag[p]) if p else 1)
            f *= m ** (n // d)
        return f


def factor_float(cat, items):
    """the factor of an expression as a float (fractional exponents through float pow)"""
    f = 1.0
    for p, s, (n, d) in items:
        f *= (cat.units[s][0] * (cat.prefix_mag[p] if p else 1.0)) ** (n / d)
    return f


def render_exp(e):
    n, d = e
    if d == 1:
        return "" if n == 1 else str(n)
    return "%d:%d" % (n, d)


def render_items(items, rng=None):
    """items -> unit expression; with `rng`, negative exponents are sometimes written as a
    division (`m/s2`), which the parser turns into the same dict entry."""
    if not items:
        return None
    parts = []
    for idx, (p, s, (n, d)) in enumerate(items):
        tok = (p or "") + s
        if rng is not None and d == 1 and abs(n) >= 2 and (n > 0 or idx > 0) and rng.random() < 0.3:
            # the same unit written twice (km3/km, kg*m/s/s): the parser adds / subtracts the exponents
            if n > 0:
                parts.append(("*" if idx > 0 else "") + tok + render_exp((n + 1, 1)) + "/" + tok)
            else:
                parts.append("/" + tok + render_exp((-n - 1, 1)) + "/" + tok)
        elif rng is not None and idx > 0 and n < 0 and rng.random() < 0.5:
            parts.append("/" + tok + render_exp((-n, d)))
        else:
            parts.append(("*" if idx > 0 else "") + tok + render_exp((n, d)))
    return "".join(parts)


def expected_dict(cat, items):
    return [(cat.unitid(p, s), n, d) for p, s, (n, d) in items if n != 0]


def parsed_as_expected(cat, expr, items):
    """The parser is C03's: an expression is used only when the real parser reads it as the
    intended list of (unitid, exponent) — otherwise the input is skipped, not judged."""
    from scinumtools.units.base_units import BaseUnits
    if expr is None:
        return True
    try:
        bu = BaseUnits(expr)
    except Exception:
        return False
    got = [(k, v.num, v.den) for k, v in bu.baseunits.items()]
    return got == expected_dict(cat, items)


def mag_req(x):
    if isinstance(x, (list, tuple)):
        return {"a": [f2b(v) for v in x]}
    return {"s": f2b(x)}


def mag_back(j):
    if j is None:
        return None
    if "s" in j:
        return b2f(j["s"])
    return [b2f(v) for v in j["a"]]


def as_list(v):
    import numpy as np
    if isinstance(v, np.ndarray):
        return [float(t) for t in v.ravel()]
    if isinstance(v, (list, tuple)):
        return [float(t) for t in v]
    return [float(v)]


def close(a, b, rtol, atol=0.0):
    """element-wise comparison of two scalars / lists of floats"""
    la, lb = as_list(a), as_list(b)
    if len(la) != len(lb):
        return False
    for p, q in zip(la, lb):
        if p == q:
            continue
        if p != p or q != q:
            if p != p and q != q:
                continue
            return False
        if math.isinf(p) or math.isinf(q):
            return False
        if abs(p - q) > atol + rtol * max(abs(p), abs(q)):
            return False
    return True


def in_float_range(vals, lo=1e-290, hi=1e290):
    for v in as_list(vals):
        if v != v or math.isinf(v):
            return False
        if v != 0 and not (lo <= abs(v) <= hi):
            return False
    return True


def snapshot(q):
    """observable state of a Quantity: value bits, units text, dict of exponents"""
    vals = as_list(q.magnitude.value)
    return ([f2b(v) for v in vals], q.units(),
            [(k, v.num, v.den) for k, v in q.baseunits.baseunits.items()],
            type(q.magnitude.value).__name__ == "ndarray")


def reads_as_intended(cat, items):
    """Independent reading of the tokens this generator writes, from the tables alone (the parser is NOT
    consulted): the grammar takes the longest table symbol that is a suffix of a token and requires the
    rest to be empty or a prefix. A token `prefix+symbol` whose longest-suffix symbol is another one
    (`m`+`in` = `min`, `P`+`a` …) does not denote the intended unit: such inputs are not generated."""
    symbols = getattr(cat, "_symbols", None)
    if symbols is None:
        symbols = cat._symbols = [s for s in cat.units if not s.startswith("#")]
    seen = set()
    for p, s, (n, d) in items:
        if d == 0:
            return False
        uid = cat.unitid(p, s)
        if uid in seen:
            return False        # the same dict key twice would be merged
        seen.add(uid)
        if s.startswith("#"):
            if p:
                return False
            continue
        tok = (p or "") + s
        best = max((t for t in symbols if tok.endswith(t)), key=len)
        if best != s:
            return False
        if p and p not in cat.units[s][2]:
            return False
    return True


def near_equal_pairs(cat, lo=1e-15, hi=1e-4):
    """same-dimension tokens (prefix, symbol) whose factors differ by a relative lo < |r-1| < hi: nearly but not
    equal scales (yr / yr_t / yr_g, [m_p] / [mu_B], ly against [c]*yr_j, …)"""
    by = {}
    for s in cat.linear:
        for p in [None] + list(cat.units[s][2]):
            f = F(cat.units[s][0]) * (F(cat.prefix_mag[p]) if p else 1)
            by.setdefault(cat.dimkey(s), []).append((f, [(p, s, (1, 1))]))
    # a few compounds that spell a table unit out
    for items in ([(None, "[c]", (1, 1)), (None, "yr_j", (1, 1))], [(None, "[c]", (1, 1)), (None, "yr", (1, 1))],
                  [(None, "N", (1, 1)), (None, "m", (1, 1))], [(None, "[e]", (1, 1)), (None, "V", (1, 1))],
                  [(None, "[h]", (1, 1)), (None, "Hz", (1, 1))], [(None, "deg", (1, 1)), (None, "rad", (-1, 1)), (None, "rad", (1, 1))][:1]):
        if all(s in cat.units for _, s, _ in items):
            by.setdefault(cat.dims_of_items(items), []).append((cat.factor_exact(items), items))
    pairs = []
    for toks in by.values():
        toks.sort(key=lambda t: t[0])
        for i, (fi, a) in enumerate(toks):
            for fj, b in toks[i + 1:]:
                r = fj / fi - 1
                if r >= hi:
                    break
                if r > lo:
                    pairs.append((a, b, float(r)))
    return pairs
