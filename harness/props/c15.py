"""C15 — a node takes effect exactly when all enclosing case clauses are selected.

Correspondence (impl vs Lean model of list_branching/list_hierarchy/DIP.parse) and oracle
(impl vs Lean `sem` of the program tree; impl vs the declarative `misplaced` specification on raw
line sequences: a text with a misplaced @else/@end/@case must be refused).
The DIP text is built from the lines the Lean `render` returns, so the theorem
`parse (render p) = sem p` speaks about exactly the text the real parser is given.
"""
import itertools
import json
import warnings

from harness.core import Ctx, VERIF

RULE = ("program trees (items = node | modification | property line below a node or on its own | import line "
        "`{?group.*}` / `{?group.node}` of a group defined in the same clause or of nothing at all | $unit directive, "
        "a share of which cannot be carried out | group | block of "
        "1-4 clauses with optional @else and optional @end, written plainly or in compact form `parent.@case`, "
        "optionally followed after an explicit @end by lines indented deeper than the @end), "
        "nesting depth <= 5 (thorough 6), children 1-3 columns deeper than their keyword, blocks closed by @end, by "
        "the next sibling (node, group, property line, block of another parent), by de-indentation of any number of "
        "levels or by the end of the text; every tree shape with <= 6 conditions is run under ALL truth "
        "assignments, larger ones under random ones; text decorations (blank lines, comment lines, trailing "
        "comments, expression conditions referring to a top-level node, bare-reference conditions `@case {?zt}` to "
        "top-level bool nodes in every clause position, conditions that cannot be evaluated inside unselected "
        "clauses, one and the same condition text `(\"{?zc} == 1\")` on every top-level block with the node "
        "modified in between, the whole text uniformly indented with empty lines around it, the text loaded with "
        "DIP.add_file from a per-run scratch file) on a share of the programs; malformed "
        "stream = rendered programs with inserted / deleted / re-indented / re-parented lines incl. stray "
        "@else/@end/@case with equal and different parents; histories = a base code and 2-4 further codes each "
        "parsed on the environment of the base or of an earlier step (earlier codes ending inside open blocks / "
        "groups or failing, later codes starting with valid or misplaced clause keywords), oracle = every code "
        "behaves as its own tree on top of the environment's nodes and the base environment stays untouched; "
        "a few hand-written texts with expression conditions. "
        "non-trivial = program with a block closed by indentation or nested blocks or an unselected clause "
        "containing lines or neighbouring compact blocks; distinct = canonical JSON of tree + assignment")
ASSUMPTIONS = [
    "expression conditions are written in every spelling the parser accepts and solves: (\"…\"), ('…'), \"…\", '…' "
    "(the last three are accepted but undocumented)",
    "conditions are the literals `@case true` / `@case false` (a share: `@case (\"{?zt} == 1\")` against a "
    "top-level int node, and hand-written texts in corpus/C15/texts.json); arbitrary expressions belong to C18",
    "written names are plain identifiers; clause keywords may carry a dotted parent of plain identifiers "
    "(`engine.@case`, `g.h.@else`); node lines are `name int = v` and `name = v` with small ints, property lines "
    "`!constant` and `!tags [\"t\"]`; define-or-modify (C14) and property attachment to env.nodes[-1] (C16) are "
    "applied identically to the model's and the specification's list of effective lines",
    "a later @case of a block whose earlier clause is already true is still evaluated by the code; a reference "
    "that cannot be resolved there dangles under every truth assignment (erroneous program) and is outside the domain",
    "mutated raw-line texts are outside the grammar of the property: only the misplaced-clause verdict is judged "
    "on them; a real-parser/model difference there is counted (lines.impl_ne_model_outside_grammar) and noted only",
    "import lines are local imports `{?a.b.*}` / `{?a.b.n}` of int nodes (what an import copies is applied identically "
    "to the model's and the specification's effect list: C17 territory); `$unit` lines are observed only through "
    "failing or not; the hierarchy entry an import leaves behind is a placeholder in the model (observable only by "
    "lines deeper than the import line, which the generators do not write)",
    "texts loaded from a file are programs without modifications (from a file a modification of an undefined node "
    "does not raise: another property); `$source` + `{src?*}` is not used to feed texts",
    "remote imports, $source, tables and `parse_docs` are outside the model",
]
EXPLANATION = ("theorems: for every program tree, truth assignment, indentation oracle and written parents the state "
               "machine (hierarchy + branching + order of tests in DIP.parse) returns exactly the lines of the "
               "selected clauses; every @else/@end (and @case after @else) that is misplaced according to a "
               "declarative definition on raw line sequences makes the machine fail; both hold from any "
               "environment whose cases are closed, hence for every history of parses")

NAMES = ["a", "b", "c", "d", "e"]
GROUPS = ["g", "h", "k"]
PARENTS = [["g"], ["h"], ["k"], ["g", "h"], ["engine"], ["wheels"]]


# ------------------------------------------------------------------ generation
def gen_extra(rng):
    return rng.choice([0, 0, 0, 1, 1, 2])


def gen_prop(rng):
    return "const" if rng.random() < 0.3 else "tags:t%d" % rng.randint(1, 3)


UNIT_COUNTER = [0]


def fresh_unit():
    UNIT_COUNTER[0] += 1
    return "zu%d" % UNIT_COUNTER[0]


def gen_items(rng, depth, n=None, sure=None, frozen=None, path=()):
    """`sure`: names certainly defined (under the current path) whenever this sequence is effective; most
    modifications refer to those, so that few programs end in 'modifying undefined node'.
    `frozen`: names that may have been made constant (avoided afterwards for the same reason)."""
    if n is None:
        n = rng.choice([0, 1, 1, 2, 2, 3])
    sure = set() if sure is None else set(sure)
    frozen = set() if frozen is None else frozen
    out = []
    last_def = None
    for _ in range(n):
        it = gen_item(rng, depth, sure, frozen, last_def, out, path)
        if it[0] == "n" and not it[2]:
            last_def = it[1]
        elif it[0] in ("g", "b", "i"):
            last_def = None        # nodes[-1] is no longer known
        out.append(it)
    return out


def plain_nodes(items):
    return [it[1] for it in items if it[0] == "n" and not it[2]]


def gen_item(rng, depth, sure, frozen, last_def, prev_items, path=()):
    r = rng.random()
    prev_block = bool(prev_items) and prev_items[-1][0] == "b"
    q0 = rng.random()
    if q0 < 0.06:
        # an import line: of a group defined earlier in this very sequence (i.e. in the same clause), of one of
        # its nodes, or (rarely) of something that does not exist — inert inside an unselected clause
        groups = [it for it in prev_items if it[0] == "g" and plain_nodes(it[3])]
        if groups and rng.random() < 0.85:
            g = rng.choice(groups)
            nd = rng.choice(plain_nodes(g[3])) if rng.random() < 0.4 else None
            frozen.update(NAMES)
            sure.clear()
            return ["i", list(path) + [g[1]], nd]
        if rng.random() < 0.3:
            return ["i", list(path) + ["zz"], None]
    elif q0 < 0.10:
        # a $unit directive; a share cannot be carried out (unknown base unit)
        return ["u", fresh_unit(), rng.random() < 0.2]
    if r < (0.18 if prev_block else 0.06) and (last_def is not None or (prev_block and sure)):
        # a property line on its own: after a node, or directly after a block
        p = gen_prop(rng)
        if p == "const":
            frozen.update(NAMES)    # cannot know which node it freezes: stop generating modifications
            sure.clear()
        return ["p", p]
    if depth <= 0 or r < 0.40:
        q = rng.random()
        if q < 0.3 and sure:
            return ["n", rng.choice(sorted(sure)), True, rng.randint(0, 9), []]
        if q > 0.985:
            return ["n", rng.choice(NAMES), True, rng.randint(0, 9), []]
        free = [x for x in NAMES if x not in frozen] or NAMES
        name = rng.choice(free)
        props = []
        if rng.random() < 0.2:
            for _ in range(rng.choice([1, 1, 2])):
                props.append([gen_extra(rng), gen_prop(rng)])
        if any(p[1] == "const" for p in props):
            frozen.add(name)
            sure.discard(name)
        else:
            sure.add(name)
        return ["n", name, False, rng.randint(0, 9), props]
    if r < 0.52:
        gname = rng.choice(GROUPS)
        return ["g", gname, gen_extra(rng), gen_items(rng, depth - 1, path=tuple(path) + (gname,))]
    # a block; after a compact block another compact block is likely (equal or different parent)
    if prev_block and prev_items[-1][1] and rng.random() < 0.7:
        pfx = list(prev_items[-1][1]) if rng.random() < 0.4 else rng.choice(PARENTS)
    else:
        pfx = rng.choice(PARENTS) if rng.random() < 0.3 else []
    ncl = rng.choice([1, 1, 2, 2, 3, 4])
    inner_sure = sure if not pfx else set()
    inner_frozen = frozen if not pfx else set()
    ipath = tuple(path) + tuple(pfx)
    cl = [[rng.random() < 0.45, gen_extra(rng),
           gen_items(rng, depth - 1, sure=inner_sure, frozen=set(inner_frozen), path=ipath)]
          for _ in range(ncl)]
    els = [gen_extra(rng), gen_items(rng, depth - 1, sure=inner_sure, frozen=set(inner_frozen), path=ipath)] \
        if rng.random() < 0.5 else None
    if not pfx:
        # a clause may have frozen or redefined things: be careful afterwards
        for body in [c[2] for c in cl] + ([els[1]] if els else []):
            for it in body:
                if it[0] in ("p", "i") or (it[0] == "n" and any(p[1] == "const" for p in it[4])):
                    frozen.update(NAMES)
                    sure.clear()
    blk = ["b", pfx, cl, els, rng.random() < 0.35]
    if blk[4] and rng.random() < 0.3:
        # lines after the explicit @end, indented deeper than it: outside the block, named under its parent
        blk.append([gen_extra(rng), gen_items(rng, min(depth - 1, 1), n=rng.choice([1, 1, 2]), path=ipath,
                                              sure=inner_sure, frozen=set(inner_frozen))])
        if not pfx:
            frozen.update(NAMES)
            sure.clear()
    return blk


def conditions(items):
    """List of the mutable clause records [c, extra, body] in source order."""
    out = []
    for it in items:
        if it[0] == "g":
            out += conditions(it[3])
        elif it[0] == "b":
            for cl in it[2]:
                out.append(cl)
                out += conditions(cl[2])
            if it[3] is not None:
                out += conditions(it[3][1])
            if len(it) > 5:
                out += conditions(it[5][1])
    return out


def features(items, depth=0):
    """(max block nesting, block closed by indentation/eof/neighbour, unselected clause with lines,
    neighbouring compact blocks, property line directly after a block)"""
    nest, byind, unsel, compact, propafter = depth, False, False, False, False
    for idx, it in enumerate(items):
        if it[0] == "g":
            a, b, c, d, e = features(it[3], depth)
            nest, byind, unsel, compact, propafter = max(nest, a), byind or b, unsel or c, compact or d, propafter or e
        elif it[0] == "b":
            nxt = items[idx + 1] if idx + 1 < len(items) else None
            same_next = nxt is not None and nxt[0] == "b" and nxt[1] == it[1]
            if not it[4] and not same_next:
                byind = True
                if nxt is not None and nxt[0] == "b":
                    compact = True
                if nxt is not None and nxt[0] == "p":
                    propafter = True
            taken = False
            bodies = [(cl[0], cl[2]) for cl in it[2]] + ([(True, it[3][1])] if it[3] is not None else [])
            for c, body in bodies:
                sel = c and not taken
                taken = taken or c
                if not sel and body:
                    unsel = True
                a, b, cc, d, e = features(body, depth + 1)
                nest, byind, unsel, compact, propafter = max(nest, a), byind or b, unsel or cc, compact or d, propafter or e
            if len(it) > 5:
                a, b, cc, d, e = features(it[5][1], depth)
                nest, byind, unsel, compact, propafter = max(nest, a), byind or b, unsel or cc, compact or d, propafter or e
    return nest, byind, unsel, compact, propafter


def has_mods(items):
    for it in items:
        if it[0] == "n" and it[2]:
            return True
        if it[0] == "g" and has_mods(it[3]):
            return True
        if it[0] == "b" and (any(has_mods(c[2]) for c in it[2]) or (it[3] is not None and has_mods(it[3][1]))
                             or (len(it) > 5 and has_mods(it[5][1]))):
            return True
    return False


def top_first_clauses(items):
    """For every rendered line at indent 0 in order: None, or the truth value c of the first clause of a
    top-level block that this line is."""
    out = []
    for i, it in enumerate(items):
        if it[0] != "b":
            out.append(None)
            continue
        nxt = items[i + 1] if i + 1 < len(items) else None
        forced = nxt is not None and nxt[0] == "b" and nxt[1] == it[1]
        out.append(it[2][0][0])
        out += [None] * (len(it[2]) - 1 + (1 if it[3] is not None else 0) + (1 if (it[4] or forced) else 0))
    return out


def pad_text(text, n):
    """The same code as a snippet: every line indented by the same amount, empty lines around it."""
    pad = " " * (2 * (n % 3))
    body = "\n".join(pad + l if l.strip() else l for l in text.split("\n"))
    return "\n" * (n % 2 + 1) + body + "\n" * (n % 3) + ("   \n" if n % 2 else "")


def case_contexts(items, ok=True, out=None):
    """For every `@case` line in rendering order: are all clauses enclosing that line selected?"""
    out = [] if out is None else out
    for it in items:
        if it[0] == "g":
            case_contexts(it[3], ok, out)
        elif it[0] == "b":
            taken = False
            for c, _, body in it[2]:
                out.append(ok)
                sel = c and not taken
                taken = taken or c
                case_contexts(body, ok and sel, out)
            if it[3] is not None:
                case_contexts(it[3][1], ok and not taken, out)
            if len(it) > 5:
                case_contexts(it[5][1], ok, out)
    return out


# ------------------------------------------------------------------ real code
def canon_value(v):
    if isinstance(v, bool) or not isinstance(v, int):
        try:
            iv = int(v)
            return iv if iv == v and not isinstance(v, bool) else repr(v)
        except Exception:
            return repr(v)
    return v


SCRATCH = []


def scratch_dir():
    """Per-run scratch directory (removed at exit) for texts that are fed through DIP.add_file."""
    if not SCRATCH:
        import atexit
        import shutil
        import tempfile
        d = tempfile.mkdtemp(prefix="verif_c15_")
        atexit.register(shutil.rmtree, d, True)
        SCRATCH.append(d)
    return SCRATCH[0]


def impl_run(text, via=None):
    """[[name, value, constant, tags], …] in env.nodes order, or 'err'; plus branching counters.
    via='file': the text is written to a scratch file and loaded with DIP.add_file."""
    from scinumtools.dip import DIP
    with warnings.catch_warnings():
        warnings.simplefilter("ignore")
        try:
            with DIP() as p:
                if via == "file":
                    import os
                    path = os.path.join(scratch_dir(), "code.dip")
                    with open(path, "w") as f:
                        f.write(text)
                    p.add_file(path)
                else:
                    p.add_string(text)
                env = p.parse()
            data = []
            for n in env.nodes:
                val = n.value.value if n.value is not None else None
                data.append([n.name, canon_value(val), bool(n.constant), list(n.tags) if n.tags else []])
            # env.data() must agree with env.nodes (it is what the property observes)
            d = env.data()
            if [k for k in d] != [r[0] for r in data] or [canon_value(v) for v in d.values()] != [r[1] for r in data]:
                data.append(["<env.data() differs>", repr(d), False, []])
            st = {"open": len(env.branching.state), "num_cases": int(env.branching.num_cases),
                  "num_branches": int(env.branching.num_branches)}
            return data, st
        except Exception:
            return "err", None


def spell(expr, n):
    """The spellings of an expression condition that the parser accepts and solves: ("…"), ('…'), "…", '…'."""
    return ['("%s")', "('%s')", '"%s"', "'%s'"][n % 4] % expr


def to_text(lines, rng=None, deco=None, ctxs=None, firsts=None):
    """DIP text of the rendered lines. `deco`: None | 'blank' | 'expr' | 'undef' | 'ref' (harness-level decorations).
    'undef': every @case line lying inside an unselected clause (`ctxs`, see case_contexts) gets a condition
    that cannot be evaluated (it refers to a node that does not exist) — it must not be evaluated."""
    out = []
    ncase = 0
    if deco == "expr":
        out.append("zt int = 1")
    if deco == "ref":
        out += ["zt bool = true", "zf bool = false"]
    if deco == "dyn":
        out.append("zc int = 0")
    ntop = 0
    for ind, txt in lines:
        if deco == "dyn" and firsts is not None and ind == 0:
            c = firsts[ntop] if ntop < len(firsts) else None
            ntop += 1
            if c is not None and "@case " in txt:
                # the same condition text for every top-level block; the node it refers to is modified in between
                out.append("zc = %d" % (1 if c else 0))
                txt = txt[:txt.index("@case ")] + "@case " + spell("{?zc} == 1", ntop)
        if deco == "expr" and "@case " in txt:
            head = txt[:txt.index("@case ")]
            txt = head + "@case " + spell("{?zt} == %d" % (1 if txt.endswith("true") else 0), ncase)
        if "@case " in txt:
            dead = ctxs is not None and ncase < len(ctxs) and not ctxs[ncase]
            if deco == "undef" and dead:
                txt = txt[:txt.index("@case ")] + "@case " + spell("{?zq} == 1", ncase)
            elif deco == "ref":
                # the third condition form: a bare reference to a bool node; inside unselected clauses
                # every second one refers to a node that does not exist (it must not be injected)
                ref = "zq" if dead and ncase % 2 == 0 else ("zt" if txt.endswith("true") else "zf")
                txt = txt[:txt.index("@case ")] + "@case {?%s}" % ref
            ncase += 1
        if deco == "blank" and rng is not None:
            r = rng.random()
            if r < 0.15:
                out.append("")
            elif r < 0.3:
                out.append(" " * rng.randint(0, ind + 3) + "# note")
            elif r < 0.45 and "@else" not in txt and "@end" not in txt:
                txt = txt + "   # note"
        out.append(" " * ind + txt)
    return "\n".join(out)


def strip_state(st):
    return None if st in (None, "err") else {k: st[k] for k in ("open", "num_cases", "num_branches")}


# ------------------------------------------------------------------ AST stream
def classify(imp, spec):
    if imp == "err":
        return "ast:error-on-valid-program"
    if spec == "err":
        return "ast:accepted-what-the-selected-lines-make-fail"
    ik, sk = [r[0] for r in imp], [r[0] for r in spec]
    if any(k not in ik for k in sk):
        return "ast:effective-node-dropped"
    if any(k not in sk for k in ik):
        return "ast:unselected-node-took-effect"
    if [r[:2] for r in imp] != [r[:2] for r in spec]:
        return "ast:wrong-value" if sorted(ik) == sorted(sk) and dict((r[0], r[1]) for r in imp) != dict((r[0], r[1]) for r in spec) else "ast:order"
    return "ast:property-line"


def reductions(items):
    """Smaller variants of a program tree (for shrinking)."""
    for i, it in enumerate(items):
        yield items[:i] + items[i + 1:]
        if it[0] == "n" and it[4]:
            for j in range(len(it[4])):
                yield items[:i] + [it[:4] + [it[4][:j] + it[4][j + 1:]]] + items[i + 1:]
        elif it[0] == "g":
            yield items[:i] + it[3] + items[i + 1:]
            for sub in reductions(it[3]):
                yield items[:i] + [["g", it[1], it[2], sub]] + items[i + 1:]
            if it[2]:
                yield items[:i] + [["g", it[1], 0, it[3]]] + items[i + 1:]
        elif it[0] == "b" and len(it) > 5:
            yield items[:i] + [it[:5]] + items[i + 1:]
            for sub in reductions(it[5][1]):
                if sub:
                    yield items[:i] + [it[:5] + [[it[5][0], sub]]] + items[i + 1:]
        elif it[0] == "b":
            pfx, cl, els, ee = it[1], it[2], it[3], it[4]
            if len(cl) > 1:
                for j in range(len(cl)):
                    yield items[:i] + [["b", pfx, cl[:j] + cl[j + 1:], els, ee]] + items[i + 1:]
            if els is not None:
                yield items[:i] + [["b", pfx, cl, None, ee]] + items[i + 1:]
                for sub in reductions(els[1]):
                    yield items[:i] + [["b", pfx, cl, [els[0], sub], ee]] + items[i + 1:]
            if len(pfx) > 1:
                yield items[:i] + [["b", pfx[:1], cl, els, ee]] + items[i + 1:]
            for j in range(len(cl)):
                for sub in reductions(cl[j][2]):
                    yield items[:i] + [["b", pfx, cl[:j] + [[cl[j][0], cl[j][1], sub]] + cl[j + 1:], els, ee]] + items[i + 1:]
                if cl[j][1]:
                    yield items[:i] + [["b", pfx, cl[:j] + [[cl[j][0], 0, cl[j][2]]] + cl[j + 1:], els, ee]] + items[i + 1:]


def eval_ast(ctx, items):
    r = ctx.driver.ask({"p": "C15", "k": "ast", "items": items})
    if "ok" not in r:
        return None
    r = r["ok"]
    imp, st = impl_run(to_text(r["lines"]))
    return r, imp, st


def shrink_ast(ctx, items, max_steps=200):
    steps = 0
    progress = True
    while progress and steps < max_steps:
        progress = False
        for cand in reductions(items):
            steps += 1
            if steps > max_steps:
                break
            res = eval_ast(ctx, cand)
            if res and res[1] != res[0]["spec"]:
                items = cand
                progress = True
                break
    return items


def judge_ast(ctx, items, r, deco, rng_for_deco, tag):
    """One program: impl vs spec (violation) and impl vs model (disagreement)."""
    if "ok" not in r:
        ctx.disagreement("ast", {"items": items}, "driver error %s" % (r,))
        return
    r = r["ok"]
    ctxs = case_contexts(items) if deco in ("undef", "ref") else None
    firsts = top_first_clauses(items) if deco == "dyn" else None
    text = to_text(r["lines"], rng_for_deco, deco, ctxs, firsts)
    if ctxs is not None:
        ctx.count("ast.conditions_not_evaluable_inside_unselected_clauses", sum(1 for c in ctxs if not c))
    if deco in ("pad", "file"):
        text = pad_text(text, len(r["lines"]))
    imp, st = impl_run(text, "file" if deco == "file" else None)
    spec, model = r["spec"], r["model"]
    if deco == "dyn" and imp != "err":
        vals = [c for c in firsts if c is not None]
        want = ["zc", (1 if vals[-1] else 0) if vals else 0, False, []]
        if imp[:1] != [want]:
            imp = "zc-wrong:%s" % (imp[:1],)
        else:
            imp = imp[1:]
        ctx.count("ast.same_condition_text_reevaluated", max(0, len(vals) - 1))
    if deco == "expr" and imp != "err":
        if imp[:1] != [["zt", 1, False, []]]:
            imp = "zt-missing"
        else:
            imp = imp[1:]
    if deco == "ref" and imp != "err":
        if imp[:2] != [["zt", "True", False, []], ["zf", "False", False, []]]:
            imp = "zt-zf-missing"
        else:
            imp = imp[2:]
    nest, byind, unsel, compact, propafter = features(items)
    ctx.case(["ast", items, deco], nest >= 2 or byind or unsel or compact,
             {"text": text.split("\n")[:12], "data": imp if imp == "err" else imp[:6]})
    ctx.count("ast.%s" % tag)
    ctx.count("ast.lines", len(r["lines"]))
    ctx.count("ast.nest%d" % min(nest, 6))
    for flag, key in ((byind, "closed_by_indent_eof_or_neighbour"), (unsel, "unselected_clause_with_lines"),
                      (compact, "block_directly_after_block_of_other_parent"), (propafter, "property_line_directly_after_block")):
        if flag:
            ctx.count("ast." + key)
    if '], true, [' in json.dumps(items):
        ctx.count("ast.lines_after_end_deeper_than_it")
    if deco:
        ctx.count("ast.deco." + deco)
    if imp == "err":
        ctx.count("ast.impl_err")
    if imp != spec:
        pre = classify(imp, spec)
        seen = ctx.extra.setdefault("_shrunk", {})
        small, imp2, text2, spec2 = items, imp, text, spec
        plain = deco is None
        if not plain and seen.get(pre, 0) < 2:
            res0 = eval_ast(ctx, items)
            plain = bool(res0) and res0[1] != res0[0]["spec"]
        if plain and seen.get(pre, 0) < 2:
            seen[pre] = seen.get(pre, 0) + 1
            cand = shrink_ast(ctx, items)
            res = eval_ast(ctx, cand)
            if res and res[1] != res[0]["spec"]:
                small, imp2, text2, spec2 = cand, res[1], to_text(res[0]["lines"]), res[0]["spec"]
        ctx.violation(classify(imp2, spec2),
                      "program\n    %s\n  real parser gives %s, the selected clauses give %s "
                      "([name, value, constant, tags] per node)" %
                      (text2.replace("\n", "\n    "), imp2, spec2),
                      {"stream": "ast", "items": small, "deco": deco if small is items else None,
                       "text": text2, "impl": imp2, "spec": spec2})
    if imp != model:
        ctx.disagreement("ast", {"items": items, "deco": deco, "text": text}, "impl %s model %s" % (imp, model))
    elif deco is None and imp != "err" and strip_state(st) != strip_state(r["state"]):
        ctx.disagreement("ast-state", {"items": items, "text": text},
                         "branching state impl %s model %s" % (strip_state(st), strip_state(r["state"])))


def ast_stream(ctx, n_shapes, max_depth, exhaustive_cap, corpus_items):
    rng = ctx.rng
    batch = []   # (items, deco, tag)
    for items in corpus_items:
        batch.append((items, None, "corpus"))
    n_exh = 0
    for s in range(n_shapes):
        depth = rng.choice([1, 2, 2, 3, 3, 4, max_depth, max_depth])
        items = gen_items(rng, depth, n=rng.choice([1, 2, 2, 3, 4]))
        conds = conditions(items)
        if 0 < len(conds) <= 6 and n_exh < exhaustive_cap:
            n_exh += 1
            for bits in itertools.product([False, True], repeat=len(conds)):
                for cl, b in zip(conds, bits):
                    cl[0] = b
                q = rng.random()
                deco = None
                if len(conds) >= 2 and q < 0.2:
                    deco = "undef"
                elif len(conds) >= 2 and q < 0.4 and '["p",' not in json.dumps(items):
                    deco = "ref"
                elif q < 0.55 and '["p",' not in json.dumps(items):
                    deco = "dyn"
                elif q < 0.65:
                    deco = "pad" if has_mods(items) else "file"
                batch.append((json.loads(json.dumps(items)), deco, "exhaustive"))
        else:
            for _ in range(3):
                for cl in conds:
                    cl[0] = rng.random() < 0.45
                deco = rng.choice([None, "undef", "blank", "expr", "ref", "ref", "dyn", "dyn", "pad", "file", "file"])
                if deco == "file" and has_mods(items):
                    deco = "pad"       # from a file, modifying an undefined node does not raise (other property)
                if deco in ("expr", "ref", "dyn") and '["p",' in json.dumps(items):
                    deco = "blank"     # a lone property line could attach to the helper node `zt`
                batch.append((json.loads(json.dumps(items)), deco, "random"))
    ctx.extra["exhaustive_part"] = "%d tree shapes with <=6 conditions under all truth assignments" % n_exh
    res = ctx.driver.ask_many([{"p": "C15", "k": "ast", "items": it} for it, _, _ in batch])
    for (items, deco, tag), r in zip(batch, res):
        judge_ast(ctx, items, r, deco, rng, tag)


# ------------------------------------------------------------------ malformed / raw line stream
def mutate_lines(rng, lines):
    lines = [list(l) for l in lines]
    for _ in range(rng.choice([1, 1, 2, 3])):
        r = rng.random()
        indents = sorted({l[0] for l in lines} | {0})
        ind = max(0, rng.choice(indents) + rng.choice([0, 0, 0, 1, -1]))
        pos = rng.randint(0, len(lines))
        parents = [l[2] for l in lines if l[1] in ("c1", "c0", "else", "end")] or [[]]
        if r < 0.45:
            kind = rng.choice(["else", "end", "else", "end", "c1", "c0"])
            q = rng.random()
            par = list(rng.choice(parents)) if q < 0.5 else ([] if q < 0.7 else rng.choice(PARENTS))
            lines.insert(pos, [ind, kind, par, 0])
        elif r < 0.55 and lines:
            # re-parent a clause line
            cands = [i for i, l in enumerate(lines) if l[1] in ("c1", "c0", "else", "end")]
            if cands:
                i = rng.choice(cands)
                lines[i][2] = [] if lines[i][2] and rng.random() < 0.5 else rng.choice(PARENTS)
        elif r < 0.68 and lines:
            del lines[min(pos, len(lines) - 1)]
        elif r < 0.84 and lines:
            lines[min(pos, len(lines) - 1)][0] = ind
        elif r < 0.92:
            lines.insert(pos, [ind, rng.choice(["n", "g", "m"]), [rng.choice(NAMES)], rng.randint(0, 9)])
        elif r < 0.97:
            lines.insert(pos, [ind, "p:" + gen_prop(rng), [], 0])
        else:
            lines.insert(pos, rng.choice([[ind, "u1", [fresh_unit()], 0], [ind, "i*", ["zz"], 0]]))
    return lines


def line_kind_text(l):
    pre = ".".join(l[2]) + "." if l[2] else ""
    return {"c1": pre + "@case true", "c0": pre + "@case false", "else": pre + "@else", "end": pre + "@end"}.get(l[1], l[1])


def judge_lines(ctx, lines, r, tag):
    if "ok" not in r:
        ctx.disagreement("lines", {"lines": lines}, "driver error %s" % (r,))
        return
    r = r["ok"]
    text = to_text(r["lines"])
    imp, st = impl_run(text)
    mis = r["misplaced"]
    ctx.case(["lines", lines], mis, {"text": text.split("\n")[:12], "misplaced": mis, "data": imp if imp == "err" else imp[:6]}
             if mis and ctx.evaluations % 50 == 0 else None)
    ctx.count("lines.%s" % tag)
    ctx.count("lines.misplaced" if mis else "lines.not_misplaced")
    if any(l[2] for l in lines if l[1] in ("c1", "c0", "else", "end")):
        ctx.count("lines.with_compact_clause_lines")
    if imp == "err":
        ctx.count("lines.impl_err")
    if mis and imp != "err":
        # which line? the first misplaced one: cut the text after it (all prefixes in one batch)
        cut, rr, imp2 = lines, r, imp
        pre = ctx.driver.ask_many([{"p": "C15", "k": "lines", "lines": lines[:n]} for n in range(1, len(lines) + 1)])
        for n, q in enumerate(pre, 1):
            if "ok" in q and q["ok"]["misplaced"]:
                imp3, _ = impl_run(to_text(q["ok"]["lines"]))
                if imp3 != "err":      # (else: the prefix fails but the whole text is accepted — keep the whole)
                    cut, rr, imp2 = lines[:n], q["ok"], imp3
                break
        seen = ctx.extra.setdefault("_shrunk", {})
        key = "lines:" + cut[-1][1]
        if cut is not lines and seen.get(key, 0) < 2:
            # drop earlier lines while the last line stays misplaced and the text stays accepted
            seen[key] = seen.get(key, 0) + 1
            i = 0
            while i < len(cut) - 1:
                cand = cut[:i] + cut[i + 1:]
                q, q0 = ctx.driver.ask_many([{"p": "C15", "k": "lines", "lines": cand},
                                             {"p": "C15", "k": "lines", "lines": cand[:-1]}])
                ok = "ok" in q and q["ok"]["misplaced"] and not ("ok" in q0 and q0["ok"]["misplaced"])
                if ok:
                    imp3, _ = impl_run(to_text(q["ok"]["lines"]))
                    if imp3 != "err":
                        cut, rr, imp2 = cand, q["ok"], imp3
                        continue
                i += 1
        ctx.violation("misplaced:%s-accepted" % {"c1": "case", "c0": "case"}.get(cut[-1][1], cut[-1][1])
                      if cut is not lines else "misplaced:accepted",
                      "text\n    %s\n  contains a misplaced %s but the real parser accepts it and returns %s" %
                      (to_text(rr["lines"]).replace("\n", "\n    "),
                       line_kind_text(cut[-1]) if cut is not lines else "clause line", imp2),
                      {"stream": "lines", "lines": cut, "text": to_text(rr["lines"]), "impl": imp2, "spec": "err"})
    # A mutated line sequence is in general not the rendering of any program tree, i.e. it lies outside the
    # grammar the property quantifies over; only the misplaced-clause verdict above is judged on it.  A difference
    # between the real parser and the model on such a text is counted and noted, it never fails the check
    # (the tie on texts inside the grammar is the AST stream's job).
    if imp != r["model"] or (imp != "err" and strip_state(st) != strip_state(r["state"])):
        ctx.count("lines.impl_ne_model_outside_grammar")
        if ctx.dist["lines.impl_ne_model_outside_grammar"] <= 3:
            ctx.notes.append("raw-line stream (outside the grammar, not judged): real parser %s / model %s on %r" %
                             (imp, r["model"], text))


def lines_stream(ctx, count, corpus_lines):
    rng = ctx.rng
    seeds = []
    for _ in range(count):
        items = gen_items(rng, rng.choice([1, 2, 3]), n=rng.choice([1, 2, 3]))
        seeds.append(items)
    res = ctx.driver.ask_many([{"p": "C15", "k": "ast", "items": it} for it in seeds])
    batch = [(l, "corpus") for l in corpus_lines]
    for r in res:
        if "ok" not in r:
            continue
        batch.append((mutate_lines(rng, r["ok"]["specs"]), "mutated"))
    out = ctx.driver.ask_many([{"p": "C15", "k": "lines", "lines": l} for l, _ in batch])
    for (lines, tag), r in zip(batch, out):
        judge_lines(ctx, lines, r, tag)


# ------------------------------------------------------------------ histories: several parses on one environment
def impl_history(base_text, steps):
    """steps: [(from_index, text)]; returns (base result, [step results]) with 'skip' for steps whose
    environment does not exist, plus what happened to the base environment."""
    from scinumtools.dip import DIP

    def records(env):
        return [[n.name, canon_value(n.value.value if n.value is not None else None), bool(n.constant),
                 list(n.tags) if n.tags else []] for n in env.nodes]
    with warnings.catch_warnings():
        warnings.simplefilter("ignore")
        envs = []
        try:
            with DIP(name="hbase") as p:
                p.add_string(base_text)
                envs.append(p.parse())
            base_res = records(envs[0])
        except Exception:
            return "err", ["skip"] * len(steps), None
        results = []
        for i, (frm, text) in enumerate(steps):
            env = envs[frm] if frm < len(envs) else None
            if env is None:
                results.append("skip")
                envs.append(None)
                continue
            try:
                with DIP(env, name="hstep%d" % i) as p:
                    p.add_string(text)
                    e2 = p.parse()
                results.append(records(e2))
                envs.append(e2)
            except Exception:
                results.append("err")
                envs.append(None)
        after = {"records": records(envs[0]), "open": len(envs[0].branching.state),
                 "num_cases": int(envs[0].branching.num_cases)}
        return base_res, results, after


def gen_history(rng):
    base = gen_items(rng, rng.choice([0, 1, 1, 2]), n=rng.choice([1, 2, 3]))
    if rng.random() < 0.5:     # the base itself ends inside an open block
        base.append(["b", [], [[rng.random() < 0.5, gen_extra(rng), gen_items(rng, 0, n=1)]], None, False])
    sure = set(plain_nodes(base)) if not any(it[0] in ("p", "i") or (it[0] == "n" and it[4]) for it in base) else set()
    steps = []
    for i in range(rng.choice([2, 3, 3, 4])):
        frm = rng.choice([0, 0] + list(range(0, i + 1)))
        if rng.random() < 0.2:
            # a raw code that starts with a clause keyword that is misplaced there (or a valid small one)
            kind = rng.choice(["else", "end", "else", "c1"])
            par = rng.choice([[], [], ["g"]])
            lines = [[0, kind, par, 0], [2, "n", [rng.choice(NAMES)], rng.randint(0, 9)]]
            if kind == "end":
                lines = lines[:1] + [[0, "n", [rng.choice(NAMES)], 1]]
            steps.append({"from": frm, "lines": lines})
            continue
        items = []
        if rng.random() < 0.6:   # starts with a clause keyword
            items.append(["b", rng.choice([[], [], ["g"]]),
                          [[rng.random() < 0.6, gen_extra(rng), gen_items(rng, 1, n=rng.choice([1, 2]), sure=sure)]],
                          [gen_extra(rng), gen_items(rng, 0, n=1, sure=sure)] if rng.random() < 0.6 else None,
                          rng.random() < 0.3])
        items += gen_items(rng, rng.choice([0, 1, 2]), n=rng.choice([0, 1, 2]), sure=sure)
        if rng.random() < 0.6:   # ends inside an open block or group
            if rng.random() < 0.7:
                items.append(["b", rng.choice([[], [], ["g"]]),
                              [[rng.random() < 0.6, gen_extra(rng), gen_items(rng, 1, n=rng.choice([1, 2]), sure=sure)]],
                              None, False])
            else:
                items.append(["g", rng.choice(GROUPS), gen_extra(rng), gen_items(rng, 1, n=1)])
        if not items:
            items = gen_items(rng, 0, n=1, sure=sure)
        steps.append({"from": frm, "items": items})
    return base, steps


def hist_stream(ctx, count, corpus_hist):
    rng = ctx.rng
    hists = list(corpus_hist)
    for _ in range(count):
        base, steps = gen_history(rng)
        hists.append({"base": base, "steps": steps})
    res = ctx.driver.ask_many([{"p": "C15", "k": "hist", "base": h["base"], "steps": h["steps"]} for h in hists])
    for h, r in zip(hists, res):
        if "ok" not in r:
            ctx.disagreement("hist", h, "driver error %s" % (r,))
            continue
        r = r["ok"]
        base_text = to_text(r["base"]["lines"])
        texts = [to_text(st["lines"]) for st in r["steps"]]
        base_imp, imps, after = impl_history(base_text, [(s["from"], t) for s, t in zip(h["steps"], texts)])
        ctx.case(["hist", h], True, {"base": base_text.split("\n")[:6], "steps": [[s["from"], t.split("\n")[:6]] for s, t in zip(h["steps"], texts)][:3]}
                 if ctx.evaluations % 40 == 0 else None)
        ctx.count("hist.histories")
        replay = {"stream": "hist", "base": h["base"], "steps": h["steps"], "base_text": base_text, "texts": texts}
        if base_imp != r["base"]["spec"]:
            ctx.violation("hist:base", "base code\n    %s\n  real parser gives %s, the selected clauses give %s" %
                          (base_text.replace("\n", "\n    "), base_imp, r["base"]["spec"]), dict(replay, impl=base_imp))
            continue
        if base_imp == "err":
            ctx.count("hist.base_err")
            continue
        for i, (st, sr, imp, text) in enumerate(zip(h["steps"], r["steps"], imps, texts)):
            ctx.count("hist.steps")
            ctx.count("hist.step_from_base" if st["from"] == 0 else "hist.step_chained")
            if imp == "skip" or sr["spec"] == "skip":
                if imp != sr["spec"] and not (imp == "skip" and sr["model"] == "skip"):
                    pass   # an environment exists on one side only: already reported at the step that produced it
                ctx.count("hist.steps_skipped")
                continue
            hist_txt = "base code\n    %s\n  %s, then on the environment of %s the code\n    %s" % (
                base_text.replace("\n", "\n    "),
                "; ".join("step %d from %s" % (k + 1, "base" if s2["from"] == 0 else "step %d" % s2["from"])
                          for k, s2 in enumerate(h["steps"][:i])) or "no other parse before",
                "the base" if st["from"] == 0 else "step %d" % st["from"], text.replace("\n", "\n    "))
            if "items" in st:
                if imp != sr["spec"]:
                    ctx.violation("hist:" + classify(imp, sr["spec"])[4:],
                                  "%s\n  real parser gives %s, the code's own selected clauses on top of that "
                                  "environment give %s (earlier steps: %s)" %
                                  (hist_txt, imp, sr["spec"], [[s2["from"], t] for s2, t in zip(h["steps"][:i], texts[:i])]),
                                  dict(replay, step=i, impl=imp, spec=sr["spec"]))
                    break
                if imp != sr["model"]:
                    ctx.disagreement("hist", dict(replay, step=i), "impl %s model %s" % (imp, sr["model"]))
                    break
            else:
                ctx.count("hist.raw_steps_misplaced" if sr["misplaced"] else "hist.raw_steps_not_misplaced")
                if sr["misplaced"] and imp != "err":
                    ctx.violation("hist:misplaced-accepted",
                                  "%s\n  starts with / contains a misplaced clause line but is accepted and gives %s "
                                  "(earlier steps: %s)" % (hist_txt, imp, [[s2["from"], t] for s2, t in zip(h["steps"][:i], texts[:i])]),
                                  dict(replay, step=i, impl=imp, spec="err"))
                    break
        if after is not None and (after["records"] != base_imp or after["open"] != 0 or
                                  after["num_cases"] != r["base"]["num_cases"]):
            ctx.violation("hist:base-environment-modified",
                          "base code\n    %s\n  after further parses on it the base environment has records %s, %d open "
                          "blocks, %d numbered clauses (expected %s, 0, %s)" %
                          (base_text.replace("\n", "\n    "), after["records"], after["open"], after["num_cases"],
                           base_imp, r["base"]["num_cases"]), dict(replay, after=after))


# ------------------------------------------------------------------ hand-written texts (outside the line language)
def texts_stream(ctx, texts):
    for t in texts:
        imp, _ = impl_run(t["text"])
        exp = t["expect"]
        ctx.case(["text", t["name"]], True, None)
        ctx.count("texts")
        if imp != exp:
            ctx.violation("text:" + t["name"],
                          "text\n    %s\n  real parser gives %s, the property requires %s (%s)" %
                          (t["text"].replace("\n", "\n    "), imp, exp, t.get("note", "")),
                          {"stream": "text", "name": t["name"], "text": t["text"], "impl": imp, "spec": exp})


# ------------------------------------------------------------------ entry points
HIST_CORPUS = []


def load_corpus():
    items, lines, texts = [], [], []
    HIST_CORPUS.clear()
    d = VERIF / "corpus" / "C15"
    for f in sorted(d.glob("*.json")):
        j = json.loads(f.read_text())
        for e in j if isinstance(j, list) else [j]:
            if "items" in e:
                items.append(e["items"])
            elif "lines" in e:
                lines.append(e["lines"])
            elif "text" in e:
                texts.append(e)
            elif "base" in e:
                HIST_CORPUS.append({"base": e["base"], "steps": e["steps"]})
    return items, lines, texts


def correspond(ctx: Ctx):
    thorough = ctx.tier == "thorough"
    c_items, c_lines, c_texts = load_corpus()
    texts_stream(ctx, c_texts)
    ast_stream(ctx, 3000 if thorough else 400, 6 if thorough else 5, 1500 if thorough else 160, c_items)
    lines_stream(ctx, 15000 if thorough else 2000, c_lines)
    hist_stream(ctx, 4000 if thorough else 500, HIST_CORPUS)
    ctx.extra.pop("_shrunk", None)


def search(ctx: Ctx):
    """A proof obligation or the tie broke and no failing input is known yet: more programs, other seeds."""
    for extra in range(3):
        if ctx.violations:
            break
        ast_stream(ctx, 400, 5, 200, [])
        lines_stream(ctx, 2000, [])
        hist_stream(ctx, 500, [])
    ctx.extra.pop("_shrunk", None)


def replay(ctx: Ctx, payload):
    from harness import core
    with core.lean_lock():
        ok, out, _ = core.lake_build(["drv_c15"])
    if not ok:
        print(out[-2000:])
        return 2
    if payload.get("kind") == "no-failing-input-found":
        print(json.dumps(payload, indent=1)[:4000])
        return 1
    rp = payload.get("replay", payload)
    if rp.get("stream") == "hist":
        r = ctx.driver.ask({"p": "C15", "k": "hist", "base": rp["base"], "steps": rp["steps"]})["ok"]
        base_text = to_text(r["base"]["lines"])
        texts = [to_text(st["lines"]) for st in r["steps"]]
        base_imp, imps, after = impl_history(base_text, [(s["from"], t) for s, t in zip(rp["steps"], texts)])
        print("base:\n" + base_text, "\n ->", base_imp)
        bad = base_imp != r["base"]["spec"]
        for st, sr, imp, t in zip(rp["steps"], r["steps"], imps, texts):
            want = sr["spec"] if "items" in st else ("err" if sr["misplaced"] else "(no verdict)")
            print("from %d:\n%s\n -> real parser %s, required %s" % (st["from"], t, imp, want))
            if imp != "skip" and want not in ("skip", "(no verdict)") and imp != want:
                bad = True
        if after is not None and (after["records"] != base_imp or after["open"] != 0):
            print("base environment afterwards:", after)
            bad = True
    elif rp.get("stream") == "text":
        imp, _ = impl_run(rp["text"])
        print(rp["text"])
        print("real parser:", imp, " required:", rp["spec"])
        bad = imp != rp["spec"]
    elif rp.get("stream") == "lines" or "lines" in rp and "items" not in rp:
        r = ctx.driver.ask({"p": "C15", "k": "lines", "lines": rp["lines"]})["ok"]
        text = to_text(r["lines"])
        imp, _ = impl_run(text)
        print(text)
        print("misplaced (specification):", r["misplaced"], " real parser:", imp, " model:", r["model"])
        bad = (r["misplaced"] and imp != "err")
    else:
        r = ctx.driver.ask({"p": "C15", "k": "ast", "items": rp["items"]})["ok"]
        deco = rp.get("deco") if rp.get("deco") in ("expr", "undef", "ref", "dyn", "pad", "file") else None
        text = to_text(r["lines"], None, deco, case_contexts(rp["items"]) if deco in ("undef", "ref") else None,
                       top_first_clauses(rp["items"]) if deco == "dyn" else None)
        if deco in ("pad", "file"):
            text = pad_text(text, len(r["lines"]))
        imp, _ = impl_run(text, "file" if deco == "file" else None)
        if deco == "dyn" and imp != "err":
            imp = imp[1:]
        if deco == "expr" and imp != "err":
            imp = imp[1:]
        if deco == "ref" and imp != "err":
            imp = imp[2:]
        print(text)
        print("real parser:", imp, " selected clauses (specification):", r["spec"], " model:", r["model"])
        bad = imp != r["spec"]
    print("VIOLATION reproduced" if bad else "not reproduced: the property holds on this input")
    return 1 if bad else 0
