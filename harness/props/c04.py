"""C04 — linear unit conversion is exact, reversible and dimension-safe.

translator : UNIT_STANDARD / UNIT_PREFIXES / QUANTITY_UNITS -> Generated/C04Tables.lean,
             unit_types.py tables / methods / UNIT_TYPES -> Generated/C05Tables.lean
correspondence : real `Quantity(x,u).value(v)` / `.to(v)`  vs  Lean model (Float) vs Lean spec
"""
import math
import warnings
from fractions import Fraction as F

from harness.core import Ctx
from harness.props import c04c05_units as U

RULE = ("unit expressions are generated from structured item lists (prefix, table symbol, exponent) over all "
        "non-logarithmic, non-offset table symbols incl. constants and #system units; streams: every ordered pair of "
        "table symbols sharing a dimension (quick: sampled, thorough: all) with sampled admissible prefixes and a common "
        "exponent; compound expressions against their base-unit expansion and against symbol-wise replacements; "
        "reciprocal dimension pairs (x != 0); bare number -> rad / mrad / other powers of rad / deg / sr; pairs of "
        "differing dimension (refusal + quantity left as it was); triples u,w,v for round trip and path independence; "
        "the target unit is named in every supported way (string, BaseUnits, dict of exponents, Quantity of magnitude 1 "
        "or another magnitude, Unit().attr, Unit(expr), scaled unit tm*Unit(expr)); histories of 3-8 operations on ONE "
        "Quantity object (scalar or array, source units of factor 1 favoured: value(v) must not change it, to(v) changes it, "
        "reads) and on ONE long-lived Unit() instance (an attribute is converted / used in arithmetic, then the same attribute is used again "
        "as target or source; expected values are history-free x*f(u)/f(v)); "
        "bare numbers that are RESULTS (units cancelling symbol by symbol through a/b, a*b, a**0, parsing m*m-1 or m/m, a zero "
        "exponent; also other-prefix ratios, model-only) converted to rad/mrad/other targets and passed to np.sin; histories "
        "across UnitEnvironment scopes (2-3 successive environments defining the same custom symbols with other magnitudes / "
        "dimensions / prefixes, conversions inside each judged against the definitions current in the table); 30% of the "
        "accepted conversions repeated with an uncertainty attached (same value required); "
        "magnitudes also handed over as numpy arrays / numpy scalars of dtype float32, float16, int32, int64, float64 (20% of "
        "the cases; the value is the number the container holds exactly); every same-dimension pair of tokens whose factors "
        "differ by less than 1e-4 relative but are not equal (26 pairs incl. ly against [c]*yr_j), both directions and as "
        "intermediate unit of a path; targets also named by a dimension vector (list) and a Dimensions object (= the product of "
        "the base units); refused conversions whose multi-atom target fails on a later atom and conversions of another quantity "
        "inside the Quantity histories; refused UnitEnvironment registrations (collision with a prefixed table symbol) followed "
        "by conversions of that prefixed unit; the unit tables re-extracted at the end of the run and compared with the start; "
        "every prefix of the prefix table at least once per run on either side; np.linspace with the first end point a "
        "unit-less Quantity (literal or result of a cancelling division) or a unit, the second end point same-dimension, "
        "dimensionless (%, ppth, PR) or of another dimension (refused); "
        "reciprocal pairs also with arrays holding exact zeros; the empty unit as target in every form; np.sin/cos/tan on "
        "rad, mrad, deg, arcmin, arcsec, bare numbers, powers of rad and other dimensions, np.arcsin/arccos/arctan on plain "
        "numbers, %, PR, ppth, rad, m; augmented assignments (*=, /=, +=, -=) inside the Quantity histories; units written "
        "twice in compound expressions; the documented examples; values from {0, +-1, +-pi, 1e+-30, k*5e-324, random, arrays}. "
        "non-trivial = conversion between two different expressions; distinct = (u, v, value) text")
ASSUMPTIONS = [
    "A1: dimension exponents are small integers/fractions (|num*den| < 1e9), so Fraction.__eq__ (math.isclose on integer "
    "cross products) is integer equality",
    "unit expressions are written from structured items; a token prefix+symbol is generated only if, by the tables alone "
    "(longest table symbol that is a suffix, rest an admissible prefix - the parser is not consulted), it denotes the intended "
    "unit; the same unit may be written twice (km3/km, kg/s/s) and then stands for the summed exponent; numeric literals "
    "inside a target expression (BaseUnits drops them; C03) are not generated",
    "a magnitude given as a numpy array or numpy scalar of any real dtype denotes the number it holds; Magnitude casts it to "
    "float64, so the tolerance is the double-precision one (1e-12); values not representable in the dtype are not generated",
    "np.linspace(first, second, n): the second end point is judged like second.value(first's units) (reciprocal dimensions "
    "follow the reciprocal rule as value() does); a plain-number first argument is not exercised",
    "nearly equal factors are still different factors: the 1e-12 tolerance applies to them as to any pair",
    "an unknown symbol in a target expression (tokens no table symbol is a suffix of) is expected to be refused by C03's parser; "
    "this check only requires that the quantity is unchanged after such a refusal and that later conversions are unaffected; "
    "if the expression is accepted, that step is not judged",
    "a reciprocal conversion of an array is judged element-wise where x_i != 0 and its shape must be the input's; every "
    "accepted conversion must preserve the shape (scalar stays scalar, n elements stay n)",
    "the empty unit as target: value() is judged for BaseUnits() only (None, '' and {} are falsy arguments meaning 'no "
    "conversion requested' by the documented signature), to() for None, {}, BaseUnits(), Quantity(1), Quantity(tm)",
    "np.sin/cos/tan/arcsin/arccos/arctan are judged as f(converted value) with |x_rad| <= 50 (tan: 1.4; arc: |y| <= 0.99), "
    "relative and absolute tolerance 1e-12 (libm vs numpy may differ in the last ulp)",
    "history streams: expected values are computed history-free from the tables (x*f(u)/f(v), followed through q*=k, q/=k, "
    "q+=y v, q-=y v, to(Quantity)), tolerance 1e-12 relative plus 1e-12 of the operands of a sum (cancellation); "
    "impl != model on inputs the specification does not speak about (folded dimensionless compounds -> rad, folded Quantity "
    "targets) is counted and noted, never a failure; unit environments are closed in a finally block",
    "a Quantity-valued target has a scalar magnitude; value() is exercised with string/BaseUnits/dict targets only (it does "
    "not accept a Quantity)",
    "float magnitudes only (no Decimal); results outside [1e-290, 1e290] (overflow, underflow, subnormals) are compared "
    "for accept/refuse but not numerically",
    "reciprocal conversion is judged for x != 0 only (scalar 0 raises ZeroDivisionError, array 0 gives inf)",
    "a dimensionless compound unit (m/km) folded into a bare number by Quantity.__init__ and then converted to rad is "
    "compared with the model but not judged against the specification",
    "Python float ops and C pow are IEEE double operations; the Lean driver repeats them in the same order "
    "(relative tolerance 1e-12 for integer exponents, 1e-9 with fractional exponents)",
    "the uncertainty (error) carried through convert is C06/C08's; only values and units are observed here",
]
EXPLANATION = ("theorems over any field with non-zero factors: value formula, round trip, path independence, reciprocal "
               "rule and its round trip, number->radian, refusal leaves the state unchanged, element-wise on arrays, "
               "to() agrees with value(); rule selection (first accepting class of UNIT_TYPES, temperature/logarithmic "
               "classes decline on units outside their process lists) proved for the regenerated tables")
EXTRA_OBLIGATIONS = []

EXPS = [(1, 1), (1, 1), (1, 1), (2, 1), (-1, 1), (3, 1), (1, 2), (-3, 2), (-2, 1), (2, 3)]
SCALARS = [0.0, 1.0, -1.0, math.pi, -math.pi, 1e30, 1e-30, 2.5, -123456.789, 6.02e23, 1e-9]
UNKNOWN_TOKENS = ["sec", "xyz", "qq", "foo3", "kxyz-1"]      # no table symbol is a suffix of these
QUANTITY_FORMS = ("q1", "qm", "unitattr", "unitcall", "scaled-unit")     # "none" (None) only for the empty unit
FLOAT_EXC = ("ZeroDivisionError", "OverflowError", "FloatingPointError")
FLOAT_ERRORS = (ZeroDivisionError, OverflowError, FloatingPointError)
ARRAYS = [[0.0, 1.0, -2.5], [1e-3, math.pi, 1e30], [5e-324, -1.0, 7.0, 1e-30]]


def gen_tables(ctx):
    return U.gen_c04_tables() + U.gen_c05_tables()


# ------------------------------------------------------------------ generators
def pick_value(rng, nonzero=False):
    r = rng.random()
    if r < 0.12:
        a = list(rng.choice(ARRAYS))
        if nonzero:
            a = [v for v in a if v != 0.0] or [1.0]
        return a
    if r < 0.6:
        x = rng.choice(SCALARS)
    elif r < 0.7:
        x = 5e-324 * rng.randint(1, 1000)
    else:
        x = rng.choice([-1, 1]) * math.exp(rng.uniform(-40, 40))
    if nonzero and x == 0.0:
        x = 1.0
    return x


def pick_prefix(cat, rng, s, p_none=0.35):
    pf = cat.units[s][2]
    if not pf or rng.random() < p_none:
        return None
    return rng.choice(pf)


def frac_items(e):
    e = F(e)
    return (e.numerator, e.denominator)


def expansion(cat, rng, dims, sign=1):
    """items over the eight base units with exponents = (sign *) the dimension vector"""
    items = []
    for name, e in zip(cat.base, dims):
        if e != 0:
            items.append((pick_prefix(cat, rng, name, 0.5), name, frac_items(sign * e)))
    rng.shuffle(items)
    return items


def random_items(cat, rng, nmax=3):
    n = rng.randint(1, nmax)
    syms = rng.sample(cat.linear, n)
    return [(pick_prefix(cat, rng, s), s, rng.choice(EXPS)) for s in syms]


def replace_items(cat, rng, items, groups, sign=1):
    """symbol-wise replacement by a symbol of the same dimension (other prefix), same exponent"""
    out, used = [], set()
    for p, s, (n, d) in items:
        alts = [t for t in groups[cat.dimkey(s)] if t not in used]
        if not alts:
            return None
        t = rng.choice(alts)
        used.add(t)
        out.append((pick_prefix(cat, rng, t), t, (sign * n, d)))
    return out


FORMS = ["str", "str", "str", "baseunits", "dict", "q1", "qm", "qm", "unitattr", "unitcall", "scaled-unit", "dimlist", "dimobj"]
TARGET_MAGS = [2.0, 0.5, -3.0, 1e3, 10.0, 7.25]


def make_case(cat, rng, stream, x, iu, iv, render_rng=None, form=None):
    """`form` = the way the target unit v is named: a string, a BaseUnits object, a dict of
    exponents, a Quantity of magnitude 1 / another magnitude, a `Unit()` attribute, `Unit(v)`,
    or a scaled unit `tm*Unit(v)`."""
    if form is None:
        form = rng.choice(FORMS) if stream != "corpus" else "str"
    if form in DIM_FORMS:
        # a dimension vector names the product of the eight base units with these exponents
        civ = canonical_expansion(cat, cat.dims_of_items(iv))
        if civ:
            iv, render_rng = civ, None
        else:
            form = "str"
    eu = U.render_items(iu, render_rng)
    ev = U.render_items(iv, render_rng)
    tm = None
    if form in ("qm", "scaled-unit"):
        tm = rng.choice(TARGET_MAGS)
    elif form in ("q1", "unitattr", "unitcall"):
        tm = 1.0
    case = {"stream": stream, "x": x, "iu": iu, "iv": iv, "eu": eu, "ev": ev, "form": form, "tm": tm}
    if stream != "corpus" and rng.random() < 0.2:
        with_container(case, rng)
    return case


DIM_FORMS = ("dimlist", "dimobj")
CONTAINERS = ["float32", "float32", "float16", "int32", "int64", "float64", "scalar-float32", "scalar-int64", "scalar-float64"]


def canonical_expansion(cat, dims):
    return [(None, name, (e.numerator, e.denominator)) for name, e in zip(cat.base, dims) if e != 0]


def with_container(case, rng):
    """the magnitude handed over as a numpy array / numpy scalar of another dtype: the value is the number the
    container holds exactly, the conversion is carried out in double precision like for any other magnitude"""
    import numpy as np
    kind = rng.choice(CONTAINERS)
    scalar = kind.startswith("scalar-")
    dt = np.dtype(kind.replace("scalar-", ""))
    xs = U.as_list(case["x"])
    if scalar != (not isinstance(case["x"], list)):
        return                  # scalars stay scalars, arrays stay arrays
    with np.errstate(all="ignore"):
        if dt.kind == "i":
            if any(abs(v) >= 2 ** 31 or v != v for v in xs):
                return
            held = [float(int(round(v))) for v in xs]
        else:
            held = [float(dt.type(v)) for v in xs]
            if any((h in (float("inf"), float("-inf"))) or (h == 0) != (v == 0) for h, v in zip(held, xs)):
                return          # not representable in this dtype
    case["x"] = held[0] if scalar else held
    case["container"] = kind


def contained(case, x):
    import numpy as np
    kind = case.get("container")
    if not kind:
        return list(x) if isinstance(x, list) else x
    dt = np.dtype(kind.replace("scalar-", ""))
    if kind.startswith("scalar-"):
        return dt.type(x)
    return np.array(x, dtype=dt)


def gen_cases(ctx, cat, scale):
    rng = ctx.rng
    thorough = ctx.tier == "thorough"
    groups = cat.by_dimension(cat.linear)
    cases = []
    # -- corpus: documented examples and recon inputs first
    doc = [
        (2.0, [("k", "m", (1, 1))], [(None, "m", (1, 1))]),
        (2.0, [("k", "m", (1, 1))], [("c", "m", (1, 1))]),
        (84.0, [(None, "m", (1, 1))], [("c", "m", (1, 1))]),
        (193.3, [(None, "eV", (1, 1))], [("M", "J", (1, 1))]),
        (4.34, [("k", "g", (1, 1)), (None, "m", (2, 1)), (None, "s", (-2, 1))], [(None, "erg", (1, 1))]),
        (2.0, [(None, "s", (1, 1))], [(None, "Hz", (1, 1))]),
        (23.0, [], [(None, "rad", (1, 1))]),
        (2.0, [], [(None, "rad", (2, 1))]),
        (2.0, [], [(None, "rad", (-1, 1))]),
        (2.0, [], [("m", "rad", (1, 1))]),
        (2.0, [], [(None, "rad", (2, 2))]),
        (2.0, [], [(None, "sr", (1, 1))]),
        (2.0, [], [(None, "deg", (1, 1))]),
        (2.0, [], [(None, "%", (1, 1))]),
        (2.0, [(None, "m", (1, 1))], [(None, "s", (1, 1))]),
        (2.0, [(None, "%", (1, 1))], [(None, "rad", (1, 1))]),
        (23.0, [(None, "K", (1, 1))], [(None, "degR", (1, 1))]),
        (23.0, [(None, "degR", (1, 1))], [("k", "K", (1, 1))]),
        ([1.0, 2.0, 4.0], [(None, "s", (1, 1))], [("k", "Hz", (1, 1))]),
    ]
    for x, iu, iv in doc:
        cases.append(make_case(cat, rng, "corpus", x, iu, iv))
    # the target named in every other way (documented: Quantity(3,'km').to(Unit().m))
    for form in ("baseunits", "dict", "q1", "qm", "unitattr", "unitcall", "scaled-unit"):
        for x, iu, iv in [(3.0, [("k", "m", (1, 1))], [(None, "m", (1, 1))]),
                          (4.0, [(None, "Hz", (1, 1))], [(None, "s", (1, 1))]),
                          (50.0, [(None, "Ohm", (1, 1))], [("m", "S", (1, 1))]),
                          ([0.0, 2.0, 4.0], [(None, "Hz", (1, 1))], [(None, "s", (1, 1))]),
                          (6.0, [(None, "m", (1, 1))], [(None, "s", (1, 1))])]:
            cases.append(make_case(cat, rng, "corpus-forms", x, iu, iv, form=form))
    # -- all / sampled ordered pairs of table symbols sharing a dimension
    pairs = [(u, v) for g in groups.values() for u in g for v in g]
    if not thorough:
        pairs = rng.sample(pairs, min(len(pairs), 500 * scale))
    for u, v in pairs:
        reps = 2 if thorough else 1
        for _ in range(reps):
            e = rng.choice(EXPS)
            iu = [(pick_prefix(cat, rng, u), u, e)]
            iv = [(pick_prefix(cat, rng, v), v, e)]
            cases.append(make_case(cat, rng, "pair", pick_value(rng), iu, iv))
    if thorough:   # every admissible prefix of every symbol at least once, both directions
        for u in cat.linear:
            g = groups[cat.dimkey(u)]
            for p in cat.units[u][2]:
                v = rng.choice(g)
                cases.append(make_case(cat, rng, "prefix", pick_value(rng), [(p, u, (1, 1))],
                                       [(pick_prefix(cat, rng, v), v, (1, 1))]))
                cases.append(make_case(cat, rng, "prefix", pick_value(rng), [(pick_prefix(cat, rng, v), v, (1, 1))],
                                       [(p, u, (1, 1))]))
    # -- every prefix of the prefix table at least once per run (both sides), on a unit that admits it
    for p in cat.prefix_mag:
        admit = [t for t in cat.linear if p in cat.units[t][2]]
        if not admit:
            continue
        for _ in range(2):
            t = rng.choice(admit)
            w = rng.choice(groups[cat.dimkey(t)])
            cases.append(make_case(cat, rng, "every-prefix", pick_value(rng), [(p, t, (1, 1))], [(pick_prefix(cat, rng, w), w, (1, 1))]))
            cases.append(make_case(cat, rng, "every-prefix", pick_value(rng), [(pick_prefix(cat, rng, w), w, (1, 1))], [(p, t, (1, 1))]))
    # -- compound expressions
    for _ in range((3000 if thorough else 350) * scale):
        iu = random_items(cat, rng)
        dims = cat.dims_of_items(iu)
        r = rng.random()
        if r < 0.5:
            iv = expansion(cat, rng, dims)
            if not iv:
                iv = [(None, rng.choice(["%", "PR", "ppth"]), (1, 1))]
        else:
            iv = replace_items(cat, rng, iu, groups)
            if iv is None:
                continue
        cases.append(make_case(cat, rng, "compound", pick_value(rng), iu, iv, rng))
    # -- reciprocal dimension
    for _ in range((1500 if thorough else 200) * scale):
        iu = random_items(cat, rng, 2)
        dims = cat.dims_of_items(iu)
        if all(d == 0 for d in dims):
            continue
        iv = expansion(cat, rng, dims, -1) if rng.random() < 0.5 else replace_items(cat, rng, iu, groups, -1)
        if not iv:
            continue
        x = pick_value(rng, nonzero=True)
        if rng.random() < 0.25:      # an array holding exact zeros next to non-zero elements
            x = rng.choice([[0.0, 2.0, 4.0], [1.0, 0.0, -0.5, 0.0], [0.0, 0.0, 3.0], [2.5, -0.0]])
        cases.append(make_case(cat, rng, "reciprocal", x, iu, iv, rng))
    # reciprocal pairs whose two factors are EQUAL and not 1 (kHz <-> ks, cm-1 <-> cm, mS <-> mOhm): a conversion that
    # skips the scaling "because the factors agree" is right for linear pairs and wrong here (1/(x f^2), not 1/x)
    for iu, iv in [([("k", "Hz", (1, 1))], [("k", "s", (1, 1))]), ([("M", "Hz", (1, 1))], [("M", "s", (1, 1))]),
                   ([("c", "m", (-1, 1))], [("c", "m", (1, 1))]), ([("m", "S", (1, 1))], [("m", "Ohm", (1, 1))]),
                   ([("k", "s", (1, 1))], [("k", "Hz", (1, 1))]), ([("k", "m", (1, 1)), (None, "s", (-1, 1))], [("k", "s", (1, 1)), (None, "m", (-1, 1))])]:
        for x in (pick_value(rng, nonzero=True), 4.0, [2.0, 0.5, -8.0]):
            cases.append(make_case(cat, rng, "reciprocal", x, iu, iv, rng))
    # -- bare number
    for _ in range((300 if thorough else 60) * scale):
        iv = rng.choice([
            [(None, "rad", (1, 1))], [("m", "rad", (1, 1))], [(None, "rad", (2, 1))], [(None, "rad", (-1, 1))],
            [(None, "rad", (1, 2))], [(None, "rad", (3, 3))], [(None, "deg", (1, 1))], [(None, "sr", (1, 1))],
            [(None, "%", (1, 1))], [(None, "m", (1, 1))], [(None, "rad", (1, 1)), (None, "m", (1, 1))],
            [(None, "Hz", (1, 1))], [(None, "PR", (1, 1))], [("m", "rad", (2, 1))],
        ])
        cases.append(make_case(cat, rng, "number", pick_value(rng), [], iv))
    # -- the empty unit (a plain number) as target, named in every way: dimensionless sources scale, others are refused
    dimless = [t for t in cat.linear if all(d == 0 for d in cat.dimkey(t))]
    for _ in range((400 if thorough else 60) * scale):
        r = rng.random()
        if r < 0.45:
            t = rng.choice(dimless)
            iu = [(pick_prefix(cat, rng, t), t, rng.choice([(1, 1), (1, 1), (2, 1), (-1, 1)]))]
        elif r < 0.6:
            iu = []
        else:
            iu = random_items(cat, rng, 2)
        form = rng.choice(["none", "dict", "baseunits", "baseunits", "q1", "qm"])
        c = make_case(cat, rng, "empty-target", pick_value(rng, nonzero=True), iu, [], form="str")
        c.update({"form": form, "empty_target": True,
                  "tm": rng.choice(TARGET_MAGS) if form == "qm" else (1.0 if form == "q1" else None)})
        cases.append(c)
    # -- differing dimension: refusal
    n_ref = (3000 if thorough else 350) * scale
    reps = list(groups.values())
    while n_ref > 0:
        n_ref -= 1
        r = rng.random()
        if r < 0.4:
            iu = [(pick_prefix(cat, rng, s), s, (1, 1)) for s in [rng.choice(rng.choice(reps))]]
            iv = [(pick_prefix(cat, rng, s), s, (1, 1)) for s in [rng.choice(rng.choice(reps))]]
        elif r < 0.7:
            iu = random_items(cat, rng)
            iv = random_items(cat, rng)
        else:   # near miss: same expression with one exponent changed
            iu = random_items(cat, rng)
            iv = list(iu)
            k = rng.randrange(len(iv))
            p, s, (n, d) = iv[k]
            iv[k] = (p, s, (n + rng.choice([1, -1, 2]) * d, d))
        du, dv = cat.dims_of_items(iu), cat.dims_of_items(iv)
        if du == dv or tuple(-a for a in du) == dv:
            continue
        cases.append(make_case(cat, rng, "refuse", pick_value(rng), iu, iv, rng))
    return cases


# ------------------------------------------------------------------ real code
def items_dict(cat, items):
    """the dict form of a unit: {unitid: int | (num, den)} (a fresh dict: BaseUnits keeps and edits it)"""
    return {cat.unitid(p, s): (n if d == 1 else (n, d)) for p, s, (n, d) in items}


def make_target(cat, case):
    """the target object handed to value()/to(), built afresh for every call"""
    from scinumtools.units import Quantity, Unit
    from scinumtools.units.base_units import BaseUnits
    form, ev = case.get("form", "str"), case["ev"]
    if case.get("empty_target"):            # the empty unit (a plain number), named in every way
        if form == "none":
            return None
        if form == "dict":
            return {}
        if form == "baseunits":
            return BaseUnits()
        return Quantity(case["tm"])        # q1 / qm
    if form in DIM_FORMS:
        from scinumtools.units.dimensions import Dimensions
        vec = [(n if d == 1 else (n, d)) for n, d in
               ((e.numerator, e.denominator) for e in cat.dims_of_items(case["iv"]))]
        return vec if form == "dimlist" else Dimensions.from_list(vec)
    if form == "str":
        return ev
    if form == "baseunits":
        return BaseUnits(ev)
    if form == "dict":
        return items_dict(cat, case["iv"])
    if form in ("q1", "qm"):
        return Quantity(case["tm"], ev)
    if form == "unitattr":
        return getattr(Unit(), ev)
    if form == "unitcall":
        return Unit(ev)
    if form == "scaled-unit":
        return case["tm"] * Unit(ev)
    raise ValueError(form)


def build_source(case, **kw):
    """the source quantity: `Quantity(x, u)`, or — for bare numbers that are RESULTS — the arithmetic /
    parsing recipe that makes every unit cancel symbol by symbol"""
    from scinumtools.units import Quantity
    x = case["x"]
    r = case.get("recipe")

    def xx(v):
        return list(v) if isinstance(v, list) else v
    if not r:
        return Quantity(contained(case, x), case["eu"], **kw)
    k = r["kind"]
    if k == "parse":
        return Quantity(xx(x), r["expr"])
    if k == "div":
        return Quantity(xx(r["a"]), r["expr"]) / Quantity(r["b"], r["expr2"])
    if k == "mul":
        return Quantity(xx(r["a"]), r["expr"]) * Quantity(r["b"], r["expr2"])
    if k == "pow0":
        return Quantity(xx(r["a"]), r["expr"]) ** 0
    if k == "dict":
        return Quantity(xx(x), {r["unitid"]: 0})
    raise ValueError(k)


def run_impl(case, cat=None):
    import numpy as np
    from scinumtools.units import Quantity
    cat = cat or U.Catalog()
    x = case["x"]
    out = {}
    qform = case.get("form", "str") in QUANTITY_FORMS
    with warnings.catch_warnings(), np.errstate(all="ignore"):
        warnings.simplefilter("ignore")
        try:
            q = build_source(case)
        except Exception as e:
            return {"init": "err:%s" % type(e).__name__}
        out["before"] = U.snapshot(q)
        out["units0"] = list(q.baseunits.units)
        if qform or (case.get("empty_target") and case["form"] != "baseunits"):
            # value() takes a unit expression, not a Quantity; None / {} mean "no conversion requested"
            out["value"] = "n/a"
        else:
            try:
                v = q.value(make_target(cat, case))
                out["value"] = U.as_list(v)
                out["value_shape"] = list(np.shape(v))
            except Exception as e:
                out["value"] = "err"
                out["value_exc"] = type(e).__name__
        out["mid"] = U.snapshot(q)
        try:
            target = make_target(cat, case)
            out["target_expr"] = target.baseunits.expression if qform else (None if case.get("empty_target") else target_expression(case["ev"]))
        except Exception as e:
            return {"init": "err-target:%s" % type(e).__name__}
        try:
            q.to(target)
            out["to"] = True
        except Exception as e:
            out["to"] = False
            out["to_exc"] = type(e).__name__
        out["after"] = U.snapshot(q)
        out["after_val"] = U.as_list(q.magnitude.value)
        out["after_shape"] = list(np.shape(q.magnitude.value))
        out["after_units"] = list(q.baseunits.units)
        if qform:
            out["target_after"] = U.snapshot(target)
    return out


def target_expression(ev):
    from scinumtools.units.base_units import BaseUnits
    try:
        return BaseUnits(ev).expression
    except Exception as e:      # the expression cannot be constructed at all: reported by the conversion oracles
        return "<not constructible: %s>" % (e.args[:1],)


def judge(ctx, cat, case, imp, res, report=True):
    """Compares impl with model (disagreement) and with spec (violation). Returns list of
    (kind, signature, text)."""
    found = []
    x = case["x"]
    eu = case.get("src") or case["eu"]
    if case.get("container"):
        eu = "%s [magnitude given as numpy %s]" % (eu, case["container"])
    form = case.get("form", "str")
    qform = form in QUANTITY_FORMS
    has_value = imp["value"] != "n/a"
    replay = {"stream": case["stream"], "x": x, "u": case["eu"], "src": case.get("src"), "recipe": case.get("recipe"),
              "env": case.get("env"), "v": case["ev"], "iu": case["iu"], "iv": case["iv"], "form": form, "tm": case.get("tm"),
              "empty_target": case.get("empty_target"), "container": case.get("container")}
    frac = any(d != 1 for _, _, (n, d) in case["iu"] + case["iv"])
    rtol = 1e-9 if frac else 1e-12
    xs = U.as_list(x)
    shape = [len(x)] if isinstance(x, list) else []
    spec = res["spec"]
    kind = spec["kind"]
    # the reciprocal of an array is judged element by element where x_i != 0 (1/0 is not prescribed)
    mask = [i for i, v in enumerate(xs) if v != 0] if kind == "reciprocal" else list(range(len(xs)))

    def M(vals):
        vals = U.as_list(vals)
        return [vals[i] for i in mask] if len(vals) == len(xs) else vals
    sval = U.mag_back(spec["val"])
    if qform and sval is not None:      # in multiples of the target quantity
        sval = [v / case["tm"] for v in U.as_list(sval)]
    f1, f2 = U.b2f(spec["f1"]), U.b2f(spec["f2"])
    numeric_ok = U.in_float_range([f1, f2]) and U.in_float_range([v * f1 for v in M(xs)]) and \
        (sval is None or U.in_float_range(M(sval))) and U.in_float_range(M(xs), lo=1e-300)
    mto = res["toq"] if qform else res["to"]
    tname = "to(%s target)" % form
    # inputs the specification does not speak about (compared with the model, counted, never failing the check):
    # a dimensionless compound (m/km) that Quantity.__init__ folded completely into a bare number, then -> rad;
    # a Quantity target whose units were folded away by its constructor
    u_nodim_nonempty = any(n != 0 for _, _, (n, d) in case["iu"]) and all(d == 0 for d in cat.dims_of_items(case["iu"])) and \
        res["init"]["units"] == [] and imp["units0"] == []
    v_folded = qform and all(d == 0 for d in cat.dims_of_items(case["iv"])) and mto is not None and mto["units"] == [] \
        and bool(case["iv"])
    single_rad = len(case["iv"]) == 1 and case["iv"][0][1] == "rad"
    out_of_domain = (v_folded and kind != "same") or (kind == "refuse" and u_nodim_nonempty and single_rad)
    # ---------- impl vs model
    mv = res["value"]
    m_ok = "ok" in mv
    i_ok = imp["value"] not in ("err", "n/a")
    det = None
    float_exc = (not numeric_ok) and (imp.get("value_exc") in FLOAT_EXC or imp.get("to_exc") in FLOAT_EXC)
    if mto is None:
        det = "driver gave no Quantity-target result"
    elif kind == "reciprocal" and not isinstance(x, list) and xs[0] == 0:
        ctx.count("unjudged.reciprocal-of-zero")      # a scalar 1/0 raises in Python, is inf in IEEE: not prescribed
    elif float_exc:
        ctx.count("unjudged.float-exception")   # e.g. 1/(x*f) with x*f underflowing to 0
    elif has_value and m_ok != i_ok:
        det = "value(): impl %s, model %s" % ("ok" if i_ok else "raises " + imp.get("value_exc", ""), mv)
    elif has_value and m_ok and numeric_ok and not U.close(M(imp["value"]), M(U.mag_back(mv["ok"])), rtol):
        det = "value(): impl %r, model %r" % (imp["value"], U.mag_back(mv["ok"]))
    elif mto["ok"] != imp["to"]:
        det = "%s: impl ok=%s, model ok=%s" % (tname, imp["to"], mto["ok"])
    elif numeric_ok and not U.close(M(imp["after_val"]), M(U.mag_back(mto["val"])), rtol):
        det = "state after %s: impl %r, model %r" % (tname, imp["after_val"], U.mag_back(mto["val"]))
    elif mto["tag"] == 0 and imp["after"] != imp["before"]:
        det = "model keeps the state, impl changed it: %r -> %r" % (imp["before"], imp["after"])
    elif mto["tag"] == 1 and imp["after_units"] != mto["units"]:
        det = "units after %s: impl %r, model %r" % (tname, imp["after_units"], mto["units"])
    elif imp["units0"] != res["init"]["units"]:
        det = "units after construction: impl %r, model %r" % (imp["units0"], res["init"]["units"])
    if det and out_of_domain:
        ctx.count("out-of-domain.model-differs")
        if len(ctx.notes) < 20:
            ctx.notes.append("outside the property's domain, impl != model (not judged): %s -> %s: %s" % (eu, case["ev"], det))
    elif det:
        found.append(("disagreement", case["stream"], det))
    # ---------- impl vs spec (in-domain only)
    sfx = ":quantity-target" if qform else ""
    if out_of_domain:
        ctx.count("unjudged.folded-target" if v_folded else "unjudged.folded-number-to-rad")
    elif kind == "refuse":
        if i_ok or imp["to"]:
            found.append(("violation", "refuse:accepted" + sfx,
                          "conversion between different dimensions %s -> %s (%s) is not refused: value()=%s, to() ok=%s"
                          % (eu, case["ev"], form, imp["value"], imp["to"])))
        elif imp["after"] != imp["before"] or imp["mid"] != imp["before"]:
            found.append(("violation", "refuse:state-changed" + sfx,
                          "refused conversion %s -> %s (target given as %s%s) changed the quantity: %r -> %r"
                          % (eu, case["ev"], form, "" if not qform else " of magnitude %r" % case["tm"],
                             imp["before"], imp["after"])))
    else:
        if kind == "reciprocal" and not mask:
            ctx.count("unjudged.reciprocal-of-zero")
        elif kind == "reciprocal" and not isinstance(x, list) and xs[0] == 0:
            pass
        elif float_exc:
            pass
        elif (has_value and not i_ok) or not imp["to"]:
            found.append(("violation", "%s:refused%s" % (kind, sfx),
                          "%s conversion %s -> %s (%s) of %r is refused (%s)" %
                          (kind, eu, case["ev"], form, x, imp.get("value_exc") or imp.get("to_exc"))))
        elif (has_value and imp.get("value_shape") != shape) or imp.get("after_shape") != shape:
            found.append(("violation", "%s:shape%s" % (kind, sfx),
                          "%s -> %s (%s) of %r: the result has shape value()=%s / to()=%s instead of %s (element-wise conversion)" %
                          (eu, case["ev"], form, x, imp.get("value_shape"), imp.get("after_shape"), shape)))
        elif not numeric_ok:
            ctx.count("unjudged.float-range")
        else:
            want_v = U.mag_back(spec["val"])
            if has_value and not U.close(M(imp["value"]), M(want_v), rtol):
                found.append(("violation", "%s:value" % kind,
                              "%s -> %s (%s) of %r: value() gives %r, the property prescribes %r" %
                              (eu, case["ev"], form, x, imp["value"], want_v)))
            elif not U.close(M(imp["after_val"]), M(sval), rtol):
                found.append(("violation", "%s:to-value%s" % (kind, sfx),
                              "%s -> %s of %r with the target given as %s%s: to() leaves %r, the property prescribes %r" %
                              (eu, case["ev"], x, form, "" if not qform else " of magnitude %r" % case["tm"],
                               imp["after_val"], sval)))
            elif imp["after"][1] != imp["target_expr"]:
                found.append(("violation", "%s:to-units%s" % (kind, sfx),
                              "%s -> %s (%s): after to() the quantity reports units %r" %
                              (eu, case["ev"], form, imp["after"][1])))
            elif imp["mid"] != imp["before"]:
                found.append(("violation", "value:state-changed",
                              "value(%s) changed the quantity %r -> %r" % (case["ev"], imp["before"], imp["mid"])))
    if report:
        for k, sig, text in found:
            if k == "violation":
                ctx.violation(sig, text, replay)
            else:
                ctx.disagreement(sig, replay, text)
    return found


def conv_req(cat, c):
    r = {"k": "conv", "x": U.mag_req(c["x"]), "u": cat.req_items(c["iu"]), "v": cat.req_items(c["iv"])}
    if c.get("form", "str") in QUANTITY_FORMS:
        r["tm"] = U.f2b(c["tm"])
    return r


def uncertain_variant(cat, c, rng):
    """the same conversion with an absolute or relative uncertainty on the operand: (value(), value after to())"""
    import numpy as np
    xs = [abs(v) for v in U.as_list(c["x"])]
    kw = {"abse": (max(xs) or 1.0) * rng.choice([0.5, 0.1, 1e-3])} if rng.random() < 0.6 or min(xs) == 0 else {"rele": rng.choice([50, 10, 1])}
    with warnings.catch_warnings(), np.errstate(all="ignore"):
        warnings.simplefilter("ignore")
        try:
            v = U.as_list(build_source(c, **kw).value(make_target(cat, c)))
            q = build_source(c, **kw)
            q.to(make_target(cat, c))
            return v, U.as_list(q.magnitude.value)
        except Exception:
            return "err"


def run_cases(ctx, cat, cases):
    usable = []
    for c in cases:
        if U.reads_as_intended(cat, c["iu"]) and U.reads_as_intended(cat, c["iv"]) \
                and (c["ev"] is not None or c.get("empty_target")):
            usable.append(c)
        else:
            ctx.count("skipped.token-ambiguous-in-the-grammar")
    reqs = [conv_req(cat, c) for c in usable]
    res = ctx.driver.ask_many(reqs)
    for c, r in zip(usable, res):
        ctx.count("stream." + c["stream"])
        canon = "%s|%s|%r|%s|%r|%s" % (c.get("src") or c["eu"], c["ev"], c["x"], c.get("form"), c.get("tm"), c.get("container"))
        ctx.case(canon, c["eu"] != c["ev"], {"x": c["x"], "u": c["eu"], "v": c["ev"]} if c["stream"] != "corpus" else None)
        if "ok" not in r:
            ctx.disagreement(c["stream"], {"x": c["x"], "u": c["eu"], "v": c["ev"]}, "driver error %s" % r)
            continue
        imp = run_impl(c, cat)
        if "init" in imp:
            if imp["init"].split(":")[-1] in FLOAT_EXC:
                # (prefix*factor)**exponent overflowed while the units were built: a float-range effect
                ctx.count("unjudged.float-exception-in-construction")
            else:
                # every token was checked (from the tables alone) to denote the intended unit: a unit expression of
                # admissible prefixes and table symbols that cannot even be constructed cannot be converted
                ctx.violation("unit-expression-refused",
                              "%s -> %s (%s): constructing the quantity / target raises %s although every token is an admissible "
                              "prefix + table symbol" % (c.get("src") or c["eu"], c["ev"], c.get("form"), imp["init"]),
                              {"stream": c["stream"], "x": c["x"], "u": c["eu"], "v": c["ev"], "iu": c["iu"], "iv": c["iv"],
                               "form": c.get("form"), "tm": c.get("tm")})
            continue
        ctx.count("form." + c.get("form", "str"))
        ctx.count("container." + c.get("container", "python"))
        ctx.count("spec." + r["ok"]["spec"]["kind"])
        ctx.count("value." + ("array" if isinstance(c["x"], list) else "scalar"))
        found = judge(ctx, cat, c, imp, r["ok"])
        # the value of a conversion does not depend on whether an uncertainty is attached
        if not found and not c.get("recipe") and c["eu"] is not None and imp["value"] not in ("err", "n/a") \
                and U.in_float_range(imp["value"]) and ctx.rng.random() < 0.3:
            ctx.count("variant.with-uncertainty")
            got = uncertain_variant(cat, c, ctx.rng)
            if got == "err" or not U.close(got[0], imp["value"], 1e-12) or not U.close(got[1], imp["after_val"], 1e-12):
                ctx.violation("value-depends-on-uncertainty",
                              "%s -> %s of %r: with an uncertainty attached value()/to() give %r, without it %r" %
                              (c["eu"], c["ev"], c["x"], got, (imp["value"], imp["after_val"])),
                              {"stream": c["stream"], "x": c["x"], "u": c["eu"], "v": c["ev"], "iu": c["iu"], "iv": c["iv"],
                               "form": c.get("form"), "tm": c.get("tm"), "with_uncertainty": True})


# ------------------------------------------------------------------ round trip / path independence on the real code
def triple_stream(ctx, cat, count):
    import numpy as np
    from scinumtools.units import Quantity
    rng = ctx.rng
    groups = [g for g in cat.by_dimension(cat.linear).values() if len(g) >= 2]
    for _ in range(count):
        g = rng.choice(groups)
        u, w, v = (rng.choice(g) for _ in range(3))
        e = rng.choice(EXPS)
        iu, iw, iv = ([(pick_prefix(cat, rng, s), s, e)] for s in (u, w, v))
        eu, ew, ev = (U.render_items(i) for i in (iu, iw, iv))
        if not all(U.reads_as_intended(cat, ii) for ii in (iu, iw, iv)):
            ctx.count("skipped.token-ambiguous-in-the-grammar")
            continue
        x = pick_value(rng)
        fs = [cat.factor_exact(i) for i in (iu, iw, iv)]
        ctx.count("stream.triple")
        ctx.case("triple|%s|%s|%s|%r" % (eu, ew, ev, x), len({eu, ew, ev}) == 3, None)
        with warnings.catch_warnings(), np.errstate(all="ignore"):
            warnings.simplefilter("ignore")
            xx = list(x) if isinstance(x, list) else x
            try:
                direct = U.as_list(Quantity(xx, eu).value(ev))
                via = U.as_list(Quantity(xx, eu).to(ew).to(ev).value())
                mid = U.as_list(Quantity(xx, eu).value(ew))
                back = U.as_list(Quantity(xx, eu).to(ev).to(eu).value())
            except FLOAT_ERRORS:
                ctx.count("unjudged.float-exception")
                continue
            except Exception as ex:
                ctx.violation("same:refused", "same-dimension chain %s -> %s -> %s raised %r" % (eu, ew, ev, ex),
                              {"stream": "triple", "x": x, "u": eu, "w": ew, "v": ev})
                continue
        if not (U.in_float_range(direct) and U.in_float_range(via) and U.in_float_range(mid)
                and U.in_float_range(back) and U.in_float_range(U.as_list(x), lo=1e-300)):
            ctx.count("unjudged.float-range")
            continue
        rtol = 1e-9 if e[1] != 1 else 1e-12
        if not U.close(direct, via, rtol):
            ctx.violation("path:intermediate", "%r %s -> %s -> %s gives %r, directly %r" % (x, eu, ew, ev, via, direct),
                          {"stream": "triple", "x": x, "u": eu, "w": ew, "v": ev})
        elif not U.close(back, U.as_list(x), rtol):
            ctx.violation("path:roundtrip", "%r %s -> %s -> %s returns %r" % (x, eu, ev, eu, back),
                          {"stream": "triple", "x": x, "u": eu, "w": ew, "v": ev})


# ------------------------------------------------------------------ bare numbers that are results
NUMBER_TARGETS = [
    [(None, "rad", (1, 1))], [(None, "rad", (1, 1))], [("m", "rad", (1, 1))], [(None, "rad", (2, 1))],
    [(None, "rad", (-1, 1))], [(None, "deg", (1, 1))], [(None, "sr", (1, 1))], [(None, "%", (1, 1))],
    [(None, "m", (1, 1))], [(None, "rad", (3, 3))], [(None, "PR", (1, 1))],
]


def gen_result_numbers(cat, rng, count):
    """bare numbers produced by units cancelling exactly symbol by symbol — by arithmetic (a/b, a*b, a**0),
    by parsing (`m*m-1`, `m/m`) or by a zero exponent — then converted like any bare number"""
    out = []
    dimensional = [t for t in cat.linear if any(d != 0 for d in cat.dimkey(t))]
    for _ in range(count):
        s_ = rng.choice(dimensional)
        p, e = pick_prefix(cat, rng, s_), rng.choice([(1, 1), (1, 1), (2, 1), (-1, 1), (1, 2)])
        it = [(p, s_, e)]
        inv = [(p, s_, (-e[0], e[1]))]
        expr, expr_inv = U.render_items(it), U.render_items(inv)
        a = pick_value(rng)
        b = rng.choice([2.0, 4.0, 0.5, -8.0, 200.0])
        kind = rng.choice(["parse", "parse-div", "div", "div", "mul", "pow0", "dict", "div-prefix"])
        zero = [(p, s_, (0, e[1] * e[1]))]
        arr = isinstance(a, list)
        if kind == "parse":
            case = {"x": a, "iu": zero, "recipe": {"kind": "parse", "expr": expr + "*" + expr_inv}, "src": "Quantity(x,'%s*%s')" % (expr, expr_inv)}
        elif kind == "parse-div":
            case = {"x": a, "iu": zero, "recipe": {"kind": "parse", "expr": expr + "/" + expr}, "src": "Quantity(x,'%s/%s')" % (expr, expr)}
        elif kind == "div":
            x = [v / b for v in a] if arr else a / b
            case = {"x": x, "iu": zero, "recipe": {"kind": "div", "a": a, "b": b, "expr": expr, "expr2": expr},
                    "src": "Quantity(%r,'%s')/Quantity(%r,'%s')" % (a, expr, b, expr)}
        elif kind == "mul":
            x = [v * b for v in a] if arr else a * b
            case = {"x": x, "iu": zero, "recipe": {"kind": "mul", "a": a, "b": b, "expr": expr, "expr2": expr_inv},
                    "src": "Quantity(%r,'%s')*Quantity(%r,'%s')" % (a, expr, b, expr_inv)}
        elif kind == "pow0":
            if (arr and any(v == 0 for v in a)) or a == 0:
                continue
            x = [1.0 for _ in a] if arr else 1.0
            case = {"x": x, "iu": zero, "recipe": {"kind": "pow0", "a": a, "expr": expr}, "src": "Quantity(%r,'%s')**0" % (a, expr)}
        elif kind == "dict":
            case = {"x": a, "iu": zero, "recipe": {"kind": "dict", "unitid": cat.unitid(p, s_)}, "src": "Quantity(x,{'%s':0})" % cat.unitid(p, s_)}
        else:   # other prefix on the right: the ratio of the factors is folded into the number (compared with the model only)
            alts = [q for q in cat.units[s_][2] if q != p]
            if not alts:
                continue
            p2 = rng.choice(alts)
            expr2 = U.render_items([(p2, s_, e)])
            x = [v / b for v in a] if arr else a / b
            case = {"x": x, "iu": [(p, s_, e), (p2, s_, (-e[0], e[1]))],
                    "recipe": {"kind": "div", "a": a, "b": b, "expr": expr, "expr2": expr2},
                    "src": "Quantity(%r,'%s')/Quantity(%r,'%s')" % (a, expr, b, expr2)}
        iv = rng.choice(NUMBER_TARGETS)
        form = rng.choice(["str", "str", "str", "baseunits", "unitattr", "q1"])
        case.update({"stream": "result-number", "iv": iv, "eu": None, "ev": U.render_items(iv), "form": form,
                     "tm": 1.0 if form in QUANTITY_FORMS else None})
        out.append(case)
    return out


def result_number_functions(ctx, cat, cases):
    """np.sin & co. convert their argument to rad: a bare number that is a result must be accepted"""
    import numpy as np
    for c in cases:
        if any(n != 0 for _, _, (n, d) in c["iu"]) or isinstance(c["x"], list) or not (abs(c["x"]) < 1e6):
            continue
        ctx.count("stream.result-number-sin")
        with warnings.catch_warnings(), np.errstate(all="ignore"):
            warnings.simplefilter("ignore")
            try:
                q = build_source(c)
                if q.units() is not None:
                    continue
                got = float(np.sin(q).value())
            except FLOAT_ERRORS:
                ctx.count("unjudged.float-exception")
                continue
            except Exception as e:
                got = "raises %r" % (e,)
        want = math.sin(c["x"])
        if isinstance(got, str) or not U.close(got, want, 1e-12, 1e-15):
            ctx.violation("numberToRad:sin", "np.sin(%s) %s, sin of the bare number %r is %r" % (c["src"], got, c["x"], want),
                          {"stream": "result-number-sin", "src": c["src"], "recipe": c["recipe"], "x": c["x"]})


# ------------------------------------------------------------------ trigonometric functions = conversion to / from radians
def trig_stream(ctx, cat, count):
    """np.sin/cos/tan convert their argument to rad, np.arcsin/arccos/arctan to a plain number: prefixed radians,
    degrees, bare numbers (literal or results) follow x*f(u)/f(rad); other dimensions and powers of rad are refused"""
    import numpy as np
    from scinumtools.units import Quantity
    rng = ctx.rng
    angle_units = [[(None, "rad", (1, 1))], [("m", "rad", (1, 1))], [(None, "deg", (1, 1))], [(None, "'", (1, 1))],
                   [(None, "''", (1, 1))], [], [(None, "rad", (2, 1))], [("m", "rad", (2, 1))], [(None, "rad", (-1, 1))],
                   [(None, "m", (1, 1))], [(None, "%", (1, 1))], [(None, "sr", (1, 1))], [(None, "rad", (2, 2))]]
    number_units = [[], [(None, "%", (1, 1))], [(None, "PR", (1, 1))], [(None, "ppth", (1, 1))], [(None, "rad", (1, 1))],
                    [("m", "rad", (1, 1))], [(None, "m", (1, 1))], [(None, "deg", (1, 1))]]
    cases = []
    for _ in range(count):
        fn = rng.choice(["sin", "cos", "tan", "arcsin", "arccos", "arctan"])
        arc = fn.startswith("arc")
        iu = rng.choice(number_units if arc else angle_units)
        f = cat.factor_exact(iu)
        f = float(f) if f is not None else 1.0
        lim = 0.99 if arc else (1.4 if fn == "tan" else 50.0)
        n = rng.choice([0, 0, 3])
        ys = [rng.uniform(-lim, lim) for _ in range(max(1, n))]
        x = [y / f for y in ys] if n else ys[0] / f
        cases.append({"fn": fn, "x": x, "iu": iu, "iv": [] if arc else [(None, "rad", (1, 1))], "eu": U.render_items(iu)})
    res = ctx.driver.ask_many([{"k": "conv", "x": U.mag_req(c["x"]), "u": cat.req_items(c["iu"]), "v": cat.req_items(c["iv"])}
                               for c in cases])
    for c, r in zip(cases, res):
        ctx.count("stream.trig")
        ctx.count("trig." + c["fn"])
        ctx.case("trig|%s|%s|%r" % (c["fn"], c["eu"], c["x"]), True, {"np": c["fn"], "x": c["x"], "u": c["eu"]} if c["fn"] == "cos" else None)
        replay = {"stream": "trig", "function": c["fn"], "x": c["x"], "u": c["eu"], "iu": c["iu"]}
        if "ok" not in r:
            ctx.disagreement("trig", replay, "driver error %s" % r)
            continue
        r = r["ok"]
        with warnings.catch_warnings(), np.errstate(all="ignore"):
            warnings.simplefilter("ignore")
            try:
                q = Quantity(list(c["x"]) if isinstance(c["x"], list) else c["x"], c["eu"])
                out = getattr(np, c["fn"])(q)
                got, gunits, gshape = U.as_list(out.value()), out.units(), list(np.shape(out.value()))
            except Exception as e:
                got, gunits = "err", repr(e)[:100]
        pyf = getattr(np, c["fn"])
        kind = r["spec"]["kind"]
        want = None if r["spec"]["val"] is None else [float(pyf(v)) for v in U.as_list(U.mag_back(r["spec"]["val"]))]
        mwant = None if "ok" not in r["value"] else [float(pyf(v)) for v in U.as_list(U.mag_back(r["value"]["ok"]))]
        if (got == "err") != (mwant is None) or (mwant is not None and not U.close(got, mwant, 1e-12, 1e-12)):
            ctx.disagreement("trig", replay, "np.%s(Quantity(%r,%r)): impl %r, model %r" % (c["fn"], c["x"], c["eu"], got, mwant))
        if kind == "refuse":
            if got != "err":
                ctx.violation("trig:%s:accepted" % c["fn"],
                              "np.%s(Quantity(%r, %r)) is not refused (gives %r) although %s does not convert to %s" %
                              (c["fn"], c["x"], c["eu"], got, c["eu"], "a plain number" if not c["iv"] else "rad"), replay)
        elif got == "err":
            ctx.violation("trig:%s:refused" % c["fn"], "np.%s(Quantity(%r, %r)) raises %s" % (c["fn"], c["x"], c["eu"], gunits), replay)
        elif not U.close(got, want, 1e-12, 1e-12) or gshape != ([len(c["x"])] if isinstance(c["x"], list) else []):
            ctx.violation("trig:%s:value" % c["fn"],
                          "np.%s(Quantity(%r, %r)) gives %r; %s of the value converted by x*f(u)/f(v) is %r" %
                          (c["fn"], c["x"], c["eu"], got, c["fn"], want), replay)
        elif gunits != ("rad" if not c["iv"] else None):
            ctx.violation("trig:%s:units" % c["fn"], "np.%s(Quantity(%r, %r)) reports units %r" % (c["fn"], c["x"], c["eu"], gunits), replay)


# ------------------------------------------------------------------ np.linspace: the second end point is converted
def linspace_stream(ctx, cat, count):
    """np.linspace(first, second, n) expresses the second end point in the first one's units: x*f(u)/f(v) for the same
    dimension, refused otherwise; the first end point may be a unit-less Quantity (a literal number or the result of a
    cancelling division): then dimensionless table units (%, ppth, PR) are converted and anything dimensional is refused"""
    import numpy as np
    from scinumtools.units import Quantity
    rng = ctx.rng
    groups = cat.by_dimension(cat.linear)
    dimless = [t for t in cat.linear if all(d == 0 for d in cat.dimkey(t))]
    dimensional = [t for t in cat.linear if any(d != 0 for d in cat.dimkey(t))]
    cases = []
    for _ in range(count):
        r = rng.random()
        start = rng.choice([2.0, 0.0, -1.5, 10.0])
        if r < 0.5:                      # unit-less first end point
            first = rng.choice(["literal", "division", "division"])
            iv = []
            t = rng.choice(dimless) if rng.random() < 0.5 else rng.choice(dimensional)
            iu = [(pick_prefix(cat, rng, t), t, (1, 1))]
        else:
            first = "unit"
            t = rng.choice(cat.linear)
            iv = [(pick_prefix(cat, rng, t), t, (1, 1))]
            w = rng.choice(groups[cat.dimkey(t)]) if rng.random() < 0.7 else rng.choice(cat.linear)
            iu = [(pick_prefix(cat, rng, w), w, (1, 1))]
        if not (U.reads_as_intended(cat, iu) and U.reads_as_intended(cat, iv)):
            continue
        cases.append({"first": first, "start": start, "iv": iv, "iu": iu, "x": rng.choice([5.0, 50000.0, -3.0, 0.25, 1e6]),
                      "n": rng.choice([2, 3, 5])})
    res = ctx.driver.ask_many([{"k": "conv", "x": U.mag_req(c["x"]), "u": cat.req_items(c["iu"]), "v": cat.req_items(c["iv"])}
                               for c in cases])
    for c, r in zip(cases, res):
        eu, ev = U.render_items(c["iu"]), U.render_items(c["iv"])
        ctx.count("stream.linspace")
        ctx.count("linspace.first-" + c["first"])
        desc = {"literal": "Quantity(%r)" % c["start"], "division": "Quantity(%r,'m')/Quantity(4.0,'m')" % (4 * c["start"]),
                "unit": "Quantity(%r,%r)" % (c["start"], ev)}[c["first"]]
        ctx.case("linspace|%s|%s|%r|%d" % (desc, eu, c["x"], c["n"]), True, {"linspace": [desc, c["x"], eu, c["n"]]} if c["first"] == "division" else None)
        replay = {"stream": "linspace", "first": desc, "x": c["x"], "u": eu, "n": c["n"], "iu": c["iu"], "iv": c["iv"]}
        if "ok" not in r:
            ctx.disagreement("linspace", replay, "driver error %s" % r)
            continue
        kind = r["ok"]["spec"]["kind"]
        with warnings.catch_warnings(), np.errstate(all="ignore"):
            warnings.simplefilter("ignore")
            try:
                if c["first"] == "literal":
                    a = Quantity(c["start"])
                elif c["first"] == "division":
                    a = Quantity(4 * c["start"], "m") / Quantity(4.0, "m")
                else:
                    a = Quantity(c["start"], ev)
                out = np.linspace(a, Quantity(c["x"], eu), c["n"])
                got, gunits = U.as_list(out.value()), out.units()
            except FLOAT_ERRORS:
                ctx.count("unjudged.float-exception")
                continue
            except Exception as e:
                got, gunits = "err", repr(e)[:120]
        if kind == "refuse":
            if got != "err":
                ctx.violation("linspace:accepted", "np.linspace(%s, Quantity(%r,%r), %d) = %r is not refused although %s does not "
                              "convert to %s" % (desc, c["x"], eu, c["n"], got, eu, ev or "a plain number"), replay)
            continue
        if kind == "numberToRad":
            continue
        want = U.as_list(U.mag_back(r["ok"]["spec"]["val"]))[0]
        if not U.in_float_range([want]):
            ctx.count("unjudged.float-range")
        elif got == "err":
            ctx.violation("linspace:refused", "np.linspace(%s, Quantity(%r,%r), %d) raises %s" % (desc, c["x"], eu, c["n"], gunits), replay)
        elif len(got) != c["n"] or not U.close(got[0], c["start"], 1e-12) or not U.close(got[-1], want, 1e-12) \
                or gunits != (target_expression(ev) if ev else None):
            ctx.violation("linspace:endpoint", "np.linspace(%s, Quantity(%r,%r), %d) = %r %s; the second end point converted by "
                          "x*f(u)/f(v) is %r" % (desc, c["x"], eu, c["n"], got, gunits, want), replay)


# ------------------------------------------------------------------ histories across unit environments
ENV_SYMBOLS = ["ulen", "utim", "umas", "uqx"]


def gen_env_definition(cat, rng):
    """a custom unit: given as a Quantity or as magnitude + dimensions, with or without prefixes"""
    from scinumtools.units import Quantity
    if rng.random() < 0.5:
        items = random_items(cat, rng, 2)
        items = [(p, s_, (n, 1)) for p, s_, (n, d) in items]
        m = rng.choice([1.0, 2.5, 1e3, 3.0857e16, 1e-7])
        return ("quantity", m, U.render_items(items), None)
    s_ = rng.choice(cat.linear)
    dims = [n if d == 1 else (n, d) for n, d in cat.units[s_][1]]
    return ("dict", rng.choice([1.0, 12.5, 1e-3, 6.02e23, 1e10]), dims, rng.choice([False, False, True, ["k", "m"]]))


def make_env_units(defs):
    from scinumtools.units import Quantity
    units = {}
    for sym, (kind, m, what, prefixes) in defs.items():
        if kind == "quantity":
            units[sym] = Quantity(m, what)
        else:
            units[sym] = {"magnitude": m, "dimensions": list(what), "prefixes": prefixes}
    return units


def gen_env_cases(cat, rng, syms, prev_dims):
    groups = cat.by_dimension(cat.linear)
    cases = []
    for s_ in syms:
        dk = cat.dimkey(s_)
        partners = [t for t in groups[dk] if t != s_]
        for _ in range(4):
            iu = [(pick_prefix(cat, rng, s_), s_, rng.choice([(1, 1), (1, 1), (2, 1), (-1, 1)]))]
            dims = cat.dims_of_items(iu)
            if partners and rng.random() < 0.6:
                t = rng.choice(partners)
                iv = [(pick_prefix(cat, rng, t), t, iu[0][2])]
            else:
                iv = expansion(cat, rng, dims) or [(None, "%", (1, 1))]
            x = pick_value(rng)
            cases.append(make_case(cat, rng, "env-history", x, iu, iv))
            cases.append(make_case(cat, rng, "env-history", pick_value(rng), iv, iu))
        # compound with another unit, against its base expansion; reciprocal
        t = rng.choice(cat.linear)
        if t != s_:
            iu = [(pick_prefix(cat, rng, s_), s_, (1, 1)), (pick_prefix(cat, rng, t), t, (-1, 1))]
            iv = expansion(cat, rng, cat.dims_of_items(iu))
            if iv:
                cases.append(make_case(cat, rng, "env-history", pick_value(rng), iu, iv, rng))
        if any(d != 0 for d in dk):
            iu = [(None, s_, (1, 1))]
            cases.append(make_case(cat, rng, "env-history", pick_value(rng, nonzero=True), iu, expansion(cat, rng, dk, -1)))
        # refusal: another dimension — in particular the one the symbol had in an earlier environment
        others = []
        if s_ in prev_dims and prev_dims[s_] != dk and prev_dims[s_] in groups:
            others.append(rng.choice(groups[prev_dims[s_]]))
        others.append(rng.choice(cat.linear))
        for t in others:
            dt = cat.dimkey(t)
            if dt == dk or tuple(-a for a in dt) == dk or t == s_:
                continue
            cases.append(make_case(cat, rng, "env-history", pick_value(rng), [(None, s_, (1, 1))], [(pick_prefix(cat, rng, t), t, (1, 1))]))
            cases.append(make_case(cat, rng, "env-history", pick_value(rng), [(pick_prefix(cat, rng, t), t, (1, 1))], [(None, s_, (1, 1))]))
    return cases


def env_history_stream(ctx, count):
    """custom units registered through UnitEnvironment, used, the scope closed, and the SAME symbols registered again
    with another magnitude / dimension: every conversion follows the definition that is in the table now"""
    from scinumtools.units import UnitEnvironment
    rng = ctx.rng
    base_cat = U.Catalog()
    fixed = [
        [{"ulen": ("quantity", 1.0, "pc", None), "utim": ("quantity", 1.0, "kyr", None)},
         {"ulen": ("quantity", 1.0, "kpc", None), "utim": ("dict", 1.0, [0, 1, 0, 0, 0, 0, 0, 0], False)}],
    ]
    hists = list(fixed)
    for _ in range(count):
        h, syms = [], rng.sample(ENV_SYMBOLS, rng.randint(1, 3))
        for _ in range(rng.randint(2, 3)):
            h.append({s_: gen_env_definition(base_cat, rng) for s_ in syms})
            if rng.random() < 0.3:
                syms = list(set(syms + [rng.choice(ENV_SYMBOLS)]))
        hists.append(h)
    for h in hists:
        prev_dims = {}
        ctx.count("stream.env-histories")
        for defs in h:
            try:
                env = UnitEnvironment(make_env_units(defs))
            except Exception:
                ctx.count("skipped.environment-not-accepted")
                continue
            try:
                cat = U.Catalog()          # the tables as they are NOW
                cases = gen_env_cases(cat, rng, list(defs), prev_dims)
                for c in cases:
                    c["env"] = {k: list(v) for k, v in defs.items()}
                run_cases(ctx, cat, cases)
                for s_ in defs:
                    prev_dims[s_] = cat.dimkey(s_)
            finally:
                env.close()
        # a REFUSED environment (its symbol collides with a prefixed table symbol) must leave the tables as they were:
        # conversions of that prefixed unit, and of others, are judged again against the original tables
        pre_syms = [t for t in base_cat.linear if len(base_cat.units[t][2]) > 5 and not t.startswith(("#", "["))]
        t = rng.choice(pre_syms)
        p_ = rng.choice(base_cat.units[t][2])
        clash = p_ + t
        if clash in base_cat.units:
            continue
        defs = {"uzz": ("dict", 7.0, [1, 0, 0, 0, 0, 0, 0, 0], False),
                clash: ("dict", rng.choice([2.0, 1e5, 1e-9]), [n if d == 1 else (n, d) for n, d in base_cat.units[rng.choice(base_cat.linear)][1]], False)}
        ctx.count("env-history.refused-registrations")
        try:
            env = UnitEnvironment(make_env_units(defs))
            env.close()                      # accepted after all: nothing to re-judge
            continue
        except Exception:
            pass
        groups = base_cat.by_dimension(base_cat.linear)
        cases = []
        for _ in range(6):
            w = rng.choice(groups[base_cat.dimkey(t)])
            for iu, iv in (([(p_, t, (1, 1))], [(pick_prefix(base_cat, rng, w), w, (1, 1))]),
                           ([(pick_prefix(base_cat, rng, w), w, (1, 1))], [(p_, t, (1, 1))])):
                c = make_case(base_cat, rng, "after-refused-env", pick_value(rng), iu, iv)
                c["env"] = {"refused": {k: list(v) for k, v in defs.items()}}
                cases.append(c)
        for _ in range(6):
            iu = random_items(base_cat, rng, 2)
            iv = expansion(base_cat, rng, base_cat.dims_of_items(iu))
            if iv:
                cases.append(make_case(base_cat, rng, "after-refused-env", pick_value(rng), iu, iv, rng))
        run_cases(ctx, base_cat, cases)


def tables_still_as_generated(ctx):
    """the unit tables the run started with (and Generated/C04Tables.lean was written from) must still be the tables
    at its end: nothing a unit environment registered may be left"""
    try:
        now = U.render_c04_tables(U.extract_c04_tables())
    except Exception as e:
        ctx.notes.append("unit tables could not be re-extracted at the end of the run: %r" % (e,))
        return
    if (U.GEN / "C04Tables.lean").read_text() != now:
        from scinumtools.units import settings
        ctx.violation("tables:changed-during-run",
                      "UNIT_STANDARD / UNIT_PREFIXES at the end of the run differ from the tables at its start "
                      "(symbols now: …%s)" % list(settings.UNIT_STANDARD.keys())[-4:], {"stream": "tables"})


# ------------------------------------------------------------------ histories on one Quantity object
def gen_quantity_history(cat, rng, groups):
    """one quantity (scalar or array), then a sequence of value(v) (must not change it), to(v) (changes it) and
    reads, with the targets named in all ways; every expected number is x*f(u0)/f(v) (over the target magnitudes)"""
    g = rng.choice(groups)
    ones = [s for s in g if cat.units[s][0] == 1.0]
    u0s = rng.choice(ones) if ones and rng.random() < 0.6 else rng.choice(g)
    iu = [(None if rng.random() < 0.6 else pick_prefix(cat, rng, u0s), u0s, (1, 1))]
    x = rng.choice([[2.0, -0.5, 0.0, 1e30], [1.0, 2.0, 4.0], [7.25]]) if rng.random() < 0.6 else rng.choice([3.0, 7.25, -0.5, 1e6])
    ops = []
    for _ in range(rng.randint(3, 6)):
        t = rng.choice(g)
        iv = [(pick_prefix(cat, rng, t), t, (1, 1))]
        r = rng.random()
        if r < 0.1:
            # a refused conversion whose multi-atom target fails on a later atom (unknown symbol in 2nd / 3rd position),
            # through to() or value(): the quantity stays as it was and whatever follows is unaffected
            good = [(pick_prefix(cat, rng, w), w, rng.choice([(1, 1), (-1, 1)])) for w in rng.sample(g, min(2, len(g)))]
            expr = "*".join(U.render_items([i]) for i in good[:rng.randint(1, 2)]) + rng.choice(["*", "/"]) + rng.choice(UNKNOWN_TOKENS)
            if rng.random() < 0.4:
                expr += "*" + U.render_items([good[0]])
            ops.append({"op": rng.choice(["bad_to", "bad_to", "bad_value"]), "expr": expr, "iv": None, "form": None, "tm": None})
            continue
        if r < 0.17:      # … including a conversion of ANOTHER quantity
            a, b = rng.choice(g), rng.choice(g)
            ops.append({"op": "other", "x2": rng.choice([5.0, 2.0, -0.25, 1e3]), "iu2": [(pick_prefix(cat, rng, a), a, (1, 1))],
                        "iv": [(pick_prefix(cat, rng, b), b, (1, 1))], "form": None, "tm": None})
            continue
        if r < 0.3:      # augmented assignment is the binary operation: q *= k, q /= k, q += other, q -= other
            k = rng.choice(["imul", "idiv", "iadd", "isub"])
            if k in ("imul", "idiv"):
                ops.append({"op": k, "k": rng.choice([3.0, 0.5, -2.0, 10.0]), "iv": None, "form": None, "tm": None})
            else:
                ops.append({"op": k, "y": rng.choice([1.0, 2.5, -4.0, 100.0]), "iv": iv, "form": None, "tm": None})
        elif r < 0.45:
            ops.append({"op": "value", "iv": iv, "form": rng.choice(["str", "str", "baseunits", "dict"]), "tm": None})
        elif r < 0.85:
            form = rng.choice(FORMS)
            if form in DIM_FORMS:
                iv = canonical_expansion(cat, cat.dims_of_items(iv)) or iv
                form = form if iv and all(p is None for p, _, _ in iv) and all(t in cat.base for _, t, _ in iv) else "str"
            tm = rng.choice(TARGET_MAGS) if form in ("qm", "scaled-unit") else (1.0 if form in QUANTITY_FORMS else None)
            ops.append({"op": "to", "iv": iv, "form": form, "tm": tm})
        else:
            ops.append({"op": "read", "iv": None, "form": None, "tm": None})
    return x, iu, ops


def run_quantity_history(cat, x, iu, ops):
    import numpy as np
    from scinumtools.units import Quantity
    out = []
    with warnings.catch_warnings(), np.errstate(all="ignore"):
        warnings.simplefilter("ignore")
        q = Quantity(list(x) if isinstance(x, list) else x, U.render_items(iu))
        for o in ops:
            try:
                if o["op"] == "read":
                    out.append((U.as_list(q.value()), q.units()))
                    continue
                if o["op"] in ("bad_to", "bad_value"):
                    try:
                        q.to(o["expr"]) if o["op"] == "bad_to" else q.value(o["expr"])
                        out.append(("noraise", None))
                    except Exception:
                        out.append((U.as_list(q.value()), q.units()))
                    continue
                if o["op"] == "other":
                    out.append((U.as_list(Quantity(o["x2"], U.render_items(o["iu2"])).value(U.render_items(o["iv"]))), None))
                    continue
                if o["op"] in ("imul", "idiv", "iadd", "isub"):
                    if o["op"] == "imul":
                        q *= o["k"]
                    elif o["op"] == "idiv":
                        q /= o["k"]
                    elif o["op"] == "iadd":
                        q += Quantity(o["y"], U.render_items(o["iv"]))
                    else:
                        q -= Quantity(o["y"], U.render_items(o["iv"]))
                    out.append((U.as_list(q.value()), q.units()))
                    continue
                target = make_target(cat, {"form": o["form"], "ev": U.render_items(o["iv"]), "iv": o["iv"], "tm": o["tm"]})
                if o["op"] == "value":
                    out.append((U.as_list(q.value(target)), None))
                else:
                    q.to(target)
                    out.append((U.as_list(q.value()), q.units()))
            except Exception as e:
                out.append(("err", repr(e)[:120]))
    return out


def near_equal_stream(ctx, cat):
    """every pair of same-dimension units whose factors are nearly but not exactly equal (relative difference below
    1e-4): the conversion still multiplies by factor(u)/factor(v); also as intermediate unit of a path"""
    rng = ctx.rng
    pairs = U.near_equal_pairs(cat)
    groups = cat.by_dimension(cat.linear)
    cases, hists = [], []
    for a, b, r in pairs:
        for u, v in ((a, b), (b, a)):
            for x in (1.0, rng.choice([3.0, -7.25, 6.02e23, [1.0, 2.0, 4.0]])):
                cases.append(make_case(cat, rng, "near-equal", x, u, v, form=rng.choice(["str", "str", "baseunits", "q1", "unitcall"])))
            g = groups.get(cat.dims_of_items(u))
            if g:
                w = rng.choice(g)
                hists.append((rng.choice([2.0, 5.5, [1.0, -3.0]]), u,
                              [{"op": "to", "iv": v, "form": "str", "tm": None},
                               {"op": "to", "iv": [(pick_prefix(cat, rng, w), w, (1, 1))], "form": "str", "tm": None},
                               {"op": "read", "iv": None, "form": None, "tm": None}]))
    for c in cases:
        c.pop("container", None)
    ctx.count("near-equal.pairs", len(pairs))
    run_cases(ctx, cat, cases)
    return hists


def quantity_history_stream(ctx, cat, count, extra=()):
    from harness.util import shrink_list
    rng = ctx.rng
    groups = [g for g in cat.by_dimension(cat.linear).values() if len(g) >= 2]
    hist = [([1.0, 2.0, 4.0], [(None, "m", (1, 1))],
             [{"op": "value", "iv": [("k", "m", (1, 1))], "form": "str", "tm": None},
              {"op": "value", "iv": [("c", "m", (1, 1))], "form": "str", "tm": None},
              {"op": "read", "iv": None, "form": None, "tm": None},
              {"op": "to", "iv": [("m", "m", (1, 1))], "form": "unitattr", "tm": 1.0}])]
    hist += list(extra)
    for _ in range(count):
        hist.append(gen_quantity_history(cat, rng, groups))
    hist = [(x, iu, ops) for x, iu, ops in hist
            if U.reads_as_intended(cat, iu)
            and all((o.get("iv") is None or U.reads_as_intended(cat, o["iv"])) and
                    (o.get("iu2") is None or U.reads_as_intended(cat, o["iu2"])) for o in ops)]
    reqs, atols = [], []
    for x, iu, ops in hist:
        amp = 0.0
        # `base`: the quantity's value expressed in its first unit u0, followed through the mutating steps
        # (q *= k, q /= k, q += y v, q -= y v, and to(Quantity(tm, v)), which re-expresses it in multiples of tm v)
        cur, base, f0 = iu, list(x) if isinstance(x, list) else x, cat.factor_exact(iu)

        def upd(b, f):
            return [f(v) for v in b] if isinstance(b, list) else f(b)
        for o in ops:
            k = o["op"]
            if k == "imul":
                base = upd(base, lambda v: v * o["k"])
            elif k == "idiv":
                base = upd(base, lambda v: v / o["k"])
            elif k in ("iadd", "isub"):
                dy = o["y"] * float(cat.factor_exact(o["iv"]) / f0) * (1 if k == "iadd" else -1)
                amp = max([amp, abs(dy)] + [abs(v) for v in U.as_list(base)])     # operands of a possibly cancelling sum
                base = upd(base, lambda v: v + dy)
            elif k == "to" and o["tm"]:
                base = upd(base, lambda v: v / o["tm"])
            if k == "to":
                cur = o["iv"]
            if k == "other":
                reqs.append({"k": "conv", "x": U.mag_req(o["x2"]), "u": cat.req_items(o["iu2"]), "v": cat.req_items(o["iv"])})
                atols.append(0.0)
                continue
            tgt = o["iv"] if k in ("value", "to") else cur
            reqs.append({"k": "conv", "x": U.mag_req(base), "u": cat.req_items(iu), "v": cat.req_items(tgt)})
            atols.append(1e-12 * amp * abs(float(f0) / U.factor_float(cat, tgt)))
            if k in ("imul", "idiv"):
                amp = amp * abs(o["k"]) if k == "imul" else amp / abs(o["k"])
            elif k == "to" and o["tm"]:
                amp = amp / abs(o["tm"])
    res = iter(ctx.driver.ask_many(reqs))
    atols = iter(atols)

    def first_failure(x, iu, ops, exps):
        got = run_quantity_history(cat, x, iu, ops)
        for i, (o, g, (want, wunits, atol)) in enumerate(zip(ops, got, exps)):
            if g[0] == "noraise":
                continue             # whether an unknown symbol is rejected is C03's; only its after-effects are judged here
            if g[0] == "err" and g[1].startswith(FLOAT_EXC):
                return None          # float-range effect: the rest of this history is not judged
            if g[0] == "err":
                return i, "raises %s" % g[1]
            if not (U.in_float_range(want) and U.in_float_range(g[0])):
                continue
            if not U.close(g[0], want, 1e-12, atol):
                return i, "gives %r, x*factor(u)/factor(v) is %r" % (g[0], want)
            if wunits is not None and g[1] != wunits:
                return i, "reports units %r instead of %r" % (g[1], wunits)
        return None

    for x, iu, ops in hist:
        rs = [next(res) for _ in ops]
        ctx.count("stream.quantity-history")
        ctx.count("quantity-history." + ("array" if isinstance(x, list) else "scalar"))
        ctx.case("qhistory|%r|%s|%s" % (x, U.render_items(iu), "|".join("%s:%s:%s:%r" % (o["op"], U.render_items(o["iv"]) if o["iv"] else "", o["form"], o["tm"]) for o in ops)),
                 True, None)
        if any("ok" not in r or r["ok"]["spec"]["val"] is None for r in rs):
            ctx.disagreement("quantity-history", {"x": x, "u": U.render_items(iu), "ops": ops}, "driver: %s" % [r.get("error") for r in rs])
            continue
        exps, cur = [], iu
        for o, r in zip(ops, rs):
            sval = U.as_list(U.mag_back(r["ok"]["spec"]["val"]))
            if o["op"] == "to":
                cur = o["iv"]
            exps.append((sval, None if o["op"] in ("value", "other") else target_expression(U.render_items(cur)), next(atols)))
        f = first_failure(x, iu, ops, exps)
        if f is None:
            continue
        pairs = list(zip(ops, exps))[:f[0] + 1]
        ops_small, why = [c[0] for c in pairs], f[1]
        if all(o["op"] in ("value", "read", "bad_to", "bad_value", "other") for o in ops_small[:-1]) and len(ctx.violations) < 3:
            # only non-mutating steps before the failing one: they can be dropped without changing what is expected
            def fails(cand):
                if cand[-1] is not pairs[-1]:
                    return False
                ff = first_failure(x, iu, [c[0] for c in cand], [c[1] for c in cand])
                return ff is not None and ff[0] == len(cand) - 1
            small = shrink_list(pairs, fails, max_steps=40)
            ops_small = [c[0] for c in small]
            ff = first_failure(x, iu, ops_small, [c[1] for c in small])
            why = ff[1] if ff else why
        last = ops_small[-1]
        ctx.violation("quantity-history:%s" % last["op"],
                      "Quantity(%r, %r) after %s: %s(%s) %s" %
                      (x, U.render_items(iu), [(o["op"], U.render_items(o["iv"]) if o["iv"] else (o.get("k") or o.get("expr")), o["form"] or o.get("y")) for o in ops_small[:-1]],
                       last["op"], U.render_items(last["iv"]) if last["iv"] else "", why),
                      {"stream": "quantity-history", "x": x, "iu": iu, "ops": ops_small})


# ------------------------------------------------------------------ histories on one long-lived Unit() instance
def gen_unit_history(cat, rng, groups):
    """a short operation sequence on one `unit = Unit()`: unit attributes are converted, then the
    same attributes are used again as conversion targets / sources"""
    g = rng.choice(groups)
    syms = [rng.choice(g) for _ in range(3)]
    attrs = [[(pick_prefix(cat, rng, s), s, (1, 1))] for s in syms[:2]]
    others = [[(pick_prefix(cat, rng, s), s, (1, 1))] for s in syms]
    ops = []
    for _ in range(rng.randint(3, 8)):
        a = rng.choice(attrs)
        o = rng.choice(others)
        x = rng.choice([3.0, 7.25, -0.5, 1e6, 2.0, [2.0, -0.5, 1e30]])
        k = rng.choice(["attr_to", "attr_to", "target", "target", "source", "attr_value", "attr_is_one",
                        "scaled_target", "attr_arith"])
        if k == "attr_to":
            ops.append({"op": k, "x": 1.0, "iu": a, "iv": o})
        elif k == "target":
            ops.append({"op": k, "x": x, "iu": o, "iv": a, "tm": 1.0})
        elif k == "scaled_target":
            ops.append({"op": k, "x": x, "iu": o, "iv": a, "tm": rng.choice(TARGET_MAGS)})
        elif k == "source":
            ops.append({"op": k, "x": x, "iu": a, "iv": o})
        elif k == "attr_value":
            ops.append({"op": k, "x": 1.0, "iu": a, "iv": o})
        elif k == "attr_is_one":
            ops.append({"op": k, "x": 1.0, "iu": a, "iv": a})
        else:
            ops.append({"op": k, "x": 5.0, "iu": a, "iv": a})
    return ops


def run_unit_history(ops):
    """executes the sequence on the real code with ONE Unit() instance; per op (values, units) or 'err'"""
    import numpy as np
    from scinumtools.units import Quantity, Unit
    unit = Unit()
    out = []
    with warnings.catch_warnings(), np.errstate(all="ignore"):
        warnings.simplefilter("ignore")
        for o in ops:
            eu, ev = U.render_items(o["iu"]), U.render_items(o["iv"])
            x = list(o["x"]) if isinstance(o["x"], list) else o["x"]
            try:
                k = o["op"]
                if k == "attr_to":
                    r = getattr(unit, eu).to(ev)
                    out.append((U.as_list(r.value()), r.units()))
                elif k == "target":
                    r = Quantity(x, eu).to(getattr(unit, ev))
                    out.append((U.as_list(r.value()), r.units()))
                elif k == "scaled_target":
                    r = Quantity(x, eu).to(o["tm"] * getattr(unit, ev))
                    out.append((U.as_list(r.value()), r.units()))
                elif k == "source":
                    out.append((U.as_list(Quantity(x, getattr(unit, eu)).value(ev)), None))
                elif k == "attr_value":
                    out.append((U.as_list(getattr(unit, eu).value(ev)), None))
                elif k == "attr_is_one":
                    r = getattr(unit, eu)
                    out.append((U.as_list(r.value()), r.units()))
                else:
                    r = 5 * getattr(unit, eu)
                    out.append((U.as_list(r.value()), r.units()))
            except Exception as e:
                out.append(("err", repr(e)[:120]))
    return out


def unit_history_stream(ctx, cat, count):
    from harness.util import shrink_list
    rng = ctx.rng
    groups = [g for g in cat.by_dimension([s for s in cat.linear if not s.startswith(("#", "["))]).values() if len(g) >= 2]
    seqs = [
        # corpus: a unit attribute is converted, later the same attribute names the target / source
        [{"op": "attr_to", "x": 1.0, "iu": [(None, "m", (1, 1))], "iv": [("k", "m", (1, 1))]},
         {"op": "target", "x": 3.0, "iu": [("k", "m", (1, 1))], "iv": [(None, "m", (1, 1))], "tm": 1.0},
         {"op": "source", "x": 2.0, "iu": [(None, "m", (1, 1))], "iv": [("c", "m", (1, 1))]},
         {"op": "attr_is_one", "x": 1.0, "iu": [(None, "m", (1, 1))], "iv": [(None, "m", (1, 1))]}],
    ]
    for _ in range(count):
        seqs.append(gen_unit_history(cat, rng, groups))
    seqs = [q for q in seqs if all(U.reads_as_intended(cat, o[k]) for o in q for k in ("iu", "iv"))]
    reqs = []
    for q in seqs:
        for o in q:
            r = {"k": "conv", "x": U.mag_req(o["x"]), "u": cat.req_items(o["iu"]), "v": cat.req_items(o["iv"])}
            if "tm" in o:
                r["tm"] = U.f2b(o["tm"])
            reqs.append(r)
    res = iter(ctx.driver.ask_many(reqs))

    def expected(o, r):
        """(spec values, model values, units text) — independent of whatever happened before"""
        sval = U.as_list(U.mag_back(r["spec"]["val"])) if r["spec"]["val"] is not None else None
        tm = o.get("tm", 1.0)
        k = o["op"]
        if k in ("target", "scaled_target"):
            return [v / tm for v in sval], U.as_list(U.mag_back(r["toq"]["val"])), target_expression(U.render_items(o["iv"]))
        if k == "attr_to":
            return sval, U.as_list(U.mag_back(r["to"]["val"])), target_expression(U.render_items(o["iv"]))
        if k in ("source", "attr_value"):
            return sval, U.as_list(U.mag_back(r["value"]["ok"])) if "ok" in r["value"] else None, None
        return U.as_list(o["x"]), U.as_list(o["x"]), target_expression(U.render_items(o["iu"]))

    def first_failure(q, exps):
        got = run_unit_history(q)
        for i, (o, g, (sv, mv, un)) in enumerate(zip(q, got, exps)):
            if g[0] == "err" and g[1].startswith(FLOAT_EXC):
                return None
            if g[0] == "err":
                return i, "spec", "raises %s" % g[1]
            if not (U.in_float_range(sv) and U.in_float_range(g[0])):
                continue
            if not U.close(g[0], sv, 1e-12):
                return i, "spec", "gives %r, x*factor(u)/factor(v) is %r" % (g[0], sv)
            if un is not None and g[1] != un:
                return i, "spec", "reports units %r instead of %r" % (g[1], un)
            if mv is not None and not U.close(g[0], mv, 1e-12):
                return i, "model", "gives %r, model %r" % (g[0], mv)
        return None

    for q in seqs:
        rs = [next(res) for _ in q]
        ctx.count("stream.unit-history")
        ctx.count("unit-history.ops", len(q))
        ctx.case("history|%s" % "|".join("%s:%s>%s:%r" % (o["op"], U.render_items(o["iu"]), U.render_items(o["iv"]), o["x"]) for o in q),
                 True, {"unit_history": [[o["op"], U.render_items(o["iu"]), U.render_items(o["iv"])] for o in q][:6]} if len(q) >= 4 else None)
        if any("ok" not in r for r in rs):
            ctx.disagreement("unit-history", {"ops": q}, "driver error")
            continue
        exps = [expected(o, r["ok"]) for o, r in zip(q, rs)]
        f = first_failure(q, exps)
        if f is None:
            continue
        # shortest history that still makes its last operation fail
        pairs = list(zip(q, exps))[:f[0] + 1]

        def fails(cand):
            if cand[-1] is not pairs[-1]:
                return False
            ff = first_failure([c[0] for c in cand], [c[1] for c in cand])
            return ff is not None and ff[0] == len(cand) - 1
        small = shrink_list(pairs, fails, max_steps=60) if len(ctx.violations) < 3 else pairs
        ops_small = [c[0] for c in small]
        ff = first_failure(ops_small, [c[1] for c in small]) or f
        last = ops_small[-1]
        text = ("on one Unit() instance, after %s: %s %s -> %s %s" %
                ([(o["op"], U.render_items(o["iu"]), U.render_items(o["iv"])) for o in ops_small[:-1]],
                 last["op"], U.render_items(last["iu"]), U.render_items(last["iv"]), ff[2]))
        replay = {"stream": "unit-history", "ops": ops_small}
        if ff[1] == "spec":
            ctx.violation("unit-history:%s" % last["op"], text, replay)
        else:
            ctx.disagreement("unit-history", replay, text)


def doc_examples(ctx):
    """documented examples verbatim (docs/source/units/conversions.rst)"""
    from scinumtools.units import Quantity
    ex = [
        (lambda: str(Quantity(2, 'km').to('m')), "Quantity(2.000e+03 m)"),
        (lambda: Quantity(2, 'km').value('cm'), 200000.0),
        (lambda: str(Quantity(84, 'm').to('cm')), "Quantity(8.400e+03 cm)"),
        (lambda: str(Quantity(193.3, 'eV').to('MJ')), "Quantity(3.097e-23 MJ)"),
        (lambda: str(Quantity(29.2, 'J').to('erg')), "Quantity(2.920e+08 erg)"),
    ]
    for i, (f, want) in enumerate(ex):
        ctx.count("stream.doc")
        try:
            got = f()
        except Exception as e:
            got = "raised %r" % (e,)
        ok = U.close(got, want, 1e-12) if isinstance(want, float) and not isinstance(got, str) else got == want
        ctx.case("doc|%d" % i, True, None)
        if not ok:
            ctx.violation("doc-example", "documented example %d gives %r, documentation says %r" % (i, got, want),
                          {"stream": "doc", "index": i, "got": str(got), "want": str(want)})


def correspond(ctx: Ctx, scale=1):
    cat = U.Catalog()
    cases = gen_cases(ctx, cat, scale)
    run_cases(ctx, cat, cases)
    triple_stream(ctx, cat, (4000 if ctx.tier == "thorough" else 400) * scale)
    rn = gen_result_numbers(cat, ctx.rng, (1500 if ctx.tier == "thorough" else 200) * scale)
    run_cases(ctx, cat, rn)
    result_number_functions(ctx, cat, rn)
    trig_stream(ctx, cat, (1500 if ctx.tier == "thorough" else 200) * scale)
    linspace_stream(ctx, cat, (1000 if ctx.tier == "thorough" else 150) * scale)
    env_history_stream(ctx, (150 if ctx.tier == "thorough" else 15) * scale)
    near_hists = near_equal_stream(ctx, cat)
    quantity_history_stream(ctx, cat, (2000 if ctx.tier == "thorough" else 250) * scale, near_hists)
    unit_history_stream(ctx, cat, (1500 if ctx.tier == "thorough" else 150) * scale)
    doc_examples(ctx)
    tables_still_as_generated(ctx)
    ctx.extra["exhaustive_part"] = ("all ordered same-dimension pairs of table symbols and every admissible prefix of "
                                    "every symbol" if ctx.tier == "thorough" else "sampled pairs")


def search(ctx: Ctx):
    """aimed search after a broken obligation / correspondence: a larger sample of every stream"""
    correspond(ctx, scale=4)


def replay(ctx: Ctx, payload):
    import json
    rp = payload.get("replay", payload)
    print(json.dumps(rp, indent=1, default=str)[:3000])
    if rp.get("stream") == "quantity-history":
        cat = U.Catalog()
        fix = lambda it: [(p, s2, tuple(e)) for p, s2, e in it] if it else None
        ops = [dict(o, iv=fix(o["iv"])) for o in rp["ops"]]
        for o, g in zip(ops, run_quantity_history(cat, rp["x"], fix(rp["iu"]), ops)):
            print(o["op"], U.render_items(o["iv"]) if o["iv"] else "", o["form"], o["tm"], "impl:", g)
        return 1
    if rp.get("stream") == "unit-history":
        got = run_unit_history(rp["ops"])
        for o, g in zip(rp["ops"], got):
            print(o["op"], U.render_items([tuple(i[:2]) + (tuple(i[2]),) for i in o["iu"]]), "->",
                  U.render_items([tuple(i[:2]) + (tuple(i[2]),) for i in o["iv"]]), "impl:", g)
        return 1
    if "iu" not in rp:
        print("replay: this record has no single conversion input; re-run ./check C04")
        return 2
    cat = U.Catalog()
    case = {"stream": rp.get("stream", "replay"), "x": rp["x"],
            "iu": [(p, s, tuple(e)) for p, s, e in rp["iu"]], "iv": [(p, s, tuple(e)) for p, s, e in rp["iv"]],
            "eu": rp["u"], "ev": rp["v"], "form": rp.get("form", "str"), "tm": rp.get("tm")}
    r = ctx.driver.ask(conv_req(cat, case))
    imp = run_impl(case, cat)
    print("impl:", {k: imp[k] for k in ("value", "to", "after_val", "after_units") if k in imp})
    print("spec:", r["ok"]["spec"]["kind"], U.mag_back(r["ok"]["spec"]["val"]))
    found = judge(ctx, cat, case, imp, r["ok"], report=False)
    for f in found:
        print("%s %s: %s" % f)
    return 1 if any(f[0] == "violation" for f in found) else 0
