"""C04 — linear unit conversion is exact, reversible and dimension-safe.

translator : UNIT_STANDARD / UNIT_PREFIXES / QUANTITY_UNITS -> Generated/C04Tables.lean,
             unit_types.py tables / methods / UNIT_TYPES -> Generated/C05Tables.lean
correspondence : real `Quantity(x,u).value(v)` / `.to(v)`  vs  Lean model (Float) vs Lean spec
"""
import math
import warnings
from fractions import Fraction as F

from harness.core import Ctx
from harness.props import c04c05_units as U

RULE = ("unit expressions are generated from structured item lists (prefix, table symbol, exponent) over all "
        "non-logarithmic, non-offset table symbols incl. constants and #system units; streams: every ordered pair of "
        "table symbols sharing a dimension (quick: sampled, thorough: all) with sampled admissible prefixes and a common "
        "exponent; compound expressions against their base-unit expansion and against symbol-wise replacements; "
        "reciprocal dimension pairs (x != 0); bare number -> rad / mrad / other powers of rad / deg / sr; pairs of "
        "differing dimension (refusal + quantity left as it was); triples u,w,v for round trip and path independence; "
        "the documented examples; values from {0, +-1, +-pi, 1e+-30, k*5e-324, random, arrays}. "
        "non-trivial = conversion between two different expressions; distinct = (u, v, value) text")
ASSUMPTIONS = [
    "A1: dimension exponents are small integers/fractions (|num*den| < 1e9), so Fraction.__eq__ (math.isclose on integer "
    "cross products) is integer equality",
    "the unit parser is C03's: an expression is used only if BaseUnits(expr) reads it as the intended (unitid, exponent) "
    "list, otherwise it is skipped; numeric literals inside a target expression (BaseUnits drops them) are not generated",
    "float magnitudes only (no Decimal); results outside [1e-290, 1e290] (overflow, underflow, subnormals) are compared "
    "for accept/refuse but not numerically",
    "reciprocal conversion is judged for x != 0 only (scalar 0 raises ZeroDivisionError, array 0 gives inf)",
    "a dimensionless compound unit (m/km) folded into a bare number by Quantity.__init__ and then converted to rad is "
    "compared with the model but not judged against the specification",
    "Python float ops and C pow are IEEE double operations; the Lean driver repeats them in the same order "
    "(relative tolerance 1e-12 for integer exponents, 1e-9 with fractional exponents)",
    "the uncertainty (error) carried through convert is C06/C08's; only values and units are observed here",
]
EXPLANATION = ("theorems over any field with non-zero factors: value formula, round trip, path independence, reciprocal "
               "rule and its round trip, number->radian, refusal leaves the state unchanged, element-wise on arrays, "
               "to() agrees with value(); rule selection (first accepting class of UNIT_TYPES, temperature/logarithmic "
               "classes decline on units outside their process lists) proved for the regenerated tables")
EXTRA_OBLIGATIONS = []

EXPS = [(1, 1), (1, 1), (1, 1), (2, 1), (-1, 1), (3, 1), (1, 2), (-3, 2), (-2, 1), (2, 3)]
SCALARS = [0.0, 1.0, -1.0, math.pi, -math.pi, 1e30, 1e-30, 2.5, -123456.789, 6.02e23, 1e-9]
FLOAT_EXC = ("ZeroDivisionError", "OverflowError", "FloatingPointError")
ARRAYS = [[0.0, 1.0, -2.5], [1e-3, math.pi, 1e30], [5e-324, -1.0, 7.0, 1e-30]]


def gen_tables(ctx):
    return U.gen_c04_tables() + U.gen_c05_tables()


# ------------------------------------------------------------------ generators
def pick_value(rng, nonzero=False):
    r = rng.random()
    if r < 0.12:
        a = list(rng.choice(ARRAYS))
        if nonzero:
            a = [v for v in a if v != 0.0] or [1.0]
        return a
    if r < 0.6:
        x = rng.choice(SCALARS)
    elif r < 0.7:
        x = 5e-324 * rng.randint(1, 1000)
    else:
        x = rng.choice([-1, 1]) * math.exp(rng.uniform(-40, 40))
    if nonzero and x == 0.0:
        x = 1.0
    return x


def pick_prefix(cat, rng, s, p_none=0.35):
    pf = cat.units[s][2]
    if not pf or rng.random() < p_none:
        return None
    return rng.choice(pf)


def frac_items(e):
    e = F(e)
    return (e.numerator, e.denominator)


def expansion(cat, rng, dims, sign=1):
    """items over the eight base units with exponents = (sign *) the dimension vector"""
    items = []
    for name, e in zip(cat.base, dims):
        if e != 0:
            items.append((pick_prefix(cat, rng, name, 0.5), name, frac_items(sign * e)))
    rng.shuffle(items)
    return items


def random_items(cat, rng, nmax=3):
    n = rng.randint(1, nmax)
    syms = rng.sample(cat.linear, n)
    return [(pick_prefix(cat, rng, s), s, rng.choice(EXPS)) for s in syms]


def replace_items(cat, rng, items, groups, sign=1):
    """symbol-wise replacement by a symbol of the same dimension (other prefix), same exponent"""
    out, used = [], set()
    for p, s, (n, d) in items:
        alts = [t for t in groups[cat.dimkey(s)] if t not in used]
        if not alts:
            return None
        t = rng.choice(alts)
        used.add(t)
        out.append((pick_prefix(cat, rng, t), t, (sign * n, d)))
    return out


def make_case(cat, rng, stream, x, iu, iv, render_rng=None):
    eu = U.render_items(iu, render_rng)
    ev = U.render_items(iv, render_rng)
    return {"stream": stream, "x": x, "iu": iu, "iv": iv, "eu": eu, "ev": ev}


def gen_cases(ctx, cat, scale):
    rng = ctx.rng
    thorough = ctx.tier == "thorough"
    groups = cat.by_dimension(cat.linear)
    cases = []
    # -- corpus: documented examples and recon inputs first
    doc = [
        (2.0, [("k", "m", (1, 1))], [(None, "m", (1, 1))]),
        (2.0, [("k", "m", (1, 1))], [("c", "m", (1, 1))]),
        (84.0, [(None, "m", (1, 1))], [("c", "m", (1, 1))]),
        (193.3, [(None, "eV", (1, 1))], [("M", "J", (1, 1))]),
        (4.34, [("k", "g", (1, 1)), (None, "m", (2, 1)), (None, "s", (-2, 1))], [(None, "erg", (1, 1))]),
        (2.0, [(None, "s", (1, 1))], [(None, "Hz", (1, 1))]),
        (23.0, [], [(None, "rad", (1, 1))]),
        (2.0, [], [(None, "rad", (2, 1))]),
        (2.0, [], [(None, "rad", (-1, 1))]),
        (2.0, [], [("m", "rad", (1, 1))]),
        (2.0, [], [(None, "rad", (2, 2))]),
        (2.0, [], [(None, "sr", (1, 1))]),
        (2.0, [], [(None, "deg", (1, 1))]),
        (2.0, [], [(None, "%", (1, 1))]),
        (2.0, [(None, "m", (1, 1))], [(None, "s", (1, 1))]),
        (2.0, [(None, "%", (1, 1))], [(None, "rad", (1, 1))]),
        (23.0, [(None, "K", (1, 1))], [(None, "degR", (1, 1))]),
        (23.0, [(None, "degR", (1, 1))], [("k", "K", (1, 1))]),
        ([1.0, 2.0, 4.0], [(None, "s", (1, 1))], [("k", "Hz", (1, 1))]),
    ]
    for x, iu, iv in doc:
        cases.append(make_case(cat, rng, "corpus", x, iu, iv))
    # -- all / sampled ordered pairs of table symbols sharing a dimension
    pairs = [(u, v) for g in groups.values() for u in g for v in g]
    if not thorough:
        pairs = rng.sample(pairs, min(len(pairs), 500 * scale))
    for u, v in pairs:
        reps = 2 if thorough else 1
        for _ in range(reps):
            e = rng.choice(EXPS)
            iu = [(pick_prefix(cat, rng, u), u, e)]
            iv = [(pick_prefix(cat, rng, v), v, e)]
            cases.append(make_case(cat, rng, "pair", pick_value(rng), iu, iv))
    if thorough:   # every admissible prefix of every symbol at least once, both directions
        for u in cat.linear:
            g = groups[cat.dimkey(u)]
            for p in cat.units[u][2]:
                v = rng.choice(g)
                cases.append(make_case(cat, rng, "prefix", pick_value(rng), [(p, u, (1, 1))],
                                       [(pick_prefix(cat, rng, v), v, (1, 1))]))
                cases.append(make_case(cat, rng, "prefix", pick_value(rng), [(pick_prefix(cat, rng, v), v, (1, 1))],
                                       [(p, u, (1, 1))]))
    # -- compound expressions
    for _ in range((3000 if thorough else 350) * scale):
        iu = random_items(cat, rng)
        dims = cat.dims_of_items(iu)
        r = rng.random()
        if r < 0.5:
            iv = expansion(cat, rng, dims)
            if not iv:
                iv = [(None, rng.choice(["%", "PR", "ppth"]), (1, 1))]
        else:
            iv = replace_items(cat, rng, iu, groups)
            if iv is None:
                continue
        cases.append(make_case(cat, rng, "compound", pick_value(rng), iu, iv, rng))
    # -- reciprocal dimension
    for _ in range((1500 if thorough else 200) * scale):
        iu = random_items(cat, rng, 2)
        dims = cat.dims_of_items(iu)
        if all(d == 0 for d in dims):
            continue
        iv = expansion(cat, rng, dims, -1) if rng.random() < 0.5 else replace_items(cat, rng, iu, groups, -1)
        if not iv:
            continue
        cases.append(make_case(cat, rng, "reciprocal", pick_value(rng, nonzero=True), iu, iv, rng))
    # -- bare number
    for _ in range((300 if thorough else 60) * scale):
        iv = rng.choice([
            [(None, "rad", (1, 1))], [("m", "rad", (1, 1))], [(None, "rad", (2, 1))], [(None, "rad", (-1, 1))],
            [(None, "rad", (1, 2))], [(None, "rad", (3, 3))], [(None, "deg", (1, 1))], [(None, "sr", (1, 1))],
            [(None, "%", (1, 1))], [(None, "m", (1, 1))], [(None, "rad", (1, 1)), (None, "m", (1, 1))],
            [(None, "Hz", (1, 1))], [(None, "PR", (1, 1))], [("m", "rad", (2, 1))],
        ])
        cases.append(make_case(cat, rng, "number", pick_value(rng), [], iv))
    # -- differing dimension: refusal
    n_ref = (3000 if thorough else 350) * scale
    reps = list(groups.values())
    while n_ref > 0:
        n_ref -= 1
        r = rng.random()
        if r < 0.4:
            iu = [(pick_prefix(cat, rng, s), s, (1, 1)) for s in [rng.choice(rng.choice(reps))]]
            iv = [(pick_prefix(cat, rng, s), s, (1, 1)) for s in [rng.choice(rng.choice(reps))]]
        elif r < 0.7:
            iu = random_items(cat, rng)
            iv = random_items(cat, rng)
        else:   # near miss: same expression with one exponent changed
            iu = random_items(cat, rng)
            iv = list(iu)
            k = rng.randrange(len(iv))
            p, s, (n, d) = iv[k]
            iv[k] = (p, s, (n + rng.choice([1, -1, 2]) * d, d))
        du, dv = cat.dims_of_items(iu), cat.dims_of_items(iv)
        if du == dv or tuple(-a for a in du) == dv:
            continue
        cases.append(make_case(cat, rng, "refuse", pick_value(rng), iu, iv, rng))
    return cases


# ------------------------------------------------------------------ real code
def run_impl(case):
    import numpy as np
    from scinumtools.units import Quantity
    x = case["x"]
    out = {}
    with warnings.catch_warnings(), np.errstate(all="ignore"):
        warnings.simplefilter("ignore")
        try:
            q = Quantity(list(x) if isinstance(x, list) else x, case["eu"])
        except Exception as e:
            return {"init": "err:%s" % type(e).__name__}
        out["before"] = U.snapshot(q)
        out["units0"] = list(q.baseunits.units)
        try:
            out["value"] = U.as_list(q.value(case["ev"]))
        except Exception as e:
            out["value"] = "err"
            out["value_exc"] = type(e).__name__
        out["mid"] = U.snapshot(q)
        try:
            q.to(case["ev"])
            out["to"] = True
        except Exception as e:
            out["to"] = False
            out["to_exc"] = type(e).__name__
        out["after"] = U.snapshot(q)
        out["after_val"] = U.as_list(q.magnitude.value)
        out["after_units"] = list(q.baseunits.units)
    return out


def target_expression(ev):
    from scinumtools.units.base_units import BaseUnits
    return BaseUnits(ev).expression


def judge(ctx, cat, case, imp, res, report=True):
    """Compares impl with model (disagreement) and with spec (violation). Returns list of
    (kind, signature, text)."""
    found = []
    x = case["x"]
    replay = {"stream": case["stream"], "x": x, "u": case["eu"], "v": case["ev"],
              "iu": case["iu"], "iv": case["iv"]}
    frac = any(d != 1 for _, _, (n, d) in case["iu"] + case["iv"])
    rtol = 1e-9 if frac else 1e-12
    xs = U.as_list(x)
    spec = res["spec"]
    kind = spec["kind"]
    sval = U.mag_back(spec["val"])
    f1, f2 = U.b2f(spec["f1"]), U.b2f(spec["f2"])
    numeric_ok = U.in_float_range([f1, f2]) and U.in_float_range([v * f1 for v in xs]) and \
        (sval is None or U.in_float_range(sval)) and U.in_float_range(xs, lo=1e-300)
    # ---------- impl vs model
    mv = res["value"]
    m_ok = "ok" in mv
    i_ok = imp["value"] != "err"
    det = None
    float_exc = (not numeric_ok) and (imp.get("value_exc") in FLOAT_EXC or imp.get("to_exc") in FLOAT_EXC)
    if float_exc:
        ctx.count("unjudged.float-exception")   # e.g. 1/(x*f) with x*f underflowing to 0
    elif m_ok != i_ok:
        det = "value(): impl %s, model %s" % ("ok" if i_ok else "raises " + imp.get("value_exc", ""), mv)
    elif m_ok and numeric_ok and not U.close(imp["value"], U.mag_back(mv["ok"]), rtol):
        det = "value(): impl %r, model %r" % (imp["value"], U.mag_back(mv["ok"]))
    elif res["to"]["ok"] != imp["to"]:
        det = "to(): impl ok=%s, model ok=%s" % (imp["to"], res["to"]["ok"])
    elif numeric_ok and not U.close(imp["after_val"], U.mag_back(res["to"]["val"]), rtol):
        det = "state after to(): impl %r, model %r" % (imp["after_val"], U.mag_back(res["to"]["val"]))
    elif res["to"]["tag"] == 0 and imp["after"] != imp["before"]:
        det = "model keeps the state, impl changed it: %r -> %r" % (imp["before"], imp["after"])
    elif res["to"]["tag"] == 1 and imp["after_units"] != res["to"]["units"]:
        det = "units after to(): impl %r, model %r" % (imp["after_units"], res["to"]["units"])
    elif imp["units0"] != res["init"]["units"]:
        det = "units after construction: impl %r, model %r" % (imp["units0"], res["init"]["units"])
    if det:
        found.append(("disagreement", case["stream"], det))
    # ---------- impl vs spec (in-domain only)
    # a dimensionless compound (m/km) that Quantity.__init__ folded completely into a bare number
    u_nodim_nonempty = bool(case["iu"]) and all(d == 0 for d in cat.dims_of_items(case["iu"])) and \
        res["init"]["units"] == [] and imp["units0"] == []
    if kind == "refuse":
        single_rad = len(case["iv"]) == 1 and case["iv"][0][1] == "rad"
        if u_nodim_nonempty and single_rad:
            ctx.count("unjudged.folded-number-to-rad")
        elif i_ok or imp["to"]:
            found.append(("violation", "refuse:accepted",
                          "conversion between different dimensions %s -> %s is not refused: value()=%s, to() ok=%s"
                          % (case["eu"], case["ev"], imp["value"], imp["to"])))
        elif imp["after"] != imp["before"] or imp["mid"] != imp["before"]:
            found.append(("violation", "refuse:state-changed",
                          "refused conversion %s -> %s changed the quantity: %r -> %r"
                          % (case["eu"], case["ev"], imp["before"], imp["after"])))
    else:
        if kind == "reciprocal" and any(v == 0 for v in xs):
            ctx.count("unjudged.reciprocal-of-zero")
        elif float_exc:
            pass
        elif not i_ok or not imp["to"]:
            found.append(("violation", "%s:refused" % kind,
                          "%s conversion %s -> %s of %r is refused (%s)" %
                          (kind, case["eu"], case["ev"], x, imp.get("value_exc") or imp.get("to_exc"))))
        elif not numeric_ok:
            ctx.count("unjudged.float-range")
        else:
            if not U.close(imp["value"], sval, rtol):
                found.append(("violation", "%s:value" % kind,
                              "%s -> %s of %r: value() gives %r, the property prescribes %r" %
                              (case["eu"], case["ev"], x, imp["value"], sval)))
            elif not U.close(imp["after_val"], sval, rtol):
                found.append(("violation", "%s:to-value" % kind,
                              "%s -> %s of %r: to() leaves %r, the property prescribes %r" %
                              (case["eu"], case["ev"], x, imp["after_val"], sval)))
            elif imp["after"][1] != target_expression(case["ev"]):
                found.append(("violation", "%s:to-units" % kind,
                              "%s -> %s: after to() the quantity reports units %r" %
                              (case["eu"], case["ev"], imp["after"][1])))
            elif imp["mid"] != imp["before"]:
                found.append(("violation", "value:state-changed",
                              "value(%s) changed the quantity %r -> %r" % (case["ev"], imp["before"], imp["mid"])))
    if report:
        for k, sig, text in found:
            if k == "violation":
                ctx.violation(sig, text, replay)
            else:
                ctx.disagreement(sig, replay, text)
    return found


def run_cases(ctx, cat, cases):
    usable = []
    for c in cases:
        if U.parsed_as_expected(cat, c["eu"], c["iu"]) and U.parsed_as_expected(cat, c["ev"], c["iv"]) \
                and c["ev"] is not None:
            usable.append(c)
        else:
            ctx.count("skipped.parser-reads-differently")
    reqs = [{"k": "conv", "x": U.mag_req(c["x"]), "u": cat.req_items(c["iu"]), "v": cat.req_items(c["iv"])}
            for c in usable]
    res = ctx.driver.ask_many(reqs)
    for c, r in zip(usable, res):
        ctx.count("stream." + c["stream"])
        canon = "%s|%s|%r" % (c["eu"], c["ev"], c["x"])
        ctx.case(canon, c["eu"] != c["ev"], {"x": c["x"], "u": c["eu"], "v": c["ev"]} if c["stream"] != "corpus" else None)
        if "ok" not in r:
            ctx.disagreement(c["stream"], {"x": c["x"], "u": c["eu"], "v": c["ev"]}, "driver error %s" % r)
            continue
        imp = run_impl(c)
        if "init" in imp:
            ctx.disagreement(c["stream"], {"x": c["x"], "u": c["eu"]}, "Quantity() construction failed: %s" % imp["init"])
            continue
        ctx.count("spec." + r["ok"]["spec"]["kind"])
        ctx.count("value." + ("array" if isinstance(c["x"], list) else "scalar"))
        judge(ctx, cat, c, imp, r["ok"])


# ------------------------------------------------------------------ round trip / path independence on the real code
def triple_stream(ctx, cat, count):
    import numpy as np
    from scinumtools.units import Quantity
    rng = ctx.rng
    groups = [g for g in cat.by_dimension(cat.linear).values() if len(g) >= 2]
    for _ in range(count):
        g = rng.choice(groups)
        u, w, v = (rng.choice(g) for _ in range(3))
        e = rng.choice(EXPS)
        iu, iw, iv = ([(pick_prefix(cat, rng, s), s, e)] for s in (u, w, v))
        eu, ew, ev = (U.render_items(i) for i in (iu, iw, iv))
        if not all(U.parsed_as_expected(cat, ee, ii) for ee, ii in ((eu, iu), (ew, iw), (ev, iv))):
            ctx.count("skipped.parser-reads-differently")
            continue
        x = pick_value(rng)
        fs = [cat.factor_exact(i) for i in (iu, iw, iv)]
        ctx.count("stream.triple")
        ctx.case("triple|%s|%s|%s|%r" % (eu, ew, ev, x), len({eu, ew, ev}) == 3, None)
        with warnings.catch_warnings(), np.errstate(all="ignore"):
            warnings.simplefilter("ignore")
            xx = list(x) if isinstance(x, list) else x
            try:
                direct = U.as_list(Quantity(xx, eu).value(ev))
                via = U.as_list(Quantity(xx, eu).to(ew).to(ev).value())
                mid = U.as_list(Quantity(xx, eu).value(ew))
                back = U.as_list(Quantity(xx, eu).to(ev).to(eu).value())
            except Exception as ex:
                ctx.violation("same:refused", "same-dimension chain %s -> %s -> %s raised %r" % (eu, ew, ev, ex),
                              {"stream": "triple", "x": x, "u": eu, "w": ew, "v": ev})
                continue
        if not (U.in_float_range(direct) and U.in_float_range(via) and U.in_float_range(mid)
                and U.in_float_range(back) and U.in_float_range(U.as_list(x), lo=1e-300)):
            ctx.count("unjudged.float-range")
            continue
        rtol = 1e-9 if e[1] != 1 else 1e-12
        if not U.close(direct, via, rtol):
            ctx.violation("path:intermediate", "%r %s -> %s -> %s gives %r, directly %r" % (x, eu, ew, ev, via, direct),
                          {"stream": "triple", "x": x, "u": eu, "w": ew, "v": ev})
        elif not U.close(back, U.as_list(x), rtol):
            ctx.violation("path:roundtrip", "%r %s -> %s -> %s returns %r" % (x, eu, ev, eu, back),
                          {"stream": "triple", "x": x, "u": eu, "w": ew, "v": ev})


def doc_examples(ctx):
    """documented examples verbatim (docs/source/units/conversions.rst)"""
    from scinumtools.units import Quantity
    ex = [
        (lambda: str(Quantity(2, 'km').to('m')), "Quantity(2.000e+03 m)"),
        (lambda: Quantity(2, 'km').value('cm'), 200000.0),
        (lambda: str(Quantity(84, 'm').to('cm')), "Quantity(8.400e+03 cm)"),
        (lambda: str(Quantity(193.3, 'eV').to('MJ')), "Quantity(3.097e-23 MJ)"),
        (lambda: str(Quantity(29.2, 'J').to('erg')), "Quantity(2.920e+08 erg)"),
    ]
    for i, (f, want) in enumerate(ex):
        ctx.count("stream.doc")
        try:
            got = f()
        except Exception as e:
            got = "raised %r" % (e,)
        ok = U.close(got, want, 1e-12) if isinstance(want, float) and not isinstance(got, str) else got == want
        ctx.case("doc|%d" % i, True, None)
        if not ok:
            ctx.violation("doc-example", "documented example %d gives %r, documentation says %r" % (i, got, want),
                          {"stream": "doc", "index": i, "got": str(got), "want": str(want)})


def correspond(ctx: Ctx, scale=1):
    cat = U.Catalog()
    cases = gen_cases(ctx, cat, scale)
    run_cases(ctx, cat, cases)
    triple_stream(ctx, cat, (4000 if ctx.tier == "thorough" else 400) * scale)
    doc_examples(ctx)
    ctx.extra["exhaustive_part"] = ("all ordered same-dimension pairs of table symbols and every admissible prefix of "
                                    "every symbol" if ctx.tier == "thorough" else "sampled pairs")


def search(ctx: Ctx):
    """aimed search after a broken obligation / correspondence: a larger sample of every stream"""
    correspond(ctx, scale=4)


def replay(ctx: Ctx, payload):
    import json
    rp = payload.get("replay", payload)
    print(json.dumps(rp, indent=1, default=str)[:3000])
    if "iu" not in rp:
        print("replay: this record has no single conversion input; re-run ./check C04")
        return 2
    cat = U.Catalog()
    case = {"stream": rp.get("stream", "replay"), "x": rp["x"],
            "iu": [(p, s, tuple(e)) for p, s, e in rp["iu"]], "iv": [(p, s, tuple(e)) for p, s, e in rp["iv"]],
            "eu": rp["u"], "ev": rp["v"]}
    r = ctx.driver.ask({"k": "conv", "x": U.mag_req(case["x"]), "u": cat.req_items(case["iu"]),
                        "v": cat.req_items(case["iv"])})
    imp = run_impl(case)
    print("impl:", {k: imp[k] for k in ("value", "to", "after_val", "after_units") if k in imp})
    print("spec:", r["ok"]["spec"]["kind"], U.mag_back(r["ok"]["spec"]["val"]))
    found = judge(ctx, cat, case, imp, r["ok"], report=False)
    for f in found:
        print("%s %s: %s" % f)
    return 1 if any(f[0] == "violation" for f in found) else 0
