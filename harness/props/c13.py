"""C13 — DIP node paths follow indentation and values are the literals written.

Correspondence (real DIP front end vs Lean model of lexer + hierarchy + casts + main loop) and
oracle (real code vs the Lean specification on the abstract line sequence, cross-checked against
the tree the generator rendered).  Shared helpers for C14 live here as well.
"""
import json
from fractions import Fraction

from harness.util import rel_close

RULE = ("random definition trees (depth<=8, arbitrary branching, dotted names, indentation width 1-7 chosen per "
        "parent, de-indents over several levels, blank/comment lines; in ~45% of the trees 1-3 nodes are written again "
        "(typed with their keyword incl. every width/sign suffix, or untyped) and must stay one parameter with the "
        "type of the first occurrence; in ~30% of the groups with leaf children a sibling group repeats the child lines "
        "character by character (same indentation, name, type, value) under another parent; block strings and table rows "
        "contain lines starting with '#', blank lines, leading blanks and lines that look like DIP syntax; table string cells "
        "follow csv rules (backslashes and apostrophes literal, \"...\" fields with doubled quotes, text after a closing quote); "
        "a same-base stream parses two texts from ONE base environment (two parsers on one Environment, or one parser with a "
        "second add_string), the first ending inside groups, the second indented as a whole: each result is what the text "
        "alone gives; 20% of the trees are parsed as a chain of two parses on one environment (the later text may restate "
        "nodes of the earlier one) and 20% are read from a scratch FILE with add_file (leading/trailing empty lines, first "
        "non-empty line possibly indented) — same expectation as add_string; results are read from the ORDERED node list, so "
        "a parameter listed twice is visible; every literal form: bool, int, float in "
        "decimal/scientific notation, bare/quoted/escaped strings, none, inline/quoted/block arrays, block strings, "
        "tables) rendered to DIP text; plus flat line sequences with arbitrary indentation numbers; plus a malformed "
        "stream (impl vs model only). non-trivial = depth>=2 or a de-indent by >=2 levels or an array/block/table; "
        "distinct = the text")
ASSUMPTIONS = [
    "text is ASCII; white space inside lines is the blank character; names match [a-zA-Z0-9_.-]+",
    "remote sources ($source, imports from files) are C17's subject; add_file itself is exercised because SourceNode reads "
    ".dip sources through it",
    "in the generated TREE streams comments and strings do not contain the triple quote, the marks $@00..$@02 (the lexer model keeps the "
    "three-mark encoding; texts with `$@` are covered by the marks stream and the theorems C13_literal_marks_survive / C13_marks_conservative "
    "about the repaired functions encodeM / decodeM, which the driver runs against the real value), or a backslash other than \\' and \\\" "
    "(block strings and table cells may contain backslashes, but not directly before a quote character and not at the "
    "end of the last block line, where it would escape the closing quotes); "
    "a quoted string does not contain its own delimiter unescaped; the quoted text 'none' is not used as a string",
    "bare strings do not start with '{', '(' or a quote (those are references, functions, expressions by the syntax)",
    "number literals are the decimal/scientific forms ([+-]digits[.digits][e[+-]digits]); int()/float() extras "
    "(underscores, inf, nan, surrounding blanks) are outside the model; float literals in the text of an int array are "
    "refused (repaired in 4c14a83), in JSON cells of a table int column numpy still truncates them (outside the model)",
    "correspondence is demanded only inside the property's domain: for texts that were not generated in-domain "
    "(corpus, malformed list, single-character mutations) a difference between real code and model is a broken tie only if "
    "the independent regex recogniser in_grammar() accepts the text; otherwise it is counted "
    "(mutated.out_of_domain_disagreement) and noted",
    "array elements are literals of the declared type (JSON syntax); |int| < 2^62 inside arrays; table cells are plain "
    "words or simply quoted; tables have no children of their own",
    "units are linear units of the unit table (no temperature/logarithmic units); their magnitudes and dimensions "
    "are read from the live unit registry on every run and passed to model and specification as a parameter",
    "float values are compared with relative tolerance 1e-9, the sign of zero is not compared; ints, strings, "
    "booleans, shapes, paths, order, type class, width and sign exactly",
]
EXPLANATION = ("theorems: register keeps exactly the chain of previous smaller indentations (all line sequences); "
               "paths and results are invariant under strictly monotone re-indentation and under blank/comment "
               "lines; node list has one entry per path in first-appearance order; literal round trip "
               "lex(render d) = d for group/modification/definition/declaration lines; block grouping and block "
               "values; scalar casts denote the written number")

NAMES = ["a", "b", "c", "x", "y", "node", "very-long", "n23_NAME", "grp", "sub.item", "p.q.r", "A", "k_1", "z-9", "m0",
         "alpha", "beta.gamma", "d", "e", "f"]
LIN_UNITS = {
    "len": ["m", "cm", "mm", "km", "AU", "[len]"],
    "time": ["s", "min", "h", "ms"],
    "mass": ["g", "kg", "mg"],
    "energy": ["J", "erg", "eV", "keV", "g*cm2/s2"],
    "speed": ["m/s", "km/h", "m*s-1"],
    "dens": ["g/cm3", "kg*m-3"],
    "frac": ["%", "ppth"],
}
UNIT_PREAMBLE = "$unit len = 2.5 m"


# ---------------------------------------------------------------- real code
def impl_run(text):
    """Runs the real front end; returns 'err' or [[path, ty, prec, unsigned, unit, value], ...]."""
    from scinumtools.dip import DIP
    from scinumtools.dip.settings import Format
    from scinumtools.dip.datatypes import BooleanType, IntegerType, FloatType, StringType, NumberType
    try:
        with DIP() as p:
            p.add_string(text)
            env = p.parse()
    except Exception:
        return "err"
    return read_env(env)


def read_env(env):
    """canonical result of a returned environment; 'envbroken' when parse() returned an environment
    that cannot be read (a parameter without value object)"""
    from scinumtools.dip.settings import Format
    from scinumtools.dip.datatypes import BooleanType, IntegerType, FloatType, StringType, NumberType
    try:
        ty = env.data(format=Format.TYPE)
        if any(v is None for v in ty.values()):
            return "envbroken"
        tu = env.data(format=Format.TUPLE)
    except Exception:
        return "envbroken"
    out = []
    names = {BooleanType: "bool", IntegerType: "int", FloatType: "float", StringType: "str"}
    if list(ty.keys()) != list(tu.keys()):
        return "err:keys"
    # the ORDERED node list is the observable: a dict would hide a parameter that is listed twice
    listed = [(n.name, n.value) for n in env.nodes]
    if [k for k, _ in listed] != list(ty.keys()):
        ty_items = listed            # duplicates (or another order) stay visible
        tu = None
    else:
        ty_items = list(ty.items())
    for k, v in ty_items:
        if v is None:
            return "envbroken"
        cls = names.get(type(v))
        if cls is None:
            return "err:class %s" % type(v).__name__
        unit = v.unit
        # Format.TUPLE must show the same value and unit
        if tu is not None and isinstance(v, NumberType) and unit is not None:
            if not (isinstance(tu[k], tuple) and len(tu[k]) == 2 and tu[k][1] == unit):
                return "err:tuple"
        prec = getattr(v, "precision", None) if cls in ("int", "float") else None
        uns = getattr(v, "unsigned", None) if cls == "int" else None
        out.append([k, cls, None if prec is None else int(prec), None if uns is None else bool(uns), unit, plain(v.value)])
    return out


def plain(v):
    import numpy as np
    if isinstance(v, np.ndarray):
        v = v.tolist()
    if isinstance(v, (list, tuple)):
        return [plain(x) for x in v]
    if isinstance(v, np.generic):
        return v.item()
    return v


_unit_cache = {}


def unit_rows(units, preamble=UNIT_PREAMBLE):
    """[name, num, den, dims] for every unit the live registry knows (others are simply absent)."""
    from scinumtools.units import Quantity, UnitEnvironment
    from scinumtools.dip import DIP
    key = preamble
    if key not in _unit_cache:
        with DIP() as p:
            p.add_string(preamble if preamble else "# no custom units")
            _unit_cache[key] = (p.parse().units, {})
    uenv, memo = _unit_cache[key]
    rows = []
    # a custom unit `$unit name = k base` is computed from its DEFINITION (k times the magnitude of the ordinary unit
    # `base`, dimensions of `base`), not read back from the unit list the parser filled
    custom = {}
    if preamble:
        import re
        for m in re.finditer(r"^\$unit +([A-Za-z0-9_]+) *= *([^ #]+) +([^ #]+)", preamble, re.M):
            custom["[%s]" % m.group(1)] = (m.group(2), m.group(3))
    for u in sorted(set(units)):
        if u not in memo and u in custom:
            try:
                k, base = custom[u]
                b = Quantity(1, base).baseunits
                f = Fraction(k) * Fraction(float(b.magnitude))
                memo[u] = [u, str(f.numerator), str(f.denominator), [int(x) for x in b.dimensions.value()]]
            except Exception:
                memo[u] = None
        if u not in memo:
            try:
                with UnitEnvironment(uenv):
                    b = Quantity(1, u).baseunits
                    f = Fraction(float(b.magnitude))
                    memo[u] = [u, str(f.numerator), str(f.denominator), [int(x) for x in b.dimensions.value()]]
            except Exception:
                memo[u] = None
        if memo[u] is not None:
            rows.append(memo[u])
    return rows


# ---------------------------------------------------------------- model/spec values
def from_json_val(j):
    if j is None:
        return None
    if "b" in j:
        return bool(j["b"])
    if "n" in j:
        return Fraction(int(j["n"][0]), int(j["n"][1]))
    if "s" in j:
        return j["s"]
    shape, elems = j["a"]
    flat = [from_json_val(e) for e in elems]

    def build(sh, pos):
        if not sh:
            return flat[pos], pos + 1
        out = []
        for _ in range(sh[0]):
            x, pos = build(sh[1:], pos)
            out.append(x)
        return out, pos
    try:
        return build(shape, 0)[0]
    except IndexError:
        return "bad-shape"


def to_json_val(v):
    """Python abstract value (None/bool/int/Fraction/str/nested list) -> driver JSON."""
    if v is None:
        return None
    if isinstance(v, bool):
        return {"b": v}
    if isinstance(v, (int, Fraction)):
        f = Fraction(v)
        return {"n": [str(f.numerator), str(f.denominator)]}
    if isinstance(v, str):
        return {"s": v}
    shape = []
    x = v
    while isinstance(x, list):
        shape.append(len(x))
        x = x[0] if x else None
    flat = []

    def walk(y):
        if isinstance(y, list):
            for z in y:
                walk(z)
        else:
            flat.append(to_json_val(y))
    walk(v)
    return {"a": [shape, flat]}


def decode_result(r):
    if isinstance(r, str):
        return r
    return [[n[0], n[1], n[2], n[3], n[4], from_json_val(n[5])] for n in r]


def val_eq(impl, exact):
    """impl: plain Python value from the real code; exact: value with Fractions."""
    if exact is None or impl is None:
        return exact is None and impl is None
    if isinstance(exact, bool) or isinstance(impl, bool):
        return isinstance(exact, bool) and isinstance(impl, bool) and exact == impl
    if isinstance(exact, str) or isinstance(impl, str):
        return isinstance(exact, str) and isinstance(impl, str) and exact == impl
    if isinstance(exact, list) or isinstance(impl, list):
        return isinstance(exact, list) and isinstance(impl, list) and len(exact) == len(impl) and \
            all(val_eq(a, b) for a, b in zip(impl, exact))
    if isinstance(impl, int):
        return Fraction(impl) == exact
    if isinstance(impl, float):
        try:
            return rel_close(impl, float(exact))
        except OverflowError:
            return False
    return False


def res_eq(impl, other):
    """impl result vs decoded model/spec result."""
    if isinstance(impl, str) or isinstance(other, str):
        return isinstance(impl, str) and isinstance(other, str) and impl[:3] == other[:3]
    if len(impl) != len(other):
        return False
    for a, b in zip(impl, other):
        if a[:5] != b[:5] or not val_eq(a[5], b[5]):
            return False
    return True


def first_diff(impl, other):
    if isinstance(impl, str) or isinstance(other, str):
        return "impl %s vs %s" % (short(impl), short(other))
    if len(impl) != len(other):
        return "impl has %d parameters %s, expected %d %s" % (len(impl), [a[0] for a in impl][:12], len(other), [b[0] for b in other][:12])
    for a, b in zip(impl, other):
        if a[:5] != b[:5] or not val_eq(a[5], b[5]):
            return "impl %s vs %s" % (short(a), short(b))
    return ""


def short(x):
    return json.dumps(x, default=str)[:300]


def jsonable(x):
    return json.loads(json.dumps(x, default=str))


# ---------------------------------------------------------------- literal rendering
def big_ints(rng):
    return rng.choice([0, 1, -1, 7, -34, 235, 2023, 2 ** 31 - 1, -2 ** 31, 2 ** 53 + 1, -239490304, 10 ** 18,
                       rng.randint(-10 ** 6, 10 ** 6)])


FLOAT_FORMS = ["0", "-0.0", "0.0", "1", "-1", "23.3", "2.3e20", "-1.5E-3", ".5", "5.", "+1.0", "1e+5", "1.34e4", "63.3",
               "-34", "9.109e-31", "6.02214076e23", "1E-300", "123456789.125", "0.000001", "7e0", "-2.5e-7"]
JSON_FLOATS = ["0", "-0.0", "1", "-1", "23.3", "2.3e20", "-1.5E-3", "0.5", "1e+5", "1.34e4", "4234", "-34", "9.109e-31", "7e0"]


def frac_of(text):
    t = text.lower()
    m, _, e = t.partition("e")
    return Fraction(m if m[-1] != "." else m + "0") * (Fraction(10) ** int(e or 0)) if not m.startswith((".", "+.", "-.")) \
        else Fraction(("0" + m) if m[0] == "." else (m[0] + "0" + m[1:])) * (Fraction(10) ** int(e or 0))


WORDS = ["Canada", "John", "x", "true", "false", "a-b_c", "v1.2", "semi;colon", "eq=sign", "12", "Laura", "{a", "it)s", "[k]", "q,r", "%d", "a'b", 'c"d']
PHRASES = ["Johannes Brahms", "New York", "x # y", "#nocomment", "{a,b}", "  padded  ", "a = b", "say 'hi'", 'say "hi"', "(1+1)",
           "semi; colon", "tab-free text", "", "none ", "ends with hash #", "=", "[1, 2]", "it's", 'the "end"']
COMMENTS = ["c", "say \"hi\"", "it's", "x = 3", "# double", "units m", "'q' \"r\"", "a [1,2] {b}", "(x)", "true", "", "100 %", "b int = 5"]


def render_str(rng, s):
    """DIP literal for the string s (scalar)."""
    bare_ok = s != "" and not any(c in s for c in " #") and s[0] not in "{('\"" and s != "none" and "\\" not in s
    forms = []
    if bare_ok:
        forms += ["bare", "bare"]
    if '"' not in s:
        forms.append("dq")
    if "'" not in s:
        forms.append("sq")
    forms.append(rng.choice(["dqe", "sqe"]))
    f = rng.choice(forms)
    if f == "bare":
        return s
    if f == "dq":
        return '"%s"' % s
    if f == "sq":
        return "'%s'" % s
    if f == "dqe":
        return '"%s"' % s.replace('"', '\\"')
    return "'%s'" % s.replace("'", "\\'")


def gen_scalar(rng, ty):
    """(literal text, abstract value)"""
    if rng.random() < 0.06:
        return "none", None
    if ty == "bool":
        b = rng.random() < 0.5
        return ("true" if b else "false"), b
    if ty == "int":
        i = big_ints(rng)
        t = str(i)
        if rng.random() < 0.15:
            # zero padding is part of the integer literal: int('007') is 7
            t = ("-" if i < 0 else "") + rng.choice(["0", "00", "000"]) + str(abs(i))
        if i >= 0 and rng.random() < 0.1:
            t = "+" + t
        if rng.random() < 0.1:
            t = '"%s"' % t
        return t, i
    if ty == "float":
        t = rng.choice(FLOAT_FORMS)
        v = frac_of(t)
        if rng.random() < 0.1:
            t = "'%s'" % t
        return t, v
    s = rng.choice(WORDS + PHRASES)
    if s.strip() == "none" and s != "none ":
        s = "nonE"
    return render_str(rng, s), s


def gen_elem(rng, ty):
    if ty == "bool":
        b = rng.random() < 0.5
        return ("true" if b else "false"), b
    if ty == "int":
        i = rng.choice([0, 1, -1, 4234, 34, 2, -7, 2 ** 40, -2 ** 61, rng.randint(-99, 99)])
        return str(i), i
    if ty == "float":
        t = rng.choice(JSON_FLOATS)
        return t, frac_of(t)
    s = rng.choice(["John", "Patricia", "Lena", "a", "", "x1", "true", "7", "q-r", "it's"])
    return '"%s"' % s, s


def gen_array(rng, ty, shape, loose):
    """(json text, nested abstract value)"""
    if not shape:
        return gen_elem(rng, ty)
    parts = [gen_array(rng, ty, shape[1:], loose) for _ in range(shape[0])]
    sep = rng.choice([", ", ",  ", " , "]) if loose else ","
    inner = sep.join(p[0] for p in parts)
    if loose and rng.random() < 0.3:
        inner = " " + inner + " "
    return "[" + inner + "]", [p[1] for p in parts]


def gen_dims(rng, shape):
    out, dj = [], []
    for n in shape:
        r = rng.random()
        if r < 0.4:
            out.append(str(n)); dj.append([n, n])
        elif r < 0.55:
            out.append(":"); dj.append([None, None])
        elif r < 0.7:
            lo = rng.randint(0, n); out.append("%d:" % lo); dj.append([lo, None])
        elif r < 0.85:
            hi = n + rng.randint(0, 3); out.append(":%d" % hi); dj.append([None, hi])
        else:
            lo, hi = rng.randint(0, n), n + rng.randint(0, 2); out.append("%d:%d" % (lo, hi)); dj.append([lo, hi])
    return "[" + ",".join(out) + "]", dj


def gen_type(rng, ty):
    """(keyword text, precision, unsigned)"""
    if ty == "int":
        u = rng.random() < 0.4
        sfx = rng.choice(["", "16", "32", "64"])
        return ("u" if u else "") + "int" + sfx, int(sfx or 32), u
    if ty == "float":
        sfx = rng.choice(["", "32", "64", "128"])
        return "float" + sfx, int(sfx or 64), None
    return ty, None, None


def pick_unit(rng, ty, p=0.5):
    if ty in ("int", "float") and rng.random() < p:
        fam = rng.choice(sorted(LIN_UNITS))
        return rng.choice(LIN_UNITS[fam]), fam
    return None, None


def sp(rng, lo=1, hi=3):
    return " " * rng.randint(lo, hi)


def comment(rng, p=0.35, tight_ok=True):
    if rng.random() >= p:
        return ""
    lead = rng.choice(["", " ", "   "]) if tight_ok else rng.choice([" ", "   "])
    return lead + "#" + rng.choice(["", " "]) + rng.choice(COMMENTS)


class Line:
    """One rendered logical line (possibly a block spanning several text lines)."""

    def __init__(self, depth, name, head, tail_lines=None, payload=None, expect=None, kind="defn"):
        self.depth = depth          # tree depth (for indentation)
        self.name = name
        self.head = head            # text after the indentation
        self.tail_lines = tail_lines or []   # raw following lines of a block
        self.payload = payload      # abstract payload for the Lean spec
        self.expect = expect        # list of expected parameters relative to the parent path: [(relname, ty, prec, uns, unit, value)]
        self.kind = kind
        self.indent = 0


def gen_definition(rng, name, allow_block=True, allow_table=True, ty=None, unit_p=0.5):
    """Returns (head text after name, tail lines, payload, expect list [(relname, ty, prec, uns, unit, val)])."""
    r = rng.random()
    if allow_table and r < 0.07:
        return gen_table(rng, name) + (None,)
    ty = ty or rng.choice(["bool", "int", "float", "str"])
    kw, prec, uns = gen_type(rng, ty)
    unit, _ = pick_unit(rng, ty, unit_p)
    tail = []
    shape, dtext = None, ""
    if r < 0.3:                                    # array
        shape = rng.choice([[0], [1], [2], [3], [4], [2, 2], [2, 3], [1, 1], [3, 1, 2]])
        dtext, dj = gen_dims(rng, shape)
        form = rng.choice(["tight", "tight", "quoted", "block"] if allow_block else ["tight", "quoted"])
        if rng.random() < 0.05:
            lit, val, form = "none", None, "tight"
        elif form == "tight":
            lit, val = gen_array(rng, ty, shape, False)
            if ty == "str" and any(c in lit for c in " #"):
                form = "quoted"
        if form == "quoted":
            lit, val = gen_array(rng, ty, shape, True)
            if ty == "str":
                lit = "'" + lit.replace("'", "\\'") + "'"
            else:
                lit = rng.choice(['"%s"', "'%s'"]) % lit
        elif form == "block":
            lit, val = gen_array(rng, ty, shape, True)
            rows = lit.replace("], [", "],\n [").split("\n") if rng.random() < 0.7 else [lit]
            tail = rows[:-1] + [rows[-1]] if False else rows
            lit = None
        payload = ["defn", ty, prec, uns, dj, unit, to_json_val(val)]
        head = sp(rng) + kw + dtext
    elif allow_block and ty == "str" and r < 0.4:  # block string
        n = rng.randint(1, 4)
        rows = [rng.choice(["Lorem ipsum dolor", "  indented line", "x = 1 # not a comment", "say \"hi\"", "it's", "", "a", "[1,2]", "tail  ",
                            "#!/bin/bash", "#SBATCH --nodes=2", "   # indented hash", "#", "a int = 1", "  b float = 2 m", "@end",
                            "@case true", "!constant", "$unit x = 1 m", "= 3", "{?ref}", "grp", "C:\\data\\run1.h5 \\alpha", "O''Neil it's"]) for _ in range(n)]
        if all(x.strip() == "" for x in rows):
            rows[0] = "text"
        val = "\n".join(rows)
        if val == "none":
            val = "text"; rows = ["text"]
        tail, lit = rows, None
        payload = ["defn", ty, prec, uns, None, unit, to_json_val(val)]
        head = sp(rng) + kw
    else:
        lit, val = gen_scalar(rng, ty)
        payload = ["defn", ty, prec, uns, None, unit, to_json_val(val)]
        head = sp(rng) + kw
    eq = rng.choice([" = ", "=", " =", "= ", "  =  "])
    if lit is None:                                # block
        head += eq + '"""'
        close = rng.choice(["", "  ", "    "]) + '"""'
        if unit:
            close += sp(rng) + unit
        close += comment(rng, 0.3)
        tail = tail + [close]
    else:
        head += eq + lit
        if unit:
            head += sp(rng) + unit
        head += comment(rng)
    meta = {"ty": ty, "kw": kw, "prec": prec, "uns": uns, "shape": shape, "dtext": dtext, "dims": payload[4], "unit": unit}
    return head, tail, payload, [("", ty, prec, uns, unit, val)], meta


CSV_CELLS = [
    ("\\alpha", "\\alpha"), ("C:\\data\\run1.h5", "C:\\data\\run1.h5"), ("\\beta_2", "\\beta_2"),
    ("it's", "it's"), ("O''Neil", "O''Neil"), ("'q'", "'q'"), ("x\"y", "x\"y"), ("5'", "5'"),
    ("\"it's\"", "it's"), ("\"a b\"", "a b"), ("\"say \"\"hi\"\" x\"", "say \"hi\" x"), ("\"C:\\dir a\"", "C:\\dir a"),
    ("\"\"", ""), ("\"a\"b", "ab"), ("\"p q\"r", "p qr"),
]


def gen_table(rng, name):
    ncols = rng.randint(1, 4)
    nrows = rng.randint(1, 4)
    cols, used = [], set()
    for _ in range(ncols):
        cn = rng.choice(["time", "snapshot", "intensity", "name", "ok", "n1", "col-2", "v.w"])
        while cn in used:
            cn += "x"
        used.add(cn)
        ty = rng.choice(["int", "float", "str", "bool", "float", "int"])
        kw, prec, uns = gen_type(rng, ty)
        unit, _ = pick_unit(rng, ty, 0.5)
        inner = rng.choice([None, None, None, [2], [1], [2, 2]]) if ty != "str" else None
        hdr = cn + sp(rng) + kw
        if inner is not None:
            hdr += gen_dims(rng, inner)[0]
        if unit:
            hdr += sp(rng) + unit
        cols.append((cn, ty, prec, uns, unit, inner, hdr))
    rows, vals = [], [[] for _ in cols]
    for _ in range(nrows):
        cells = []
        for ci, (cn, ty, prec, uns, unit, inner, hdr) in enumerate(cols):
            if inner is not None:
                t, v = gen_array(rng, ty, inner, False)
            elif ty == "str":
                if rng.random() < 0.35:
                    # cells are split by csv rules: backslashes and apostrophes are literal, a field that starts with
                    # a double quote runs to the closing one and "" inside it is a quote character
                    t, v = rng.choice(CSV_CELLS)
                else:
                    v = rng.choice(["a", "John", "b c", "John Smith", "x1", "true", "12", "q-r", "#ff0000", "#", "@end", "!x", "a=1"])
                    t = '"%s"' % v if (" " in v or rng.random() < 0.3) else v
            elif ty == "int":
                v = rng.choice([0, 1, -3, 20, 2 ** 40, rng.randint(-99, 99)]); t = str(v)
            elif ty == "float":
                t = rng.choice(["0", "0.234", "1.355", "-2.5e-7", "23.4", "1e3", ".5", "4.", "-0.0"]); v = frac_of(t)
            else:
                v = rng.random() < 0.5; t = "true" if v else "false"
            cells.append(t)
            vals[ci].append(v)
        rows.append(rng.choice(["", "  "]) + " ".join(cells) + rng.choice(["", " "]))
    tail = [c[6] for c in cols] + [rng.choice(["", "  "])] + rows + [rng.choice(["", "  "]) + '"""' + comment(rng, 0.3)]
    head = sp(rng) + "table" + rng.choice([" = ", "=", " =  "]) + '"""'
    payload = ["table", [[c[0], c[1], c[2], c[3], [[nrows, nrows]], c[4], to_json_val(v)] for c, v in zip(cols, vals)]]
    expect = [(c[0], c[1], c[2], c[3], c[4], v) for c, v in zip(cols, vals)]
    return head, tail, payload, expect


# ---------------------------------------------------------------- tree generator
def gen_tree(rng, max_depth=8, size=None):
    """Returns list of Line in text order with tree depth, and the expected parameter list."""
    size = size or rng.randint(1, 18)
    lines, expected, used = [], [], set()
    rewritable = []       # (index in expected, path, meta) of plain definitions
    budget = [size]

    def fresh_name(prefix):
        for _ in range(50):
            nm = rng.choice(NAMES)
            full = prefix + [nm]
            path = ".".join(full)
            if path not in used and not any(u.startswith(path + ".") or path.startswith(u + ".") and False for u in used):
                return nm
        return "u%d" % len(used)

    def node(depth, prefix, widths):
        budget[0] -= 1
        nm = fresh_name(prefix)
        path = ".".join(prefix + [nm])
        is_group = rng.random() < (0.4 if depth < max_depth else 0.0)
        if is_group:
            used.add(path)
            ln = Line(depth, nm, nm + comment(rng, 0.3, tight_ok=False), payload=["group"], kind="group")
            lines.append(ln)
            has_children = True
        else:
            head, tail, payload, exp, meta = gen_definition(rng, nm)
            # avoid path collisions of table columns
            rels = [path + ("." + e[0] if e[0] else "") for e in exp]
            if any(r in used for r in rels):
                budget[0] += 1
                return
            used.update(rels)
            used.add(path)
            ln = Line(depth, nm, nm + head, tail, payload, kind="table" if payload[0] == "table" else "defn")
            ln.exp = exp
            lines.append(ln)
            for e, r in zip(exp, rels):
                expected.append([r, e[1], e[2], e[3], e[4], e[5]])
            if meta is not None:
                rewritable.append((len(expected) - 1, path, meta))
            has_children = payload[0] != "table" and rng.random() < 0.45
        start = len(lines)
        if has_children and depth < max_depth:
            k = rng.choice([1, 1, 2, 2, 3, 4])
            for _ in range(k):
                if budget[0] <= 0:
                    break
                node(depth + 1, prefix + [nm], widths)
        # a sibling group whose child lines are character-identical (same indentation, name, type, value):
        # common in real files (`cells int = 64` below both grid.x and grid.y)
        sub = lines[start:]
        leafs = [c for i, c in enumerate(sub) if c.depth == depth + 1 and getattr(c, "exp", None) is not None
                 and (i + 1 == len(sub) or sub[i + 1].depth <= depth + 1)]
        if leafs and rng.random() < 0.3:
            nm2 = fresh_name(prefix)
            path2 = ".".join(prefix + [nm2])
            if path2 not in used:
                used.add(path2)
                g2 = Line(depth, nm2, nm2 + comment(rng, 0.3, tight_ok=False), payload=["group"], kind="group")
                g2.width_from = ln
                lines.append(g2)
                for c in leafs:
                    rels = [path2 + "." + c.name + ("." + e[0] if e[0] else "") for e in c.exp]
                    if any(r in used for r in rels) or rng.random() < 0.2:
                        continue
                    used.update(rels)
                    used.add(path2 + "." + c.name)
                    lines.append(Line(depth + 1, c.name, c.head, list(c.tail_lines), c.payload, kind="clone"))
                    for e, r in zip(c.exp, rels):
                        expected.append([r, e[1], e[2], e[3], e[4], e[5]])

    while budget[0] > 0:
        node(0, [], None)
    # the same node written again (dotted spelling from the root): typed with its keyword (every width/sign
    # suffix) or untyped; the single resulting parameter keeps place, type, width/sign, unit and takes the new value
    if rewritable and rng.random() < 0.45:
        for _ in range(rng.choice([1, 1, 2, 3])):
            idx, path, meta = rng.choice(rewritable)
            ty = meta["ty"]
            if meta["shape"] is not None:
                lit, val = gen_array(rng, ty, meta["shape"], False) if rng.random() > 0.08 else ("none", None)
                if ty == "str" and any(c in lit for c in " #"):
                    lit = "'" + lit.replace("'", "\\'") + "'"
            else:
                lit, val = gen_scalar(rng, ty)
            typed = rng.random() < 0.5
            unit = meta["unit"] if (meta["unit"] and val is not None and rng.random() < 0.6) else None
            if typed:
                head = sp(rng) + meta["kw"] + meta["dtext"] + rng.choice([" = ", "=", " =  "]) + lit
            else:
                head = rng.choice([" = ", " =", "  =  "]) + lit
            if unit:
                head += sp(rng) + unit
            head += comment(rng)
            payload = ["assign", ty if typed else None, unit, to_json_val(val), meta["prec"], meta["uns"], meta["dims"]]
            lines.append(Line(0, path, path + head, [], payload, kind="rewrite"))
            expected[idx] = expected[idx][:5] + [val]
    return lines, expected


def assign_indents(rng, lines, base=None):
    """Consistent indentation: every parent chooses one width (1..7) for all its children."""
    if base is None:
        base = rng.choice([0, 0, 0, 0, 2, 5])
    stack = []          # (depth, indent, child_width)
    for ln in lines:
        while stack and stack[-1][0] >= ln.depth:
            stack.pop()
        if not stack:
            ln.indent = base
        else:
            ln.indent = stack[-1][1] + stack[-1][2]
        src = getattr(ln, "width_from", None)
        ln.width_used = src.width_used if src is not None else rng.randint(1, 7)
        stack.append((ln.depth, ln.indent, ln.width_used))


def noise_line(rng):
    r = rng.random()
    if r < 0.4:
        return " " * rng.choice([0, 0, 1, 3, 8])
    return " " * rng.choice([0, 0, 2, 5, 11]) + "#" + rng.choice(["", " "]) + rng.choice(COMMENTS)


def render(rng, lines, noise=0.25, preamble=None):
    out = []
    if preamble:
        out.append(preamble)
    if rng.random() < 0.2:
        out.append(noise_line(rng) if rng.random() < 0.5 else "")
    for ln in lines:
        while rng.random() < noise:
            out.append(noise_line(rng))
        out.append(" " * ln.indent + ln.head)
        out.extend(ln.tail_lines)
    while rng.random() < noise:
        out.append(noise_line(rng))
    return "\n".join(out)


def spec_lines(lines, preamble=None):
    """Abstract line sequence for the Lean specification (tables become their column lines)."""
    out = []
    if preamble:
        out.append([0, "", ["skip"]])
    for ln in lines:
        if ln.payload is None:
            out.append([ln.indent, "", ["skip"]])
        elif ln.payload[0] == "table":
            for col in ln.payload[1]:
                out.append([ln.indent, ln.name + "." + col[0], ["defn"] + col[1:]])
        else:
            out.append([ln.indent, ln.name, ln.payload])
    return out


def driver_payload(p):
    """generator payloads -> the payload forms of the Lean specification"""
    if p[0] == "defn":
        return ["typed", p[1], p[2], p[3], p[4], p[5], True, p[6]]
    if p[0] == "decl":
        return ["typed", p[1], p[2], p[3], p[4], p[5], False, None]
    if p[0] == "assign":
        if p[1] is None:
            return ["mod", p[2], p[3]]
        return ["typed", p[1], p[4], p[5], p[6], p[2], True, p[3]]
    return p


def units_in(lines_json):
    us = set()
    for l in lines_json:
        p = l[2]
        if p[0] in ("defn", "decl") and p[5]:
            us.add(p[5])
        if p[0] == "assign" and p[2]:
            us.add(p[2])
    return us


# ---------------------------------------------------------------- streams
CORPUS = [
    'a str = "x" # say "hi"',
    "a str = 'x' # it's",
    'name str = "" # ""',
    "general.colonel int = 1  # namespace notation\n  captain                # group nodes\n     soldier int = 2     # lowest node",
    "family\n  father str = 'Peter'\n    son str = 'Benjamin'\n  father.daughter str = 'Lucia'\nfamily.aunt.dog str = 'Lassie'",
    "a\n  b\n    c int = 1\n d int = 2\ne int = 3",
    "a\n      b\n            c\n                  d int = 1\n      e int = 2\nf int = 3",
    'velocity int[4,4] = """\n[[ 0, 1, 2, 4],\n [ 5, 6, 7, 8],\n [ 9,10,11,12],\n [13,14,15,16]]\n""" km/h   # units',
    'g\n  t table = """\nx int\ny float s\nz str\nw bool\n\n0 1.5 a true\n1 2.5 "b c" false\n"""\n  b int = 1',
    'outputs table = """\nname str\nnumbers int[3]\n\n"John Smith" [2,3,4]\n"Jennyfer Milton" [5,6,7]\n  """  # endquotes can be indented',
    "a str = ''\nb int = 0\nc float = -0.0 m\nd bool = false\ne str = none",
    'girl_friend str = "\\"l\'amie\\""    # escaping\nboy_friend str = \'"l\\\'ami"\'',
    "counts int[3] = \"[0, 1, 2]\"       # arrays with whitespaces\nanswers bool[2] = \"[true, false]\"\nnames str[2] = '[\"Jolana\", \"Anastasia\"]'",
    "u uint64 = 29349850209348495020394849\nl int64 = -239490304\nf float128 = -239490304\ng float32 = 1",
    "data float[2:,:2] = [[25,50],[34.2,95.1],[1e3,1e4]] kg",
    # instances of the text-level array theorems (C13_int/float/str_array_text, depth 3, every element kind)
    "m int[2,2,2] = [[[1,-2],[3,4]],[[5,6],[7,80]]] m   # depth 3",
    "f float32[2,2] = [[1.5,-2e3],[3E-2,4]] kg",
    'names str[2,1] = [["ab"],["c"]]   # strings',
    "flags bool[3] = [true,false,true]",
    "big int[:,1] = [[9223372036854775807],[-9223372036854775808]]",
    # instances of C13_literal_roundtrip_escaped_sq / C13_modify_roundtrip_escaped
    'a str = \'x\'\na = "say \\"hi\\""\nb str = \'it\\\'s # not\'  # c\nb   =  \'\\\'t is\' # c',
    # instances of C13_directive_lines_lexed
    "a int = 1\n   !constant   # frozen\nb int = 2", "  $unit length = 1 m\na int = 1",
    "a int = 1\n    $unit\tmass = 2 kg # c\nb int = 2",
    # instances of the scalar text-level theorems (C13_int/float/bool_scalar_text, C13_str_quoted_text)
    'i uint16 =  +0034 m  # c\nf float128   = -1.5E-3 s\ng float = .5\nh float = 5.\ns str = "x # y z" # c\nb bool = false#c',
]
MALFORMED = [
    "a int = 1.5", "a bool = True", "a int[2] = [1,2,3]", "a int[2] = [[1,2],[3]]", "a int = ", "a int = # c", "a boolean = true",
    "a int128 = 1", "a$ int = 1", "a# c", "a\tint = 1", "a str = x y", "a bool = true m", "a float = 1 qq", 'a str = """\nx',
    "a int[1,2] = [1]", "a int[1:2:3] = [1]", "a int[,] = [1]", "= 3", "a = 3", "!constant", "a int 5", "a float = 1 m junk",
    't table = """\nx int\n\n1 2\n"""', 't table = """\nx int # c\n\n1\n"""', 't table = """\n x int\n\n1\n"""', "a int = [1,2]",
    "a float = 1e", "a float = .", "a int = -", "a int[2] = [1,]", "a int[1] = [01]", "a float[1] = [+1]", "a float[1] = [.5]",
    "a str[1] = [x]", "a int\n", "a float m", "a int = 1\n  !constant\na = 2",
    # instances of C13_ragged_array_rejected (first item of another shape, anything after it)
    "a int[2,2] = [[1,2],[3],[4,5]]", "a int[2] = [[1],2]", 'a str[2] = [["a"],"b"]', "a float[2,2] = [[1,2],[3,[4]]]",
    "a int[2,2] = [[1,2],3,x]", "a int[1] = [9223372036854775808]",
]


# ---------------------------------------------------------------- the property's grammar, recognised independently
import re as _re

_NAME = r"[a-zA-Z0-9_.-]+"
_TYPE = r"(?:bool|str|u?int(?:16|32|64)?|float(?:32|64|128)?)"
_DIMS = r"(?:\[[0-9:,]+\])?"
_VALUE = r"(?:\"(?:[^\"\\]|\\[\"'])*\"|'(?:[^'\\]|\\[\"'])*'|[^ #\"'{(][^ #\"']*)"
_UNIT = r"(?: +[^ #=/*+\-][^ #=]*)?"
_TAIL = r" *(?:#.*)?$"
_RE_BLANK = _re.compile(r"^ *$")
_RE_COMMENT = _re.compile(r"^ *#.*$")
_RE_GROUP = _re.compile(r"^ *" + _NAME + r"(?: +#.*| *)$")
_RE_CONST = _re.compile(r"^ *!constant" + _TAIL)
_RE_UNITDEF = _re.compile(r"^\$unit +[a-zA-Z0-9_]+ *= *[^ #]+(?: +[^ #]+)? *$")
_RE_DEF = _re.compile(r"^ *" + _NAME + r" +" + _TYPE + _DIMS + r" *= *" + _VALUE + _UNIT + _TAIL)
_RE_DECL = _re.compile(r"^ *" + _NAME + r" +" + _TYPE + _DIMS + _UNIT + _TAIL)
_RE_MOD = _re.compile(r"^ *" + _NAME + r" += *" + _VALUE + _UNIT + _TAIL)
_RE_BLOCK_HEAD = _re.compile(r"^ *" + _NAME + r" +(?:" + _TYPE + _DIMS + r"|table) *= *\"\"\"$")
_RE_BLOCK_END = _re.compile(r"^ *\"\"\"" + _UNIT + _TAIL)


def in_grammar(text):
    """Independent (regex) recogniser of the texts the properties quantify over: blank/comment lines, group lines,
    typed definitions, declarations, modifications, !constant, $unit definitions, and definitions whose value is a
    triple-quoted block; printable ASCII, blanks as the only white space.  Deliberately strict: a text it rejects
    is outside the domain, and a difference between real code and model there is not a broken tie."""
    if any((ord(c) < 32 and c != "\n") or ord(c) > 126 for c in text):
        return False
    lines = text.split("\n")
    i = 0
    while i < len(lines):
        l = lines[i]
        if '"""' in l:
            if not _RE_BLOCK_HEAD.match(l):
                return False
            i += 1
            while i < len(lines) and '"""' not in lines[i]:
                i += 1
            if i == len(lines) or not _RE_BLOCK_END.match(lines[i]):
                return False
        elif not (_RE_BLANK.match(l) or _RE_COMMENT.match(l) or _RE_GROUP.match(l) or _RE_CONST.match(l)
                  or _RE_UNITDEF.match(l) or _RE_DEF.match(l) or _RE_DECL.match(l) or _RE_MOD.match(l)):
            return False
        i += 1
    return True


def report_tie_break(ctx, c, replay, detail):
    """A difference between real code and model breaks the tie only inside the property's domain: generated
    in-domain inputs (judge) and other texts the independent recogniser accepts.  Elsewhere it is counted and noted."""
    if c["judge"] or in_grammar(c["text"]):
        ctx.disagreement(c["stream"], replay, detail)
    else:
        ctx.count("mutated.out_of_domain_disagreement")
        if sum(1 for n in ctx.notes if n.startswith("out-of-domain")) < 3:
            ctx.notes.append("out-of-domain text on which real code and model differ (not judged): %r | %s" %
                             (c["text"][:240], detail[:160]))


def run_case(ctx, stream, text, lines_json, expected, units, nontriv, judge=True, preamble=UNIT_PREAMBLE):
    """One input: impl, model and (if lines_json) spec.  Returns the request for batching."""
    return {"stream": stream, "text": text, "lines": lines_json, "expected": expected,
            "units": units, "nontriv": nontriv, "judge": judge, "preamble": preamble}


def flush(ctx, cases, prop="C13", sig_fn=None):
    if not cases:
        return
    reqs = []
    for c in cases:
        rq = {"text": c["text"], "units": unit_rows(c["units"], c["preamble"])}
        if c["lines"] is not None:
            rq["lines"] = [[l[0], l[1], driver_payload(l[2])] for l in c["lines"]]
        reqs.append(rq)
    res = ctx.driver.ask_many(reqs)
    for c, r in zip(cases, res):
        ctx.count("stream." + c["stream"])
        impl = c["impl"] if "impl" in c else impl_run(c["text"])
        ctx.count("impl.err" if isinstance(impl, str) else "impl.ok")
        ctx.case(c["text"], c["nontriv"], {"text": c["text"][:400]} if c["nontriv"] else None)
        replay = {"stream": c["stream"], "text": c["text"], "units": sorted(c["units"]), "preamble": c["preamble"]}
        if "context" in c:
            replay["context"] = c["context"]
        if "ok" not in r:
            report_tie_break(ctx, c, replay, "driver error %s" % r)
            continue
        model = decode_result(r["ok"].get("model"))
        spec = decode_result(r["ok"]["spec"]) if "spec" in r["ok"] else None
        # oracle: real code vs specification (and vs the tree the generator rendered)
        if c["judge"] and spec is not None and spec != "unsupported":
            if c["expected"] is not None and not res_eq_exact(c["expected"], spec):
                ctx.disagreement(c["stream"] + ":spec-vs-tree", replay,
                                 "Lean spec %s vs generator tree %s" % (short(jsonable(spec)), short(jsonable(c["expected"]))))
            elif not res_eq(impl, spec):
                sig = (sig_fn or signature)(c, impl, spec)
                ctx.violation(sig, "%s: %s | text=%r" % (prop, first_diff(impl, spec), c["text"][:300]),
                              dict(replay, impl=jsonable(impl), spec=jsonable(spec)))
        # correspondence: real code vs model
        if model == "unsupported":
            ctx.count("model.unsupported")
            if c["judge"]:
                ctx.disagreement(c["stream"], replay, "model does not cover a generated in-domain input")
            continue
        impl_m = "err" if impl == "envbroken" else impl
        if not res_eq(impl_m, model):
            report_tie_break(ctx, c, dict(replay, impl=jsonable(impl), model=jsonable(model)), first_diff(impl, model))
        elif not c["judge"]:
            ctx.count("nongenerated.in_grammar" if in_grammar(c["text"]) else "nongenerated.out_of_grammar")


def res_eq_exact(a, b):
    if isinstance(a, str) or isinstance(b, str):
        return a == b
    return len(a) == len(b) and all(x[:5] == y[:5] and exact_eq(x[5], y[5]) for x, y in zip(a, b))


def exact_eq(x, y):
    if isinstance(x, list) or isinstance(y, list):
        return isinstance(x, list) and isinstance(y, list) and len(x) == len(y) and all(exact_eq(p, q) for p, q in zip(x, y))
    if isinstance(x, bool) or isinstance(y, bool) or isinstance(x, str) or isinstance(y, str) or x is None or y is None:
        return type(x) == type(y) and x == y
    return Fraction(x) == Fraction(y)


def signature(c, impl, spec):
    """Stable class key of an impl != spec input."""
    if impl == "envbroken":
        return "c13:%s:unusable-environment" % c["stream"]
    if isinstance(impl, str) and not isinstance(spec, str):
        return "c13:%s:rejected" % c["stream"]
    if isinstance(spec, str):
        return "c13:%s:accepted" % c["stream"]
    if [a[0] for a in impl] != [b[0] for b in spec]:
        return "c13:%s:paths" % c["stream"]
    for a, b in zip(impl, spec):
        if a[1:4] != b[1:4]:
            return "c13:%s:type" % c["stream"]
        if a[4] != b[4]:
            return "c13:%s:unit" % c["stream"]
        if not val_eq(a[5], b[5]):
            kind = "array" if isinstance(b[5], list) else ("none" if b[5] is None else b[1])
            return "c13:%s:value:%s" % (c["stream"], kind)
    return "c13:%s" % c["stream"]


def tree_case(ctx, rng):
    lines, expected = gen_tree(rng)
    assign_indents(rng, lines)
    text = render(rng, lines, preamble=UNIT_PREAMBLE)
    lj = spec_lines(lines, UNIT_PREAMBLE)
    depths = [l.depth for l in lines]
    deind = any(depths[i] - depths[i + 1] >= 2 for i in range(len(depths) - 1))
    nontriv = max(depths) >= 2 or deind or any(l.tail_lines for l in lines)
    ctx.count("tree.maxdepth.%d" % max(depths))
    if deind:
        ctx.count("tree.multi-level-deindent")
    variant = rng.random()
    extra = {}
    if variant < 0.2 and len(lines) >= 2:
        # the same program as a chain of two parses on one environment (the second text may restate nodes of the
        # first, typed or untyped): one parameter per node, in order of first appearance, also across parses
        cut = rng.randrange(1, len(lines))
        t1 = render(rng, lines[:cut], preamble=UNIT_PREAMBLE)
        t2 = render(rng, lines[cut:], preamble=None)
        text = t1 + "\n" + t2
        extra = {"impl": impl_run_chain([t1, t2]), "context": {"variant": "chain of two parses", "stages": [t1, t2]}}
        ctx.count("tree.chain-of-two-parses")
    elif variant < 0.4:
        # the text is read from a FILE (add_file strips leading/trailing empty lines like add_string does); no
        # preamble, so that the first non-empty line may be an indented one
        text = rng.choice(["", "\n", "  \n\n"]) + render(rng, lines, preamble=None) + rng.choice(["", "\n", "\n   \n"])
        lj = spec_lines(lines, None)
        extra = {"impl": impl_run_file(text), "preamble": None, "context": {"variant": "add_file"}}
        ctx.count("tree.add_file")
        if lines and lines[0].indent > 0:
            ctx.count("tree.add_file.first-line-indented")
    for l in lines:
        ctx.count("line." + l.kind)
        if l.kind == "rewrite":
            ctx.count("rewrite." + ("typed" if l.payload[1] else "untyped"))
            if l.payload[5] is not None or l.payload[4] not in (None, 32, 64):
                ctx.count("rewrite.nondefault-width-or-sign")
    c = run_case(ctx, "tree", text, lj, expected, units_in(lj) | {"m"}, nontriv)
    if extra.get("preamble", 0) is None:
        c["preamble"] = None
        # without the $unit line the custom unit does not exist: the generator's expectation does not apply
        if any("[len]" == u for u in c["units"]):
            c["expected"] = None
    for k in ("impl", "context"):
        if k in extra:
            c[k] = extra[k]
    return c


_scratch = {}


def scratch_dir():
    import atexit, shutil, tempfile
    if "d" not in _scratch:
        _scratch["d"] = tempfile.mkdtemp(prefix="verif_c13_")
        atexit.register(shutil.rmtree, _scratch["d"], True)
    return _scratch["d"]


def impl_run_file(text):
    """the text written to a scratch file and read with DIP.add_file"""
    import os
    from scinumtools.dip import DIP
    _scratch["n"] = _scratch.get("n", 0) + 1
    path = os.path.join(scratch_dir(), "t%d.dip" % _scratch["n"])
    with open(path, "w") as f:
        f.write(text)
    try:
        with DIP() as p:
            p.add_file(path)
            env = p.parse()
    except Exception:
        return "err"
    finally:
        os.unlink(path)
    return read_env(env)


def impl_run_chain(texts):
    from scinumtools.dip import DIP
    env, keep = None, []
    try:
        for t in texts:
            p = DIP(env) if env is not None else DIP()
            keep.append(p)
            p.add_string(t)
            env = p.parse()
    except Exception:
        return "err"
    return read_env(env)


def flat_case(ctx, rng):
    """Arbitrary indentation numbers: only the Lean specification knows the expected paths."""
    n = rng.randint(1, 14)
    out, lj, used = [], [], 0
    for _ in range(n):
        ind = rng.choice([0, 0, 1, 2, 3, 4, 5, 7, 8, 12])
        used += 1
        nm = "%s%d" % (rng.choice(["a", "b", "g.h", "k-"]), used)      # distinct names => distinct paths
        if rng.random() < 0.35:
            out.append(" " * ind + nm + comment(rng, 0.3, tight_ok=False))
            lj.append([ind, nm, ["group"]])
        else:
            head, tail, payload, exp, _ = gen_definition(rng, nm, allow_block=False, allow_table=False)
            out.append(" " * ind + nm + head)
            lj.append([ind, nm, payload])
        if rng.random() < 0.2:
            out.append(noise_line(rng))
    text = "\n".join(out)
    return run_case(ctx, "flat", text, [[0, "", ["skip"]]] + lj, None, units_in(lj) | {"m"}, n >= 4,
                    preamble=UNIT_PREAMBLE) | {"text": UNIT_PREAMBLE + "\n" + text}


def unit_tokens(text):
    """every token of the text that could be read as a unit (unknown ones are dropped by unit_rows)"""
    import re
    return set(t for t in re.findall(r"[^\s#=]+", text) if len(t) <= 40)


def same_base_cases(ctx, rng):
    """Two texts parsed one after the other FROM THE SAME base environment (a prepared Environment handed to two
    parsers, or one parser object that gets a second add_string after its first parse): the parses are independent, so
    each result is what the text alone gives.  The first text usually ends deep inside groups, the second one is
    indented as a whole."""
    from scinumtools.dip import DIP, Environment
    l1, e1 = gen_tree(rng, size=rng.randint(2, 8))
    assign_indents(rng, l1, base=0)
    l2, e2 = gen_tree(rng, size=rng.randint(1, 6))
    assign_indents(rng, l2, base=rng.choice([1, 2, 4, 4, 7, 12]))
    t1 = render(rng, l1, noise=0.1, preamble=UNIT_PREAMBLE)
    t2 = render(rng, l2, noise=0.1, preamble=UNIT_PREAMBLE)
    keep = []
    variant = rng.choice(["two parsers on one Environment", "one parser, second add_string"])
    ctx.count("same-base." + variant.split(",")[0].replace(" ", "-"))
    res = []
    try:
        if variant.startswith("two"):
            base = Environment()
            for t in (t1, t2):
                p = DIP(base)
                keep.append(p)
                p.add_string(t)
                try:
                    res.append(read_env(p.parse()))
                except Exception:
                    res.append("err")
        else:
            p = DIP()
            keep.append(p)
            for t in (t1, t2):
                p.add_string(t)
                try:
                    res.append(read_env(p.parse()))
                except Exception:
                    res.append("err")
    except Exception:
        res = (res + ["err", "err"])[:2]
    out = []
    for t, ls, ex, r, tag in ((t1, l1, e1, res[0], "first"), (t2, l2, e2, res[1], "second")):
        lj = spec_lines(ls, UNIT_PREAMBLE)
        c = run_case(ctx, "same-base:" + tag, t, lj, ex, units_in(lj) | {"m"}, True)
        c["impl"] = r
        c["text"] = t if tag == "first" else t
        c["context"] = {"variant": variant, "first_text": t1}
        out.append(c)
    return out


def mutate(rng, text):
    if not text:
        return text
    i = rng.randrange(len(text))
    r = rng.random()
    alphabet = " =#[],:\"'ab1.-m\n"
    if r < 0.4:
        return text[:i] + text[i + 1:]
    if r < 0.8:
        return text[:i] + rng.choice(alphabet) + text[i:]
    return text[:i] + rng.choice(alphabet) + text[i + 1:]


def correspond(ctx):
    thorough = ctx.tier == "thorough"
    rng = ctx.rng
    cases = []
    for t in CORPUS:
        cases.append(run_case(ctx, "corpus", t, None, None, {"m", "km/h", "s", "kg"}, True, judge=False, preamble=None))
    for t in MALFORMED:
        cases.append(run_case(ctx, "malformed", t, None, None, {"m", "s"}, False, judge=False, preamble=None))
    flush(ctx, cases)
    # corpus inputs with a known expected result (recon defects, now fixed)
    known = [
        ('a str = "x" # say "hi"', [["a", "str", None, None, None, "x"]]),
        ("a str = ''", [["a", "str", None, None, None, ""]]),
        ('t table = """\nw bool\n\ntrue\nfalse\n"""', [["t.w", "bool", None, None, None, [True, False]]]),
    ]
    # a string that contains the parser's own escape marks literally (fixed e0ecb06: `$@01` came back as `"`), in every
    # string position: quoted (both quotes), bare, next to real escapes, in an array, in a modification
    known += [
        ('t str = "a$@01b"', [["t", "str", None, None, None, "a$@01b"]]),
        ("t str = 'x$@00y'", [["t", "str", None, None, None, "x$@00y"]]),
        ('t str = "p$@02q"', [["t", "str", None, None, None, "p$@02q"]]),
        ('t str = a$@01b', [["t", "str", None, None, None, "a$@01b"]]),
        ('t str = "it\\\'s $@ \\"q\\" $$@00"', [["t", "str", None, None, None, 'it\'s $@ "q" $$@00']]),
        ('t str[2] = ["$@01","b"]', [["t", "str", None, None, None, ["$@01", "b"]]]),
        ('t str = "v"\nt = "w$@02"', [["t", "str", None, None, None, "w$@02"]]),
    ]
    marks = ["$@00", "$@01", "$@02", "$@03", "$@", "$", "@01", "$@0"]
    mark_bodies = ["a$@01b", "x$@00y", "p$@02q", "$@03", "$$@", "$@$@0303"]
    for _ in range(200 if thorough else 30):
        body = "".join(rng.choice(marks + ["a", "b ", "x1", "_", "."]) for _ in range(rng.randint(1, 5)))
        body = body.strip() or "$@01"
        if rng.random() < 0.3:     # bare string: one token without blanks, '#', quotes
            bare = body.replace(" ", "")
            known.append(("g\n  t str = %s" % bare, [["g.t", "str", None, None, None, bare]]))
        else:
            q = rng.choice(['"', "'"])
            known.append(("t str = %s%s%s" % (q, body, q), [["t", "str", None, None, None, body]]))
        ctx.count("marks.generated")
        mark_bodies.append(body if not known[-1][0].startswith("g") else body.replace(" ", ""))
    # tie of the repaired mark functions (Lemmas/C13q.lean: encodeM / decodeM, theorem C13_literal_marks_survive) to the
    # code: the model's round trip of the text, the value the real parser returns for `t str = "<text>"`, and the text
    res = ctx.driver.ask_many([{"p": "C13", "marks": b} for b in mark_bodies])
    for b, r in zip(mark_bodies, res):
        got = impl_run('t str = "%s"' % b)
        real = got[0][5] if isinstance(got, list) and len(got) == 1 else got
        mod = r.get("ok", {}).get("marks")
        ctx.count("marks.tie")
        if mod != real:
            ctx.disagreement("marks", {"text": 't str = "%s"' % b}, "model decodeM(encodeM) %r, real value %r" % (mod, real))
    for text, exp in known:
        impl = impl_run(text)
        ctx.case(text, True)
        if not res_eq(impl, exp):
            ctx.violation("c13:corpus:" + exp[0][1] + (":mark" if "$" in text else ""), "C13: %s | text=%r" % (first_diff(impl, exp), text),
                          {"stream": "corpus", "text": text, "impl": jsonable(impl), "spec": jsonable(exp)})
    n_tree, n_flat, n_mal = (6000, 3000, 3000) if thorough else (700, 300, 300)
    batch = []
    for _ in range(n_tree):
        batch.append(tree_case(ctx, rng))
    flush(ctx, batch)
    batch = [flat_case(ctx, rng) for _ in range(n_flat)]
    flush(ctx, batch)
    batch = []
    for _ in range(400 if thorough else 100):
        batch += same_base_cases(ctx, rng)
    flush(ctx, batch)
    # malformed stream: single-character edits of valid texts, real code vs model only
    batch = []
    for _ in range(n_mal):
        lines, _ = gen_tree(rng, size=rng.randint(1, 5))
        assign_indents(rng, lines)
        text = mutate(rng, render(rng, lines, noise=0.1))
        batch.append(run_case(ctx, "mutated", text, None, None, unit_tokens(text), False, judge=False, preamble=None))
    flush(ctx, batch)


def replay(ctx, payload):
    text = payload.get("replay", payload).get("text")
    if text is None:
        print(json.dumps(payload, indent=1)[:3000])
        return 2
    impl = impl_run(text)
    print("text:\n%s\n--- real code:\n%s" % (text, short(jsonable(impl))))
    rp = payload.get("replay", payload)
    if "spec" in rp:
        print("--- specification:\n%s" % short(rp["spec"]))
    return 0
