"""C12 — densities, volume and masses of matter: correspondence (impl vs Lean model of Matter._norm /
data_matter incl. the history of _norm calls) and oracle (impl vs Lean specification; unit independence
checked on the real classes)."""
import json
import warnings
warnings.filterwarnings("ignore", category=SyntaxWarning)
import math
from fractions import Fraction

from harness.core import Ctx, VERIF
from harness.util import rel_close
from harness.props import c11 as C11

RULE = ("elements, substances (formula string or dict of elements) and materials (1..5 substances, dict or '<..>' "
        "string, every norm_type) with a mass density or a number density (sometimes both) and optionally a volume, "
        "log-uniform positive values, a quarter of the composites modified after construction with add() of a present or a new component, substances with their own proportion != 1, tables of selected components requested before and after the full table, the quantity=True form of the table compared cell by cell, the public attributes composite_mass / component_mass read after construction, quantities handed out by the object (attributes, constructor arguments, table cells, component masses) converted in place before reading / before add() on 30 % of the cases, histories (operand with a density in a + b / b + a, add() on the sum, operand re-read), each quantity given in a randomly chosen compatible unit and a second time in another "
        "unit; corpus first. non-trivial = at least two components and a volume or a non-standard unit; distinct = "
        "canonical JSON of the case")
ASSUMPTIONS = [
    "positive finite densities, volumes, proportions; at least one density is attached (volume alone is outside the property)",
    "an Element with proportion p is the one-component composite (p, atomic mass): its formula unit has mass p*m",
    "unit magnitudes (factor of a unit in g/cm3, cm-3, cm3; Da in g) are read from the live unit tables; the correctness of linear conversion is property C04",
    "component masses are read from data_components() / component_mass (their correctness is C10)",
    "floats are compared with relative tolerance 1e-9 to exact rational values",
    "MASS_FRACTION materials: the code raises for every attached density (known finding); the Lean model mirrors this, the specification is not defined there",
]
EXPLANATION = ("theorems: for every history of _norm calls made by either constructor, in the number modes, the attached density "
               "is reported unchanged, rho = n*M, mass = rho*V, the sum row of data_matter equals rho / mass, n_i = p_i*n, "
               "N_i = n_i*V; results depend only on the values in standard units; counterexample theorem for MASS_FRACTION")

RHO_UNITS = ["g/cm3", "kg/m3", "g/l", "kg/l", "mg/cm3", "g/m3", "kg/dm3", "mg/mm3", "ug/cm3", "g/ml"]
N_UNITS = ["cm-3", "m-3", "l-1", "dm-3", "mm-3", "ml-1", "um-3"]
V_UNITS = ["cm3", "l", "m3", "dm3", "ml", "mm3", "km3"]
STD = {"rho": "g/cm3", "n": "cm-3", "vol": "cm3"}
_factors = {}


def factor(kind, unit):
    """magnitude of `unit` in the standard unit of its kind, from the live unit tables (None: unit unknown)"""
    key = (kind, unit)
    if key not in _factors:
        from scinumtools.units import Quantity
        try:
            f = float(Quantity(1.0, unit).value(STD[kind]))
            _factors[key] = f if f > 0 and math.isfinite(f) else None
        except Exception:  # noqa
            _factors[key] = None
    return _factors[key]


def dalton():
    from scinumtools.units import Quantity
    return float(Quantity(1.0, 'Da').value('g'))


def usable(kind, units):
    return [u for u in units if factor(kind, u)]


def lograndom(rng, lo, hi):
    return math.exp(rng.uniform(math.log(lo), math.log(hi)))


def gen_case(rng, nat, allsym):
    natural = rng.random() < 0.6
    syms = nat if natural else allsym
    r = rng.random()
    if r < 0.12:
        case = {"kind": "element", "expr": rng.choice(syms), "natural": natural,
                "proportion": rng.choice([1, 2, 3, 12, 0.5, 0.25, 0.1, 1e-3, 1.5])}
    elif r < 0.4:
        f = rng.choice(C11.POOL) if rng.random() < 0.6 else C11.rand_formula(rng, syms)
        case = {"kind": "substance", "formula": f, "natural": natural, "via": rng.choice(["string", "string", "dict"]),
                "proportion": rng.choice([1, 1, 2, 3, 0.5, 10])}     # a substance may itself be a component
        if case["via"] == "dict":
            k = rng.choice([1, 2, 3, 4])
            case["comps"] = [[s, rng.choice([1, 1, 2, 3, 4, 6])] for s in rng.sample(syms, k)]
    else:
        k = rng.choice([1, 2, 2, 3, 3, 4, 5])
        subs = []
        while len(subs) < k:
            f = rng.choice(C11.POOL) if rng.random() < 0.6 else C11.rand_formula(rng, syms)
            if f not in subs:
                subs.append(f)
        via = "string" if rng.random() < 0.3 else "dict"
        props = [C11.rand_prop(rng) for _ in subs]
        if via == "string":
            props = [float("%.4f" % max(p, 0.0001)) for p in props]
        mode = rng.choice(["NUMBER", "NUMBER_FRACTION", "NUMBER_FRACTION", "MASS_FRACTION"])
        case = {"kind": "material", "mode": mode, "natural": natural, "via": via,
                "comps": [[f, p] for f, p in zip(subs, props)]}
    g = rng.random()
    ru, nu, vu = usable("rho", RHO_UNITS), usable("n", N_UNITS), usable("vol", V_UNITS)

    def q(kind, units, std_lo, std_hi):
        u = rng.choice(units)
        u2 = rng.choice(units)
        std = lograndom(rng, std_lo, std_hi)
        return [std / factor(kind, u), u, std / factor(kind, u2), u2]
    case["rho"] = q("rho", ru, 1e-6, 30.0) if g < 0.5 or g > 0.93 else None
    case["n"] = q("n", nu, 1e15, 1e24) if g >= 0.5 else None
    case["vol"] = q("vol", vu, 1e-3, 1e9) if rng.random() < 0.6 else None
    if case["kind"] != "element" and rng.random() < 0.25:
        # the object is modified after construction: add() of an already present (or, for
        # substances, sometimes a new) component; _norm runs again
        case["then_add"] = [rng.randrange(8), rng.choice([1, 2, 3, 0.5, 0.25, 10])]
        if rng.random() < 0.4:      # ... or of a new one
            case["then_add"].append("Xe" if case["kind"] == "substance" else "XeF4")
    if rng.random() < 0.3 and (case.get("rho") or case.get("n")):
        # quantities handed out by the object are converted in place by the caller before the reads (and before add())
        case["perturb"] = [w for w in ("attr", "args", "cells", "masses") if rng.random() < 0.6] or ["attr"]
    if case["kind"] != "element" and rng.random() < 0.5:
        # tables of selected components are requested before and after the full table
        case["keeps"] = [[rng.random() < 0.5 for _ in range(8)] for _ in range(2)]
    if rng.random() < 0.03:
        # a volume without any density: outside the property (the constructor raises: None * Quantity);
        # only impl vs model is compared
        case["rho"], case["n"] = None, None
        case["vol"] = q("vol", vu, 1e-3, 1e9)
    return case


# ------------------------------------------------------------------ real code
def build(case, alt=False):
    from scinumtools.materials import Material, Substance, Element, Norm
    from scinumtools.units import Quantity
    kw = {}
    i = 2 if alt else 0
    if case.get("rho"):
        kw["mass_density"] = Quantity(case["rho"][i], case["rho"][i + 1])
    if case.get("n"):
        kw["number_density"] = Quantity(case["n"][i], case["n"][i + 1])
    if case.get("vol"):
        kw["volume"] = Quantity(case["vol"][i], case["vol"][i + 1])
    if case["kind"] == "element":
        return Element(case["expr"], proportion=case.get("proportion", 1), natural=case["natural"], **kw)
    if case["kind"] == "substance":
        if case.get("via") == "dict":
            obj = Substance({s: c for s, c in case["comps"]}, proportion=case.get("proportion", 1.0), natural=case["natural"], **kw)
        else:
            obj = Substance(case["formula"], proportion=case.get("proportion", 1.0), natural=case["natural"], **kw)
    else:
        if case["via"] == "string":
            expr = " ".join("%.4f <%s>" % (p, f) for f, p in case["comps"])
        else:
            expr = {f: p for f, p in case["comps"]}
        obj = Material(expr, natural=case["natural"], norm_type=getattr(Norm, case["mode"]), **kw)
    if case.get("perturb"):
        perturb(case, obj, kw)
    if case.get("then_add"):
        keys = list(obj.components.keys())
        ta = case["then_add"]
        obj.add(ta[2] if len(ta) > 2 and ta[2] not in keys else keys[ta[0] % len(keys)], ta[1])
    return obj


def perturb(case, obj, kw):
    """the caller converts, IN PLACE, quantities the object handed out (attributes, the caller's own arguments,
    table cells, component masses) to other units; what they denote does not change"""
    def conv(q, unit):
        try:
            if q is not None and hasattr(q, "to"):
                q.to(unit)
        except Exception:  # noqa
            pass           # a handed-out object that cannot be converted is not part of this step
    sel = case["perturb"]
    if "attr" in sel:
        conv(getattr(obj, "number_density", None), "m-3")
        conv(getattr(obj, "mass_density", None), "kg/m3")
        conv(getattr(obj, "volume", None), "m3")
        if case.get("vol"):
            conv(getattr(obj, "mass", None), "kg")
    if "args" in sel:
        for k, unit in (("number_density", "mm-3"), ("mass_density", "mg/cm3"), ("volume", "l")):
            conv(kw.get(k), unit)
    if case["kind"] == "element":
        return
    if "cells" in sel and (case.get("rho") or case.get("n")):
        dm = obj.data_matter(quantity=True)
        for k in list(obj.components.keys()):
            conv(dm[k].n, "m-3")
            conv(dm[k].rho, "kg/m3")
            if case.get("vol"):
                conv(dm[k].M, "kg")
    if "masses" in sel:
        dc = obj.data_components(quantity=True)
        keys = list(obj.components.keys())
        for j, k in enumerate(keys):
            if j % 2 == 0:
                conv(dc[k].mass, "g")
            else:
                conv(obj.components[k].component_mass, "kg")


def observe(case, obj):
    out = {}
    if case["kind"] == "element":
        keys = [obj.expr]
        out["p"] = [float(obj.proportion)]
        out["m"] = [float(obj.component_mass.value('Da'))]
        out["mode"] = "NUMBER"
    else:
        keys = list(obj.components.keys())
        dc = obj.data_components(quantity=False)
        out["p"] = [float(obj.components[k].proportion) for k in keys]
        out["m"] = [float(dc[k].mass) for k in keys]
        out["mode"] = case.get("mode", "NUMBER") if case["kind"] == "material" else "NUMBER"
    out["keys"] = keys
    if out["mode"] != "MASS_FRACTION":
        # public attributes: the mass of one formula unit (and, for components, of one unit of the component)
        out["composite_mass"] = float(obj.composite_mass.value('Da'))
        if case["kind"] != "material":
            out["component_mass"] = float(obj.component_mass.value('Da'))
    out["rho"] = float(obj.mass_density.value('g/cm3'))
    out["n"] = float(obj.number_density.value('cm-3'))
    hasvol = case.get("vol") is not None
    out["mass"] = float(obj.mass.value('g')) if hasvol else None
    def table(dmx, ks):
        t = {"keys": [k for k in dmx.keys() if k not in ("avg", "sum")],
             "n": [float(dmx[k].n) for k in ks], "rho": [float(dmx[k].rho) for k in ks],
             "N": [float(dmx[k].N) for k in ks] if hasvol else None, "M": [float(dmx[k].M) for k in ks] if hasvol else None}
        sm = dmx['sum']
        t["sum"] = {"n": float(sm.n), "rho": float(sm.rho), "N": float(sm.N) if hasvol else None, "M": float(sm.M) if hasvol else None}
        return t
    masks = [(m + [True] * len(keys))[:len(keys)] for m in case.get("keeps", [])] if case["kind"] != "element" else []
    masks = [m if any(m) else [True] + m[1:] for m in masks]
    out["keeps"], out["sel"] = masks, []
    if masks:      # a selection first ...
        ks = [k for k, b in zip(keys, masks[0]) if b]
        out["sel"].append(table(obj.data_matter(components=ks, quantity=False), ks))
    dm = obj.data_matter(quantity=False)        # ... then the full table ...
    if case["kind"] != "element":
        out["full_keys"] = [k for k in dm.keys() if k not in ("avg", "sum")]
        if out["full_keys"] != keys:
            raise SelectionLeak("data_matter() requested after data_matter(components=%s) lists %s, the components are %s" %
                                ([k for k, b in zip(keys, masks[0]) if b] if masks else None, out["full_keys"], keys))
    if len(masks) > 1:                          # ... then another selection
        ks = [k for k, b in zip(keys, masks[1]) if b]
        out["sel"].append(table(obj.data_matter(components=ks, quantity=False), ks))
    # the QUANTITY form of the same table: every cell, converted to the standard unit, is the same number
    dq = obj.data_matter(quantity=True)
    out["q_n"] = [float(dq[k].n.value('cm-3')) for k in keys]
    out["q_rho"] = [float(dq[k].rho.value('g/cm3')) for k in keys]
    out["q_M"] = [float(dq[k].M.value('g')) for k in keys] if hasvol else None
    out["q_N"] = [float(dq[k].N.value()) if hasattr(dq[k].N, "value") else float(dq[k].N) for k in keys] if hasvol else None
    out["n_i"] = [float(dm[k].n) for k in keys]
    out["rho_i"] = [float(dm[k].rho) for k in keys]
    out["N_i"] = [float(dm[k].N) for k in keys] if hasvol else None
    out["M_i"] = [float(dm[k].M) for k in keys] if hasvol else None
    if case["kind"] != "element":
        s = dm['sum']
        out["sum"] = {"n": float(s.n), "rho": float(s.rho),
                      "N": float(s.N) if hasvol else None, "M": float(s.M) if hasvol else None}
    else:
        out["sum"] = None
    return out


class SelectionLeak(Exception):
    pass


def run_impl(case, alt=False):
    try:
        return observe(case, build(case, alt))
    except SelectionLeak as e:
        return {"err": str(e), "selection": True}
    except Exception as e:  # noqa
        return {"err": repr(e)[:300]}


def probe(case):
    """proportions / masses of the composite built without matter (for the model when the real call raises)"""
    c = dict(case, rho=None, n=None, vol=None)
    try:
        obj = build(c)
        if case["kind"] == "element":
            return [float(obj.proportion)], [float(obj.component_mass.value('Da'))]
        keys = list(obj.components.keys())
        dc = obj.data_components(quantity=False)
        return [float(obj.components[k].proportion) for k in keys], [float(dc[k].mass) for k in keys]
    except Exception:  # noqa
        return None


def qpair(kind, q):
    if not q:
        return None
    return [C11.frac(q[0]), C11.frac(factor(kind, q[1]))]


def request(case, imp):
    if "err" in imp:
        pm = probe(case)
        if pm is None:
            return None
        ps, ms = pm
    else:
        ps, ms = imp["p"], imp["m"]
    mode = case.get("mode", "NUMBER") if case["kind"] == "material" else "NUMBER"
    via = "dict" if (case["kind"] in ("material", "substance") and case.get("via") == "dict") else "string"
    hist = None
    if case.get("then_add"):
        # history of component lists seen by _norm: the constructor's, then the modified object
        ta = case["then_add"]
        names = [c[0] for c in case["comps"]] if case.get("comps") and (case["kind"] == "material" or case.get("via") == "dict") else None
        if len(ta) > 2 and (names is None or ta[2] not in names) and len(ps) >= 2 and not (names is None and ta[2] in (case.get("formula") or "")):
            orig, ms0 = ps[:-1], ms[:-1]          # the new component is the last one
        else:
            idx = ta[0] % len(ps)
            orig, ms0 = [p - (ta[1] if k == idx else 0) for k, p in enumerate(ps)], ms
        if min(orig) <= 0:
            return None
        comps0 = [[C11.frac(p), C11.frac(m)] for p, m in zip(orig, ms0)]
        hist = ([comps0[:k + 1] for k in range(len(comps0))] if via == "dict" else []) + [comps0]
    req = {"k": "matter", "mode": mode, "comps": [[C11.frac(p), C11.frac(m)] for p, m in zip(ps, ms)],
            "da": C11.frac(dalton()), "rho": qpair("rho", case.get("rho")), "n": qpair("n", case.get("n")),
            "vol": qpair("vol", case.get("vol")), "via": via}
    if hist is not None:
        req["hist"] = hist
    if "err" not in imp and imp.get("keeps"):
        req["keeps"] = imp["keeps"]
    return req


close = C11.close
uf = C11.unfrac


def cmp_list(a, b):
    return a is not None and b is not None and len(a) == len(b) and all(close(x, uf(y)) for x, y in zip(a, b))


def judge(case, imp, res, imp2=None):
    viol, dis = [], []
    mode = case.get("mode", "NUMBER") if case["kind"] == "material" else "NUMBER"
    given = "rho" if case.get("rho") else "n"
    if res is None:
        return viol, dis
    if "ok" not in res:
        dis.append(("driver", "driver error %s" % res))
        return viol, dis
    r = res["ok"]
    if r["model"] == "out-of-domain":
        return viol, dis
    if not case.get("rho") and not case.get("n"):
        if ("err" in imp) != (r["model"] == "err"):
            dis.append(("matter", "volume only: impl %s, model %s" % ("raises" if "err" in imp else "ok", json.dumps(r["model"])[:100])))
        return viol, dis
    if "err" in imp and imp.get("selection"):
        viol.append(("matter:selection", imp["err"]))
        return viol, dis
    if "err" in imp:
        if mode == "MASS_FRACTION":
            viol.append(("matter:MASS_FRACTION:density", "attaching a density to a MASS_FRACTION material raises: %s" % imp["err"]))
        else:
            viol.append(("matter:%s:error" % case["kind"], "attaching %s to a valid %s raises: %s" % (given, case["kind"], imp["err"])))
        if r["model"] != "err":
            dis.append(("matter", "impl raises, model %s" % json.dumps(r["model"])[:200]))
        return viol, dis
    hasvol = case.get("vol") is not None
    # ---- the object must still hold the composition it was given (nobody else may change it)
    want = expected_props(case)
    if want is not None:
        got = dict(zip(imp["keys"], imp["p"]))
        if set(got) != set(want) or any(not close(got[k], want[k]) for k in want):
            viol.append(("matter:composition-changed", "the %s was given the composition %s but now holds %s" % (case["kind"], want, got)))
            return viol, dis
    # ---- public attributes: composite_mass = sum p_i m_i (the formula unit of the spec); component_mass = one unit
    if imp.get("composite_mass") is not None:
        unit_mass = math.fsum(p * m for p, m in zip(imp["p"], imp["m"]))
        if not close(imp["composite_mass"], unit_mass):
            viol.append(("matter:attribute:composite_mass", "composite_mass of the %s is %r Da, the formula unit sum(p_i*m_i) is %r Da" %
                         (case["kind"], imp["composite_mass"], unit_mass)))
            return viol, dis
        if imp.get("component_mass") is not None:
            one = imp["m"][0] if case["kind"] == "element" else unit_mass
            if not close(imp["component_mass"], one):
                viol.append(("matter:attribute:component_mass", "component_mass of the %s is %r Da, expected %r Da" %
                             (case["kind"], imp["component_mass"], one)))
                return viol, dis
    # ---- tables are views: selections list the selected rows of the full table, the full table lists everything
    if imp.get("full_keys") is not None and imp["full_keys"] != imp["keys"]:
        viol.append(("matter:selection", "data_matter() after data_matter(components=…) lists %s, the components are %s" % (imp["full_keys"], imp["keys"])))
        return viol, dis
    for mask, t in zip(imp.get("keeps", []), imp.get("sel", [])):
        ks = [k for k, b in zip(imp["keys"], mask) if b]
        rows_ok = t["keys"] == ks
        for col, full in (("n", imp["n_i"]), ("rho", imp["rho_i"]), ("N", imp["N_i"]), ("M", imp["M_i"])):
            if rows_ok and full is not None:
                sel = [v for v, b in zip(full, mask) if b]
                rows_ok = len(sel) == len(t[col]) and all(close(a, b) for a, b in zip(t[col], sel)) and close(t["sum"][col], math.fsum(sel))
        if not rows_ok:
            viol.append(("matter:selection", "data_matter(components=%s) lists %s with rho %s, sum %s; full table: %s rho %s" %
                         (ks, t["keys"], t["rho"], t["sum"]["rho"], imp["keys"], imp["rho_i"])))
            return viol, dis
    for qcol, col in (("q_n", "n_i"), ("q_rho", "rho_i"), ("q_N", "N_i"), ("q_M", "M_i")):
        if imp.get(qcol) is not None and imp.get(col) is not None and \
                not all(close(a, b) for a, b in zip(imp[qcol], imp[col])):
            viol.append(("matter:quantity-table", "column %s of data_matter(quantity=True), converted to the standard unit, is %s; data_matter(quantity=False) gives %s" %
                         (col, imp[qcol], imp[col])))
            return viol, dis
    # ---- oracle: relations of the property on the reported numbers themselves (all modes)
    vstd = case["vol"][0] * factor("vol", case["vol"][1]) if hasvol else None
    gstd = case[given][0] * factor(given, case[given][1])
    if not close(imp[given], gstd):
        viol.append(("matter:%s-given:%s" % (given, "mass_density" if given == "rho" else "number_density"),
                     "the attached %s is %r (standard unit) but the object reports %r" % (given, gstd, imp[given])))
    elif hasvol and not close(imp["mass"], imp["rho"] * vstd):
        viol.append(("matter:%s-given:mass" % given, "mass %r is not rho*V = %r" % (imp["mass"], imp["rho"] * vstd)))
    else:
        # the 'sum' row where the table has one (composites), the rows themselves otherwise (Element: one row)
        srho = imp["sum"]["rho"] if imp["sum"] is not None else math.fsum(imp["rho_i"])
        sM = (imp["sum"]["M"] if imp["sum"] is not None else math.fsum(imp["M_i"])) if hasvol else None
        if not close(srho, imp["rho"]):
            viol.append(("matter:%s-given:sum_rho" % given, "component mass densities add up to %r, rho is %r" % (srho, imp["rho"])))
        elif hasvol and not close(sM, imp["mass"]):
            viol.append(("matter:%s-given:sum_M" % given, "component masses add up to %r, mass is %r" % (sM, imp["mass"])))
    # ---- oracle: Lean specification (number modes)
    sp = r["spec"]
    if not viol and isinstance(sp, dict):
        checks = [("mass_density", close(imp["rho"], uf(sp["rho"]))), ("number_density", close(imp["n"], uf(sp["n"]))),
                  ("n_i", cmp_list(imp["n_i"], sp["n_i"])), ("rho_i", cmp_list(imp["rho_i"], sp["rho_i"]))]
        if hasvol:
            checks += [("mass", close(imp["mass"], uf(sp["mass"]))), ("N_i", cmp_list(imp["N_i"], sp["N_i"])),
                       ("M_i", cmp_list(imp["M_i"], sp["M_i"]))]
        if imp["sum"] is not None:
            checks += [("sum_n", close(imp["sum"]["n"], sum(uf(v) for v in sp["n_i"]))),
                       ("sum_rho", close(imp["sum"]["rho"], sum(uf(v) for v in sp["rho_i"])))]
            if hasvol:
                checks += [("sum_N", close(imp["sum"]["N"], sum(uf(v) for v in sp["N_i"]))),
                           ("sum_M", close(imp["sum"]["M"], sum(uf(v) for v in sp["M_i"])))]
        for name, ok in checks:
            if not ok:
                viol.append(("matter:%s-given:%s" % (given, name),
                             "%s reported by the real object differs from the specification (rho = n*M, mass = rho*V, n_i = p_i*n, ...): impl %s" %
                             (name, json.dumps({k: imp[k] for k in ("rho", "n", "mass", "n_i", "rho_i", "N_i", "M_i")})[:400])))
                break
    # ---- unit independence on the real classes
    if not viol and imp2 is not None:
        if "err" in imp2:
            viol.append(("matter:units", "the same quantities in other units raise: %s" % imp2["err"]))
        else:
            for k in ("rho", "n", "mass"):
                if imp[k] is not None and not close(imp[k], imp2[k]):
                    viol.append(("matter:units", "%s depends on the input units: %r vs %r" % (k, imp[k], imp2[k])))
                    break
            else:
                for k in ("n_i", "rho_i", "N_i", "M_i"):
                    if imp[k] is not None and not all(close(a, b) for a, b in zip(imp[k], imp2[k])):
                        viol.append(("matter:units", "column %s depends on the input units: %r vs %r" % (k, imp[k], imp2[k])))
                        break
    # ---- correspondence with the model
    m = r["model"]
    if m == "err":
        dis.append(("matter", "model raises, impl %s" % json.dumps(imp)[:200]))
    else:
        st, tb = m["state"], m["table"]
        ok = close(imp["rho"], uf(st["rho"])) and close(imp["n"], uf(st["n"])) and \
            cmp_list(imp["n_i"], tb["n"]) and cmp_list(imp["rho_i"], tb["rho"])
        if hasvol:
            ok = ok and close(imp["mass"], uf(st["mass"])) and cmp_list(imp["N_i"], tb["N"]) and cmp_list(imp["M_i"], tb["M"])
        if imp["sum"] is not None:
            ok = ok and close(imp["sum"]["n"], uf(tb["sum"]["n"])) and close(imp["sum"]["rho"], uf(tb["sum"]["rho"]))
            if hasvol:
                ok = ok and close(imp["sum"]["N"], uf(tb["sum"]["N"])) and close(imp["sum"]["M"], uf(tb["sum"]["M"]))
        for t, ms in zip(imp.get("sel", []), m.get("sel", [])):
            ok = ok and cmp_list(t["n"], ms["n"]) and cmp_list(t["rho"], ms["rho"]) and \
                close(t["sum"]["n"], uf(ms["sum"]["n"])) and close(t["sum"]["rho"], uf(ms["sum"]["rho"]))
        if not ok:
            dis.append(("matter", "impl %s ; model state %s" % (
                json.dumps({k: imp[k] for k in ("rho", "n", "mass", "n_i", "rho_i")})[:300],
                {k: (float(uf(v)) if v else None) for k, v in st.items()})))
    return viol, dis


def expected_props(case):
    """composition the object must hold, where the case states it (None: a formula string)"""
    if case["kind"] == "element":
        return None
    if case["kind"] == "substance" and case.get("via") != "dict":
        return None
    want = {}
    for f, p in case["comps"]:
        want[f] = want.get(f, 0.0) + float("%.4f" % p if case.get("via") == "string" else p)
    ta = case.get("then_add")
    if ta:
        keys = list(want)
        key = ta[2] if len(ta) > 2 and ta[2] not in keys else keys[ta[0] % len(keys)]
        want[key] = want.get(key, 0.0) + ta[1]
    return want


def history_stream(ctx, nat, allsym, n):
    """a composite with a density is an operand of `+`; the sum is then grown with add(); the operand is re-read:
    it must be exactly what it was (composition, densities, mass, tables)"""
    cases, objs = [], []
    for i in range(n):
        while True:
            b = gen_case(ctx.rng, nat, allsym)
            if b["kind"] != "element" and b.get("via") == "dict" and not b.get("then_add") and (b.get("rho") or b.get("n")) \
                    and b.get("mode") != "MASS_FRACTION":
                break
        b = dict(b, history=True)
        new = "Xe" if b["kind"] == "substance" else "XeF4"
        if new in [c[0] for c in b["comps"]]:
            continue
        a = dict(b, rho=None, n=None, vol=None, comps=[[new, 1.5]] + ([b["comps"][0]] if ctx.rng.random() < 0.5 else []))
        a.pop("keeps", None)
        order = ctx.rng.choice(["a+b", "b+a"])
        padd = ctx.rng.choice([1, 2, 0.5, 10])
        try:
            ob, oa = build(b), build(a)
            mix = (oa + ob) if order == "a+b" else (ob + oa)
            for key in list(mix.components.keys()):
                mix.add(key, padd)               # the sum is enriched, component by component
        except Exception as e:  # noqa
            ctx.violation("matter:history:error", "a + b / add() on valid composites raises %r  [%s]" % (e, json.dumps(b)[:300]),
                          {"stream": "history", "case": b, "other": a, "order": order})
            continue
        b["history_note"] = {"other": a["comps"], "order": order, "added": padd}
        cases.append(b)
        objs.append(ob)
    imps = []
    for c, o in zip(cases, objs):
        try:
            imps.append(observe(c, o))
        except SelectionLeak as e:
            imps.append({"err": str(e), "selection": True})
        except Exception as e:  # noqa
            imps.append({"err": repr(e)[:300]})
    reqs = [request(c, i) for c, i in zip(cases, imps)]
    idx = [k for k, r in enumerate(reqs) if r is not None]
    answers = ctx.driver.ask_many([reqs[k] for k in idx])
    for k, ans in zip(idx, answers):
        case, imp = cases[k], imps[k]
        ctx.case(["history", case], True)
        ctx.count("history.operand_reread")
        viol, dis = judge(case, imp, ans, None)
        for sig, what in viol[:1]:
            ctx.violation(sig, "operand of a sum, re-read after add() on the sum: %s  [%s]" % (what, json.dumps(case)[:400]),
                          {"stream": "history", "case": case, "impl": imp})
        for stream, detail in dis[:1]:
            ctx.disagreement("history-" + stream, case, detail)


def corpus_cases():
    out = []
    for f in sorted((VERIF / "corpus" / "C12").glob("*.json")):
        out += json.loads(f.read_text())
    return out


def nontrivial(case, imp):
    if "err" in imp:
        return False
    nonstd = any(case.get(k) and case[k][1] != STD[k] for k in ("rho", "n", "vol"))
    return len(imp["p"]) >= 2 and (case.get("vol") is not None or nonstd)


def process(ctx, cases):
    imps = [run_impl(c) for c in cases]
    imps2 = [run_impl(c, alt=True) if "err" not in i else None for c, i in zip(cases, imps)]
    reqs = [request(c, i) for c, i in zip(cases, imps)]
    idx = [k for k, r in enumerate(reqs) if r is not None]
    answers = ctx.driver.ask_many([reqs[k] for k in idx])
    res = [None] * len(cases)
    for k, a in zip(idx, answers):
        res[k] = a
    for case, imp, imp2, r in zip(cases, imps, imps2, res):
        ctx.case(case, nontrivial(case, imp), case)
        ctx.count("kind.%s" % case["kind"])
        ctx.count("given.%s%s" % ("rho" if case.get("rho") else "", "n" if case.get("n") else "") if (case.get("rho") or case.get("n")) else "given.volume-only")
        ctx.count("volume.%s" % ("yes" if case.get("vol") else "no"))
        if case.get("then_add"):
            ctx.count("modified_with_add")
        if case.get("perturb"):
            ctx.count("handed_out_quantities_converted_in_place")
        if case["kind"] == "material":
            ctx.count("mode.%s" % case["mode"])
        if "err" in imp:
            ctx.count("impl.error")
        viol, dis = judge(case, imp, r, imp2)
        for sig, what in viol[:1]:
            ctx.violation(sig, "%s  [%s]" % (what, json.dumps(case)[:400]), {"stream": "matter", "case": case, "impl": imp})
        for stream, detail in dis[:1]:
            ctx.disagreement(stream, case, detail)


def correspond(ctx: Ctx):
    thorough = ctx.tier == "thorough"
    nat, allsym = C11.natural_symbols()
    cases = corpus_cases()
    for i in range(2500 if thorough else 300):
        cases.append(gen_case(ctx.rng, nat, allsym))
    process(ctx, cases)
    history_stream(ctx, nat, allsym, 200 if thorough else 30)
    ctx.extra["unit_magnitudes_read"] = {"%s:%s" % k: v for k, v in sorted(_factors.items())}


def replay(ctx, payload):
    case = payload.get("replay", payload).get("case")
    if case is None:
        print(json.dumps(payload, indent=1)[:3000])
        return 2
    imp = run_impl(case)
    imp2 = run_impl(case, alt=True) if "err" not in imp else None
    req = request(case, imp)
    r = ctx.driver.ask(req) if req else None
    viol, dis = judge(case, imp, r, imp2)
    print("case:", json.dumps(case))
    print("impl:", json.dumps(imp))
    known = {f["signature"] for f in __import__("harness.core", fromlist=["load_known"]).load_known().get("findings", [])
             if f["property"] == "C12"}
    rc = 0
    for sig, what in viol:
        if sig in known:
            print("KNOWN-FINDING: property=C12 [%s] %s" % (sig, what))
        else:
            print("VIOLATION property=C12 [%s] %s" % (sig, what))
            rc = 1
    for s, d in dis:
        print("impl!=model [%s] %s" % (s, d))
        rc = 1
    return rc
