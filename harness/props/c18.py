"""C18 — DIP expressions: translator (operator/step tables of the two solver instances), correspondence
(impl vs Lean model) and oracle (impl vs Lean specification) for the numerical, logical and template grammars."""
import json
import math
import warnings
from fractions import Fraction
from pathlib import Path

from harness import core
from harness.core import Ctx

RULE = ("environments = DIP text with 3-7 typed nodes (float/int with units of 7 dimensions, unit-less, bool, str, arrays) "
        "and 0-2 custom $units, parsed by the real DIP.parse; numerical / logical expression TREES are generated typed by "
        "dimension, made well-formed by inserting parentheses, rendered by the Lean renderer (mandatory blanks around binary "
        "operators, random optional blanks) and solved by the real NumericalSolver/LogicalSolver, directly and through DIP text "
        "(x float = (\"expr\") unit, c bool = (\"expr\"), @case (\"expr\")); comparison operands are placed at, within 0.4e-6 of, "
        "3e-6 off and far off equality, in other units of the same dimension; templates = random text with {{ref}[slice]:fmt} holes (the text the model's solveTemplate produces - hole texts from Python's format/str for the holes the MODEL finds - is compared with the text of the code), and template TEXTS with near-miss holes (blank between the braces, missing / doubled closing brace, empty or unknown reference, reference without '?', two slices in a row, non-matching format, '{' directly before a hole, unfinished hole at the end) on which the code and the model's solveTemplate must agree; the custom $units x, y, w are defined with different magnitudes from environment to environment while the same literal texts recur "
        "(one process, many texts); nodes of the environments are modified after their definition; integer nodes of one dimension in different units (m, km, custom) whose "
        "values are no whole multiples of each other, compared with each other; int nodes defined by expressions (the nearest integer of the exact "
        "result, with expressions that land a few ulp beside an integer); definedness tests of nodes that are only declared / defined as none "
        "when the expression is evaluated (bool node, @case); pairs A == B / A != B "
        "on the same operands; comparisons that must be refused (other dimension, missing reference); histories of 4-8 calls of the three solvers "
        "and fresh parses on one environment with custom $units in which some calls raise; "
        "plus a stream of malformed strings (informational: agreement is counted, never judged). non-trivial = tree with >=2 binary "
        "operators of different priority, or a unit conversion, or a negation/definedness test, or a hole with slice or format; "
        "distinct = the rendered text together with the environment text")
ASSUMPTIONS = [
    "linear units only (no temperature/logarithmic units, no %); % and ppth only as REQUESTED unit of a plain-number result; plane angles (deg, rad) are a dimension of their own that converts "
    "to plain numbers in radians (sin/cos/tan, and the code lets a plain number be added to an angle - not judged); Quantity arithmetic "
    "itself is property C06 - here the numeric result in the requested unit is compared (rel. 1e-9 of the error scale of the tree)",
    "function arguments are dimensionless (except sqrt and the base of pow), exponents of pow() and ** are small integers",
    "a blank-delimited prefix sign (' - x') is generated at the start of an expression and after a binary operator, not as the first "
    "token inside parentheses or a function argument (the argument text is stripped before it is solved, so the sign symbol is not seen there)",
    "atoms are plain decimal literals with an optional unit, {?name} references to scalar "
    "nodes of the same text, true/false, !{?name}",
    "comparisons are judged only when the verdict is robust: same result in the unit of either operand and at least 10% away from "
    "the tolerance boundary 1e-8 + 1e-6*|b| (np.isclose as used by the code); int-node versus float-node comparison is refused by the code and not judged",
    "an int node defined by an expression is judged when the exact result is at least 0.01 away from a half-integer and below 1e9",
    "malformed strings (outside the three grammars) are compared for information only: rejecting them is property C01",
    "format()/str() of Python are parameters of the template specification",
    "template texts: malformed slices ([1:2:3], [1,,2]: ValueError inside the slice parser, also without a reference before them) are part of the near-miss texts; "
    "near-miss texts slice arrays down to scalars or 2-d parts only (the empty range n:n, kept apart from the index n, is generated on str nodes)",
]
EXPLANATION = ("theorems: every pass of the regenerated step tables reduces exactly the sub-trees of its priority level, left to right "
               "(generic, by induction on the tree); hence the token machine evaluates every well-formed numerical / logical tree to its "
               "tree value; unit-carrying evaluation equals evaluation on SI values over any field; addition across dimensions is refused; "
               "template scanning inverts rendering, slices included, and the text produced is the concatenation of the copied text and the formatted holes")

GEN = core.LEAN / "SciVerif" / "Generated" / "C18Tables.lean"


# ------------------------------------------------------------------ translator
def capture_tables():
    """Operator dict and step list of the ExpressionSolver each DIP solver builds (introspection by a recording subclass)."""
    from scinumtools.solver import ExpressionSolver
    from scinumtools.solver.operators import OperatorPar
    from scinumtools.dip.solvers import numerical_solver, logical_solver
    out = {}
    for name, mod, run in (("num", numerical_solver, lambda: numerical_solver.NumericalSolver().solve("1")),
                           ("log", logical_solver, lambda: logical_solver.LogicalSolver().solve("true"))):
        cap = []

        class Spy(ExpressionSolver):
            def __init__(self, atom, operators=None, steps=None):
                super().__init__(atom, operators, steps)
                cap.append((self.operators, self.steps))
        orig = mod.ExpressionSolver
        mod.ExpressionSolver = Spy
        try:
            run()
        finally:
            mod.ExpressionSolver = orig
        ops, steps = cap[0]
        table = [[k, c.symbol, bool(issubclass(c, OperatorPar)), int(getattr(c, "narg", 0) if issubclass(c, OperatorPar) else 0)]
                 for k, c in ops.items()]
        classes = [[k, c.__name__] for k, c in ops.items()]
        st = [[list(s["operators"]), int(s["otype"].value)] for s in steps]
        out[name] = {"table": table, "steps": st, "classes": classes}
    return out


def lean_str(s):
    return json.dumps(s)


def gen_tables(ctx):
    t = capture_tables()
    ctx.extra["tables"] = {k: len(v["table"]) for k, v in t.items()}
    L = ["/- GENERATED by harness/props/c18.py from the live solver objects of /repo — do not edit. -/",
         "import SciVerif.Model.C18", "import SciVerif.Model.C18Str", "namespace SciVerif.C18.Generated", ""]
    for name in ("num", "log"):
        rows = ",\n  ".join("⟨%s, %s.toList, %s, %d⟩" % (lean_str(k), lean_str(s), "true" if p else "false", n)
                            for k, s, p, n in t[name]["table"])
        L.append("def %sTable : List OpDef := [\n  %s]\n" % (name, rows))
        rows = ",\n  ".join("⟨[%s], %d⟩" % (", ".join(lean_str(o) for o in ops), ot) for ops, ot in t[name]["steps"])
        L.append("def %sSteps : List Step := [\n  %s]\n" % (name, rows))
        rows = ", ".join("(%s, %s)" % (lean_str(k), lean_str(c)) for k, c in t[name]["classes"])
        L.append("def %sClasses : List (String × String) := [%s]\n" % (name, rows))
    L.append("end SciVerif.C18.Generated\n")
    changed = core.write_if_changed(GEN, "\n".join(L))
    return [str(GEN)] if changed else []


# ------------------------------------------------------------------ environments
DIMS = {
    "0": [None],
    "L": ["m", "cm", "km", "mm"],
    "M": ["kg", "g"],
    "T": ["s", "min"],
    "L2": ["m2", "cm2"],
    "V": ["m/s", "km/h"],
    "E": ["J", "erg", "kg*m2/s2"],
    "A": ["deg", "rad"],
}
NUMS = ["1", "2", "3", "0.5", "12.25", "7", "4e1", "1.5e-1", "250", "9.75", "57.3", "100", "0.02"]


class Env:
    def __init__(self, text, env, nodes, units):
        self.text, self.env, self.nodes, self.units = text, env, nodes, units


def unit_table(env, names):
    from scinumtools.units import Quantity, UnitEnvironment
    rows = []
    with UnitEnvironment(env.units):
        for u in names:
            q = Quantity(1, u)
            k = float(q.magnitude.value * q.baseunits.magnitude)
            dims = []
            for d in q.baseunits.dimensions.value(dtype=list):
                f = Fraction(d).limit_denominator(1000) if not isinstance(d, int) else Fraction(d)
                dims.append([f.numerator, f.denominator])
            rows.append([u, k, dims])
    return rows


def gen_env(rng, custom=None):
    """DIP text -> real environment; returns Env (None if the real parser refuses the text)."""
    from scinumtools.dip import DIP
    lines = []
    if custom is None:
        custom = rng.random() < 0.4
    dims = {k: list(v) for k, v in DIMS.items()}
    if custom:
        # custom units of the same NAME are defined differently from environment to environment (one process, many texts)
        xf = rng.choice(["2", "2", "4", "0.5", "25"])
        lines.append("$unit x = %s m" % xf)
        dims["L"].append("[x]")
        if rng.random() < 0.5:
            lines.append("$unit y = %s [x]" % rng.choice(["3", "2", "10"]))
            dims["L"].append("[y]")
        if rng.random() < 0.3:
            lines.append("$unit w = %s kg" % rng.choice(["5", "2", "0.1"]))
            dims["M"].append("[w]")
    nodes = {}
    names = ["a", "b", "c", "d", "e", "f", "g"]
    rng.shuffle(names)
    for n in names[:rng.randint(3, 6)]:
        dim = rng.choice(list(dims))
        unit = rng.choice(dims[dim])
        if rng.random() < 0.3:
            val = str(rng.randint(1, 300))
            lines.append("%s int = %s%s" % (n, val, " " + unit if unit else ""))
            nodes[n] = ("int", int(val), unit, dim)
        else:
            val = rng.choice(NUMS)
            lines.append("%s float = %s%s" % (n, val, " " + unit if unit else ""))
            nodes[n] = ("float", float(val), unit, dim)
    # integer nodes of one dimension in different units (standard and custom): compared with each other they are converted
    # (the value in m is not a whole multiple of the other units: 1400 m against 1 km, 1401 m against 700 [x] = 1400 m)
    kk = rng.randint(1, 4)
    v1 = 1000 * kk + rng.choice([400, -400, 300, -300, 0, 499, -499, 1, 401])
    for n, u, val in [("i1", "m", v1), ("i2", "km", kk)] + ([("i3", "[x]", int(v1 / float(xf)) + rng.choice([0, 0, 1]))] if custom else []):
        lines.append("%s int = %d %s" % (n, val, u))
        nodes[n] = ("int", val, u, "L")
    bval = rng.random() < 0.5
    lines.append("t bool = %s" % ("true" if bval else "false"))
    nodes["t"] = ("bool", bval, None, None)
    sval = rng.choice(["ab", "hi", "Tina", "x1"])
    lines.append("s str = '%s'" % sval)
    nodes["s"] = ("str", sval, None, None)
    # nodes are modified after their definition (other value, other unit): a reference delivers the current value
    mods = []
    for n in list(nodes):
        kind, val, unit, dim = nodes[n]
        if rng.random() < 0.45 and n not in ("i1", "i2", "i3"):
            if kind == "float":
                u2 = rng.choice(dims[dim])
                v2 = rng.choice(NUMS)
                lines.append("%s = %s%s" % (n, v2, " " + u2 if u2 else ""))
                mods.append((n, float(v2), u2))
            elif kind == "int":
                v2 = rng.randint(1, 300)
                lines.append("%s = %d%s" % (n, v2, " " + unit if unit else ""))
                mods.append((n, v2, unit))
            elif kind == "bool":
                lines.append("%s = %s" % (n, "false" if val else "true"))
                nodes[n] = (kind, not val, unit, dim)
            elif kind == "str":
                v2 = rng.choice(["ab", "hi", "Tina", "x1", "mod"])
                lines.append("%s = '%s'" % (n, v2))
                nodes[n] = (kind, v2, unit, dim)
    if rng.random() < 0.5:
        lines.append("grp")
        lines.append("  h float = 62.3 kg")
        nodes["grp.h"] = ("float", 62.3, "kg", "M")
    lines.append("v float[3] = [1.5,2.5,4] m")
    nodes["v"] = ("other", None, "m", None)
    lines.append("mat float[2,3] = [[23.4,235.4,34],[1e10,2e23,5e20]]")
    nodes["mat"] = ("other", None, None, None)
    lines.append("name str = 'Will Smith'")
    nodes["name"] = ("str", "Will Smith", None, None)
    if rng.random() < 0.6:
        # a text VALUE that itself looks like template source: a hole is replaced by the value as format() gives it,
        # the inserted text is not scanned again (not in `nodes`: only the template stream uses it)
        lines.append("hint str = '%s'" % rng.choice(["use {{?name}} and {{?i1}:05d}", "{{?s}}", "see {{?nosuch}}!", "a {{?t}} {b} {{?hint}}",
                                                     "{{?v}[1]:.2f}"]))
    text = "\n".join(lines)
    with DIP() as d:
        d.add_string(text)
        env = d.parse()
    allunits = sorted({u for us in dims.values() for u in us if u} | {"%", "ppth"})
    table = unit_table(env, allunits)
    kmap = {u: k for u, k, _ in table}
    for n, v2, u2 in mods:
        kind, val, unit, dim = nodes[n]
        cur = v2 * (kmap[u2] / kmap[unit]) if (u2 and unit and u2 != unit) else v2
        if kind == "float":
            # the same double the code holds (the unit conversion of the modification may round differently by an ulp)
            real = env.nodes.query(n)[0].value.value
            if isinstance(real, float) and close(real, cur, None):
                cur = real
        nodes[n] = (kind, cur, unit, dim)
    return Env(text, env, nodes, dims), table


def node_rows(E):
    rows = []
    for n, (kind, val, unit, _) in E.nodes.items():
        rows.append([n, kind, val, unit])
    return rows


# ------------------------------------------------------------------ trees
NUM_LVL = {"pre:add": 1, "pre:sub": 1, "pow": 2, "mul": 3, "truediv": 3, "add": 4, "sub": 4}
LOG_LVL = {"eq": 1, "ne": 1, "le": 1, "ge": 1, "lt": 1, "gt": 1, "not": 2, "and": 3, "or": 4}


def top(e, lvl):
    if e[0] == "pre":
        return lvl.get("pre:" + e[1], lvl.get(e[1], 0))
    return lvl[e[1]] if e[0] == "bin" else 0


def wf_fix(e, lvl, rng=None, extra=0.0):
    """Insert the parentheses a flat rendering needs (and, with probability `extra`, superfluous ones)."""
    k = e[0]
    if k == "lit":
        r = e
    elif k == "par":
        r = ["par", wf_fix(e[1], lvl, rng, extra)]
    elif k == "fn1":
        r = ["fn1", e[1], wf_fix(e[2], lvl, rng, extra)]
    elif k == "fn2":
        r = ["fn2", e[1], wf_fix(e[2], lvl, rng, extra), wf_fix(e[3], lvl, rng, extra)]
    elif k == "pre":
        c = wf_fix(e[2], lvl, rng, extra)
        if top(c, lvl) >= top(e, lvl):
            c = ["par", c]
        r = ["pre", e[1], c]
    else:
        l = wf_fix(e[2], lvl, rng, extra)
        rr = wf_fix(e[3], lvl, rng, extra)
        if top(l, lvl) > lvl[e[1]]:
            l = ["par", l]
        if top(rr, lvl) >= lvl[e[1]]:
            rr = ["par", rr]
        r = ["bin", e[1], l, rr]
    if rng is not None and rng.random() < extra:
        r = ["par", r]
    return r


def drop_leading_sign(e):
    """Remove a prefix sign that is the first token of `e` (see no_sign_after_paren)."""
    if e[0] == "pre" and e[1] in ("add", "sub"):
        return drop_leading_sign(e[2])
    if e[0] == "bin":
        return ["bin", e[1], drop_leading_sign(e[2]), e[3]]
    return e


def no_sign_after_paren(e):
    """A parenthesised argument is stripped before it is solved (Expression.pop_left), so a blank-delimited
    sign cannot be its first token: ' - 3 * 2' is -6 but '( - 3) * 2' is not in the grammar."""
    k = e[0]
    if k == "lit":
        return e
    if k == "par":
        return ["par", drop_leading_sign(no_sign_after_paren(e[1]))]
    if k == "fn1":
        return ["fn1", e[1], drop_leading_sign(no_sign_after_paren(e[2]))]
    if k == "fn2":
        return ["fn2", e[1], drop_leading_sign(no_sign_after_paren(e[2])), drop_leading_sign(no_sign_after_paren(e[3]))]
    if k == "pre":
        return ["pre", e[1], no_sign_after_paren(e[2])]
    return ["bin", e[1], no_sign_after_paren(e[2]), no_sign_after_paren(e[3])]


def count_ops(e):
    if e[0] == "lit":
        return []
    if e[0] == "bin":
        return [e[1]] + count_ops(e[2]) + count_ops(e[3])
    if e[0] == "pre":
        return [e[1]] + count_ops(e[2])
    return sum((count_ops(x) for x in e[1:] if isinstance(x, list)), [])


def flat_kinds(e):
    if e[0] == "lit":
        return ["lit"]
    return [e[0]] + sum((flat_kinds(x) for x in e[1:] if isinstance(x, list)), [])


def out_unit(rng, E, dim):
    """the requested unit: one of the dimension; for a plain number none, or a dimensionless table unit (%, ppth) into which the
    result is converted"""
    if dim == "0":
        return rng.choice([None, None, None, "%", "ppth"])
    return rng.choice(E.units[dim])


def gen_num_leaf(rng, E, dim):
    cands = [n for n, (kind, val, unit, d) in E.nodes.items() if d == dim and kind in ("float", "int")]
    if cands and rng.random() < 0.45:
        return ["lit", "{?%s}" % rng.choice(cands)]
    unit = rng.choice(E.units[dim])
    return ["lit", rng.choice(NUMS) + (" " + unit if unit else "")]


# (target, left, right) decompositions for * and /
MUL = {"0": [("0", "0")], "L": [("L", "0"), ("0", "L"), ("V", "T")], "L2": [("L", "L"), ("L2", "0")], "M": [("M", "0"), ("0", "M")],
       "T": [("T", "0")], "V": [("V", "0"), ("0", "V")], "E": [("E", "0"), ("0", "E")], "A": [("A", "0"), ("0", "A")]}
DIV = {"0": [("0", "0"), ("L", "L"), ("M", "M"), ("E", "E"), ("L2", "L2"), ("T", "T"), ("A", "A")], "A": [("A", "0")], "L": [("L", "0"), ("L2", "L")], "L2": [("L2", "0")],
       "M": [("M", "0")], "T": [("T", "0"), ("L", "V")], "V": [("L", "T"), ("V", "0")], "E": [("E", "0")]}


def int_exponent(rng):
    """exponent of pow(): an integer literal or a parenthesised / nested expression with an integral value"""
    return rng.choice([["lit", "2"], ["lit", "3"], ["lit", "-1"], ["lit", "0"],
                       ["par", ["bin", "add", ["lit", "1"], ["lit", "1"]]], ["par", ["bin", "sub", ["lit", "4"], ["lit", "2"]]],
                       ["fn2", "powb", ["lit", "2"], ["lit", "1"]], ["par", ["bin", "truediv", ["lit", "6"], ["lit", "2"]]]])


def gen_num(rng, E, dim, depth, pos=False):
    """Random numerical tree of dimension `dim`; pos: keep the value positive (no subtraction)."""
    if depth <= 0 or rng.random() < 0.2:
        return gen_num_leaf(rng, E, dim)
    r = rng.random()
    if r < 0.3:
        op = "add" if (pos or rng.random() < 0.55) else "sub"
        return ["bin", op, gen_num(rng, E, dim, depth - 1, pos), gen_num(rng, E, dim, depth - 1, pos)]
    if r < 0.5:
        l, rr = rng.choice(MUL[dim])
        return ["bin", "mul", gen_num(rng, E, l, depth - 1, pos), gen_num(rng, E, rr, depth - 1, pos)]
    if r < 0.7:
        l, rr = rng.choice(DIV[dim])
        return ["bin", "truediv", gen_num(rng, E, l, depth - 1, pos), gen_num(rng, E, rr, depth - 1, True)]
    if r < 0.74:
        return ["par", gen_num(rng, E, dim, depth - 1, pos)]
    if r < 0.77:
        # a sign in prefix position (folded before **): ' - x', ' + x'
        return ["pre", "add" if (pos or rng.random() < 0.3) else "sub", gen_num(rng, E, dim, min(depth - 1, 1), pos)]
    if r < 0.85 and dim in ("0", "L2"):
        # the ** operator (binds tighter than * /), integral exponents
        if dim == "0":
            return ["bin", "pow", gen_num(rng, E, "0", depth - 1, True), ["lit", rng.choice(["2", "3", "-1", "0", "1"])]]
        return ["bin", "pow", gen_num(rng, E, "L", depth - 1, True), ["lit", "2"]]
    # functions
    if dim == "0":
        f = rng.choice(["exp", "log", "log10", "sin", "cos", "tan", "sqrt", "logb", "powb"])
        if f == "exp":
            return ["fn1", f, ["bin", "truediv", gen_num(rng, E, "0", 0, True), ["lit", rng.choice(["10", "20", "50"])]]]
        if f == "tan":
            return ["fn1", f, ["lit", rng.choice(["0.3", "0.5", "1", "-0.7", "45 deg", "30 deg", "0.4 rad", "-20 deg"])]]
        if f in ("sin", "cos"):
            # the documented use: an angle (deg / rad, literal or node), or a plain number
            return ["fn1", f, gen_num(rng, E, rng.choice(["A", "A", "0"]), depth - 2, pos)]
        if f in ("log", "log10", "sqrt"):
            return ["fn1", f, gen_num(rng, E, "0", depth - 2, True)]
        if f == "logb":
            return ["fn2", f, gen_num(rng, E, "0", depth - 2, True),
                    rng.choice([["lit", "2"], ["lit", "10"], ["lit", "3.5"], ["par", ["bin", "mul", ["lit", "2"], ["lit", "5"]]]])]
        return ["fn2", "powb", gen_num(rng, E, "0", depth - 2, True), int_exponent(rng)]
    if dim == "L":
        return ["fn1", "sqrt", gen_num(rng, E, "L2", depth - 2, True)]
    if dim == "L2":
        return ["fn2", "powb", gen_num(rng, E, "L", depth - 2, True),
                rng.choice([["lit", "2"], ["par", ["bin", "add", ["lit", "1"], ["lit", "1"]]], ["par", ["lit", "2"]]])]
    return ["par", gen_num(rng, E, dim, depth - 1, pos)]


def dec(x):
    """driver floats travel as ["f", bits]"""
    import struct
    if isinstance(x, list) and len(x) == 2 and x[0] == "f":
        return struct.unpack("<d", struct.pack("<Q", x[1]))[0]
    return x


def close(a, b, scale):
    try:
        a, b = float(a), float(b)
    except (TypeError, ValueError):
        return a == b
    if a == b:
        return True
    if math.isnan(a) or math.isnan(b) or math.isinf(a) or math.isinf(b):
        return False
    s = max(abs(float(scale)) if scale is not None else 0.0, abs(a), abs(b))
    return abs(a - b) <= 1e-9 * s + 1e-300


def impl_num(E, text, out):
    from scinumtools.dip.solvers import NumericalSolver
    try:
        with warnings.catch_warnings():
            warnings.simplefilter("ignore")
            r = NumericalSolver(E.env).solve(text, out)
        if out:
            return float(r)
        if r is None:
            return "err"
        if not r.baseunits.dimensions.nodim:
            return "dimensional"
        return float(r.value())
    except Exception:
        return "err"


def num_sig(ast):
    ops = count_ops(ast)
    if any(o in ("exp", "log", "log10", "sqrt", "sin", "cos", "tan", "logb", "powb") for o in ops):
        return "fn"
    if any(e_ == "pre" for e_ in flat_kinds(ast)):
        return "sign"
    if "pow" in ops:
        return "power"
    if ("add" in ops or "sub" in ops) and ("mul" in ops or "truediv" in ops):
        return "priority"
    return "arith"


def base_req(kind, tabs, E, units):
    return {"p": "C18", "k": kind, "table": tabs[kind]["table"], "steps": tabs[kind]["steps"], "units": units, "nodes": node_rows(E)}


def finite(x):
    return isinstance(x, (int, float)) and not isinstance(x, bool) and math.isfinite(x)


def num_stream(ctx, tabs, envs, count, corpus):
    rng = ctx.rng
    cases = []
    for item in corpus:
        E, units = envs[item.get("env", 0) % len(envs)] if "envtext" not in item else item["_env"]
        cases.append((E, units, item["ast"], item.get("blanks", []), item.get("out"), "corpus"))
    for _ in range(count):
        E, units = rng.choice(envs)
        dim = rng.choice(list(DIMS))
        r = rng.random()
        if r < 0.08:   # addition across dimensions / a function of a dimensional argument: must be refused
            d2 = rng.choice([d for d in DIMS if d != dim and {d, dim} != {"A", "0"}])
            if rng.random() < 0.3:
                dd = rng.choice([d for d in DIMS if d not in ("A", "0")])
                ast = ["fn1", rng.choice(["sin", "cos", "tan"]), gen_num(rng, E, dd, 1, True)]
                dim = "0"
            else:
                ast = ["bin", rng.choice(["add", "sub"]), gen_num(rng, E, dim, 1), gen_num(rng, E, d2, 1)]
            if rng.random() < 0.5:
                ast = ["bin", "mul", ast, ["lit", "2"]]
            kind = "dimrefuse"
        else:
            ast = gen_num(rng, E, dim, rng.randint(1, 4))
            kind = "gen"
        ast = no_sign_after_paren(wf_fix(ast, NUM_LVL, rng, 0.05))
        out = out_unit(rng, E, dim)
        if kind == "gen" and rng.random() < 0.04:
            # a requested unit of another dimension must be refused (also for a result whose units all cancel)
            d3 = rng.choice([d for d in DIMS if d not in (dim, "0", "A")] if dim in ("0", "A") else [d for d in DIMS if d not in (dim, "0")])
            out, kind = rng.choice(E.units[d3]), "dimrefuse"
        blanks = [rng.choice([0, 0, 0, 1, 2]) for _ in range(40)]
        cases.append((E, units, ast, blanks, out, kind))
    reqs = []
    for E, units, ast, blanks, out, kind in cases:
        q = base_req("num", tabs, E, units)
        q.update({"ast": ast, "blanks": blanks, "out": out})
        reqs.append(q)
    res = ctx.driver.ask_many(reqs)
    for (E, units, ast, blanks, out, kind), r in zip(cases, res):
        if "ok" not in r:
            ctx.disagreement("num", {"ast": ast}, "driver error %s" % r)
            continue
        m = {k: dec(v) for k, v in r["ok"].items()}
        text = m["text"]
        ops = count_ops(ast)
        ctx.count("num." + kind)
        ctx.count("num.sig." + num_sig(ast))
        if "[" in text:
            ctx.count("num.custom_unit")
        replay = {"stream": "num", "env": E.text, "expr": text, "out": out, "ast": ast}
        if not m["wf"]:
            ctx.disagreement("num", replay, "generator produced a tree that is not well-formed")
            continue
        imp = impl_num(E, text, out)
        replay["impl"], replay["spec"], replay["model"] = imp, m["spec"], m["model"]
        ctx.case([E.text, text, out], len(set(NUM_LVL.get(o, 9) for o in ops if o in NUM_LVL)) >= 2 or "[" in text or " cm" in text,
                 {"num": text, "out": out, "impl": imp})
        def both_nan(a, b):
            return isinstance(a, float) and isinstance(b, float) and math.isnan(a) and math.isnan(b)
        if m["tree"] != m["model"] and not both_nan(m["tree"], m["model"]) and \
                not (finite(m["tree"]) and finite(m["model"]) and close(m["tree"], m["model"], m["scale"])):
            ctx.disagreement("num.tokens", replay, "string-level solve %s differs from token-level solve of the tree %s" % (m["model"], m["tree"]))
        spec = m["spec"]
        if finite(spec) and not all(finite(x) for x in [m["scale"]]):
            ctx.count("num.nonfinite")
            continue
        if isinstance(spec, float) and not math.isfinite(spec) or isinstance(spec, str) and spec not in ("err", "dimensional"):
            ctx.count("num.nonfinite")
            continue
        ok_spec = (imp == spec) if isinstance(spec, str) or isinstance(imp, str) else close(imp, spec, m["scale"])
        if not ok_spec:
            if kind == "dimrefuse" or spec == "err":
                sig = "num:dim-refuse" if imp != "err" else "num:refused-valid"
            else:
                sig = "num:custom-unit" if "[" in text else "num:" + num_sig(ast)
            ctx.violation(sig, "NumericalSolver.solve(%r, %r) = %s, specification %s (env: %s)" %
                          (text, out, imp, spec, E.text.replace("\n", " / ")[:200]), replay)
            continue
        mod = m["model"]
        ok_mod = (imp == mod) if isinstance(mod, str) or isinstance(imp, str) else close(imp, mod, m["scale"])
        if not ok_mod:
            ctx.disagreement("num", replay, "impl %s model %s" % (imp, mod))


# ------------------------------------------------------------------ numerical through DIP text
def int_landing(rng):
    """Expressions whose exact value is an integer while the float evaluation may land a few ulp beside it: mixed units with
    the larger unit first, ratios and products of decimals."""
    r = rng.random()
    if r < 0.4:
        big, small, out = rng.choice([("km", "m", "m"), ("m", "cm", "cm"), ("m", "mm", "mm"), ("cm", "mm", "mm"), ("kg", "g", "g"), ("min", "s", "s")])
        e = ["bin", "add", ["lit", "%d %s" % (rng.randint(1, 9), big)], ["lit", "%d %s" % (rng.randint(1, 99), small)]]
        if rng.random() < 0.3:
            e = ["bin", rng.choice(["add", "sub"]), e, ["lit", "%d %s" % (rng.randint(1, 9), small)]]
        return e, out
    if r < 0.7:
        a, b = rng.choice([("0.3", "0.1"), ("0.7", "0.1"), ("2.1", "0.3"), ("0.6", "0.2"), ("1.2", "0.4"), ("4.35", "0.05"), ("0.9", "0.3"), ("5.1", "0.3")])
        u = rng.choice(["m", "cm", "s", "kg"])
        return ["bin", "truediv", ["lit", "%s %s" % (a, u)], ["lit", "%s %s" % (b, u)]], None
    a, b = rng.choice([("0.29", "100"), ("1.15", "100"), ("4.35", "100"), ("1.1", "10"), ("0.57", "100"), ("2.3", "100"), ("8.7", "10")])
    u = rng.choice([None, "m", "kg"])
    return ["bin", "mul", ["lit", a + (" " + u if u else "")], ["lit", b]], u


def dip_num_stream(ctx, tabs, envs, count):
    from scinumtools.dip import DIP
    rng = ctx.rng
    cases = []
    for _ in range(count):
        E, units = rng.choice(envs)
        dim = rng.choice([d for d in DIMS if d != "0"] + ["0"])
        ast = no_sign_after_paren(wf_fix(gen_num(rng, E, dim, rng.randint(1, 3)), NUM_LVL))
        out = out_unit(rng, E, dim)
        cases.append((E, units, ast, [0] * 40, out, rng.choice(["float", "float", "int"])))
    for _ in range(count // 3):
        E, units = rng.choice(envs)
        ast, out = int_landing(rng)
        cases.append((E, units, ast, [0] * 40, out, "int"))
    # recon: zero result and unit-less node
    E0, u0 = envs[0]
    cases.append((E0, u0, ["bin", "sub", ["lit", "1 m"], ["lit", "100 cm"]], [], "m", "float"))
    cases.append((E0, u0, ["bin", "truediv", ["lit", "3"], ["lit", "2"]], [], None, "float"))
    cases.append((E0, u0, ["bin", "add", ["lit", "1 km"], ["lit", "1 m"]], [], "m", "int"))
    reqs = []
    for E, units, ast, blanks, out, ntype in cases:
        q = base_req("num", tabs, E, units)
        q.update({"ast": ast, "blanks": blanks, "out": out})
        reqs.append(q)
    res = ctx.driver.ask_many(reqs)
    for (E, units, ast, blanks, out, ntype), r in zip(cases, res):
        if "ok" not in r:
            ctx.disagreement("dipnum", {"ast": ast}, "driver error %s" % r)
            continue
        m = {k: dec(v) for k, v in r["ok"].items()}
        spec = m["spec"]
        if spec == "dimensional":
            spec = "err"     # a result with dimensions is refused by a node without unit
        if "'" in m["text"] or not (finite(spec) or spec == "err"):
            continue
        if ntype == "int" and finite(spec):
            # an int node takes the nearest integer of the exact result; results (nearly) halfway or too large to resolve are not judged
            if not finite(m["scale"]) or 1e-9 * abs(m["scale"]) > 0.01 or abs(spec) > 1e9:
                continue
            k = round(spec)
            if abs(spec - k) > 0.49:
                continue
            spec = float(k)
        text = E.text + "\nres %s = ('%s')%s" % (ntype, m["text"], " " + out if out else "")
        try:
            with warnings.catch_warnings():
                warnings.simplefilter("ignore")
                with DIP() as d:
                    d.add_string(text)
                    env = d.parse()
                v = env.nodes.query("res")[0].value
                imp = float(v.value)
        except Exception:
            imp = "err"
        ctx.count("dipnum.cases")
        ctx.case([text], True, None)
        replay = {"stream": "dipnum", "text": text, "impl": imp, "spec": spec}
        ok = (imp == spec) if isinstance(spec, str) or isinstance(imp, str) else close(imp, spec, m["scale"])
        if not ok:
            if ntype == "int":
                sig = "dip:int-expr-rounding"
            elif finite(spec) and spec == 0:
                sig = "dip:num-expr-zero-result"
            elif out is None:
                sig = "dip:num-expr-unitless-node"
            else:
                sig = "dip:num-expr"
            ctx.violation(sig, "%s node defined by the expression %r%s gets %s, specification %s" %
                          (ntype, m["text"], " " + out if out else "", imp, spec), replay)


# ------------------------------------------------------------------ logical
def fmt_num(x):
    return repr(float(x))


def gen_refused_cmp(rng, E):
    """A comparison that must be refused: across dimensions, or with a reference to a node that does not exist."""
    op = rng.choice(["eq", "ne", "le", "ge", "lt", "gt"])
    cands = [n for n, (kind, val, unit, d) in E.nodes.items() if kind in ("float", "int") and unit and d not in (None, "0")]
    if cands and rng.random() < 0.6:
        n = rng.choice(cands)
        d2 = rng.choice([d for d in DIMS if d not in ("0", E.nodes[n][3])])
        a, b = ["lit", "{?%s}" % n], ["lit", rng.choice(NUMS) + " " + rng.choice(DIMS[d2])]
    else:
        a, b = ["lit", "{?zz}"], ["lit", rng.choice(["1", "2 m", "true"])]
    if rng.random() < 0.4:
        a, b = b, a
    return ["bin", op, a, b]


def gen_cmp(rng, E, units_tab):
    """One comparison (or boolean atom) as a tree."""
    kmap = {u: k for u, k, _ in units_tab}
    r = rng.random()
    num_nodes = [n for n, (kind, val, unit, d) in E.nodes.items() if kind in ("float", "int")]
    op = rng.choice(["eq", "ne", "le", "ge", "lt", "gt"])
    if r < 0.1:
        return ["lit", rng.choice(["true", "false", "{?t}", "!{?t}", "!{?zz}", "!{?a}"])]
    if r < 0.17:
        w = rng.choice(["ab", "hi", "Tina", "x1", "zz"])
        a, b = ["lit", "{?s}"], ["lit", w]
        if rng.random() < 0.3:
            a, b = b, a
        return ["bin", rng.choice(["eq", "ne"]), a, b]
    if r < 0.22:
        return ["bin", rng.choice(["eq", "ne"]), ["lit", "{?t}"], ["lit", rng.choice(["true", "false", "{?t}"])]]
    if rng.random() < 0.04:
        return gen_refused_cmp(rng, E)
    ints = [n for n in ("i1", "i2", "i3") if n in E.nodes]
    if len(ints) >= 2 and rng.random() < 0.06:
        a, b = rng.sample(ints, 2)
        return ["bin", op, ["lit", "{?%s}" % a], ["lit", "{?%s}" % b]]
    delta = rng.choice([0, 0, 4e-7, -4e-7, 3e-6, -3e-6, 0.5, -0.3, 2.0])
    if r < 0.68 and num_nodes:
        n = rng.choice(num_nodes)
        kind, val, unit, dim = E.nodes[n]
        if unit is None:
            u2 = None
            target = val * (1 + delta)
        else:
            u2 = rng.choice(E.units[dim]) if rng.random() < 0.8 else None
            target = val * (kmap[unit] / kmap[u2] if u2 else 1.0) * (1 + delta)
        if kind == "int" and rng.random() < 0.5:
            # an integer node against a bound between the integers (written directly or arising from the unit conversion)
            target = (val + rng.choice([0.5, -0.5, 0.3, -0.3, 0.999999])) * ((kmap[unit] / kmap[u2]) if (unit and u2) else 1.0)
        lit = ["lit", fmt_num(target) + (" " + u2 if u2 else "")]
        a, b = ["lit", "{?%s}" % n], lit
        if rng.random() < 0.35:
            a, b = b, a
        return ["bin", op, a, b]
    if r < 0.85 and len(num_nodes) >= 2:
        n1 = rng.choice(num_nodes)
        same = [n for n in num_nodes if E.nodes[n][0] == E.nodes[n1][0] and E.nodes[n][3] == E.nodes[n1][3]]
        return ["bin", op, ["lit", "{?%s}" % n1], ["lit", "{?%s}" % rng.choice(same)]]
    # literal with literal
    dim = rng.choice(list(DIMS))
    u1, u2 = rng.choice(E.units[dim]), rng.choice(E.units[dim])
    # also small magnitudes (the absolute part 1e-8 of the tolerance decides) and negative values
    v = float(rng.choice(NUMS + ["0.0015", "1e-4", "2e-6", "-2", "-0.5", "-57.3", "-0.0015"]))
    target = v * ((kmap[u1] / kmap[u2]) if u1 and u2 else 1.0) * (1 + delta)
    return ["bin", op, ["lit", fmt_num(v) + (" " + u1 if u1 else "")],
            ["lit", fmt_num(target) + (" " + u2 if u2 else "")]]


def gen_log(rng, E, units_tab, depth):
    if depth <= 0 or rng.random() < 0.25:
        return gen_cmp(rng, E, units_tab)
    r = rng.random()
    if r < 0.3:
        return ["bin", "and", gen_log(rng, E, units_tab, depth - 1), gen_log(rng, E, units_tab, depth - 1)]
    if r < 0.6:
        return ["bin", "or", gen_log(rng, E, units_tab, depth - 1), gen_log(rng, E, units_tab, depth - 1)]
    if r < 0.85:
        c = gen_log(rng, E, units_tab, depth - 1)
        if c[0] == "pre":
            c = ["par", c]
        return ["pre", "not", c]
    return ["par", gen_log(rng, E, units_tab, depth - 1)]


def impl_log(E, text):
    from scinumtools.dip.solvers import LogicalSolver
    try:
        with warnings.catch_warnings():
            warnings.simplefilter("ignore")
            r = LogicalSolver(E.env).solve(text)
        v = r.value
        if isinstance(v, (bool,)) or type(v).__name__ in ("bool_", "bool"):
            return bool(v)
        return "nonbool"
    except Exception:
        return "err"


def log_sig(ast):
    ops = count_ops(ast)
    if "not" in ops and any(o in ("eq", "ne", "le", "ge", "lt", "gt") for o in ops):
        return "negated-comparison"
    if "and" in ops and "or" in ops:
        return "and-or"
    if any(o in ("eq", "ne") for o in ops):
        return "equality"
    if any(o in ("le", "ge", "lt", "gt") for o in ops):
        return "order"
    return "boolean"


def log_stream(ctx, tabs, envs, count, corpus):
    rng = ctx.rng
    cases = []
    for item in corpus:
        E, units = envs[item.get("env", 0) % len(envs)]
        cases.append((E, units, item["ast"], item.get("blanks", []), "corpus"))
    for _ in range(count):
        E, units = rng.choice(envs)
        ast = wf_fix(gen_log(rng, E, units, rng.randint(0, 3)), LOG_LVL, rng, 0.05)
        cases.append((E, units, ast, [rng.choice([0, 0, 1, 2]) for _ in range(40)], "gen"))
    # pairs A == B / A != B on the same operands: the two answers are negations of each other
    for _ in range(count // 8):
        E, units = rng.choice(envs)
        c = gen_cmp(rng, E, units)
        if c[0] != "bin" or c[1] not in ("eq", "ne"):
            continue
        bl = [rng.choice([0, 0, 1]) for _ in range(8)]
        cases.append((E, units, ["bin", "eq", c[2], c[3]], bl, "pair-eq"))
        cases.append((E, units, ["bin", "ne", c[2], c[3]], bl, "pair-ne"))
    reqs = []
    for E, units, ast, blanks, kind in cases:
        q = base_req("log", tabs, E, units)
        q.update({"ast": ast, "blanks": blanks})
        reqs.append(q)
    res = ctx.driver.ask_many(reqs)
    pair = None
    for (E, units, ast, blanks, kind), r in zip(cases, res):
        if "ok" not in r:
            ctx.disagreement("log", {"ast": ast}, "driver error %s" % r)
            continue
        m = r["ok"]
        text = m["text"]
        if kind == "pair-eq":
            pair = (text, impl_log(E, text))
        elif kind == "pair-ne" and pair is not None:
            ne = impl_log(E, text)
            if isinstance(ne, bool) and isinstance(pair[1], bool) and ne == pair[1]:
                ctx.violation("log:eq-ne-consistency", "LogicalSolver: %r = %s and %r = %s on the same operands (env: %s)" %
                              (pair[0], pair[1], text, ne, E.text.replace("\n", " / ")[:200]),
                              {"stream": "log", "env": E.text, "eq": pair[0], "ne": text})
            pair = None
        ctx.count("log." + kind)
        ctx.count("log.sig." + log_sig(ast))
        replay = {"stream": "log", "env": E.text, "expr": text, "ast": ast}
        if not m["wf"]:
            ctx.disagreement("log", replay, "generator produced a tree that is not well-formed")
            continue
        imp = impl_log(E, text)
        replay.update({"impl": imp, "spec": m["spec"], "model": m["model"]})
        ops = count_ops(ast)
        ctx.case([E.text, text], len(set(LOG_LVL[o] for o in ops)) >= 2 or "!{" in text, {"log": text, "impl": imp})
        if m["spec"] == "unknown" or m["model"] == "outside":
            ctx.count("log.not_judged")
            continue
        if m["tree"] != m["model"]:
            ctx.disagreement("log.tokens", replay, "string-level solve %s differs from token-level solve of the tree %s" % (m["model"], m["tree"]))
        if imp != m["spec"]:
            ctx.violation("log:" + log_sig(ast), "LogicalSolver.solve(%r) = %s, specification %s (env: %s)" %
                          (text, imp, m["spec"], E.text.replace("\n", " / ")[:200]), replay)
            continue
        if imp != m["model"]:
            ctx.disagreement("log", replay, "impl %s model %s" % (imp, m["model"]))


def dip_log_stream(ctx, tabs, envs, count):
    from scinumtools.dip import DIP
    rng = ctx.rng
    cases = []
    for _ in range(count):
        E, units = rng.choice(envs)
        ast = gen_log(rng, E, units, rng.randint(0, 2))
        if rng.random() < 0.4:
            # dd is declared before and assigned after the expression, dn is defined as none: both nodes exist
            d = rng.choice([["lit", "!{?dd}"], ["pre", "not", ["lit", "!{?dd}"]], ["lit", "!{?dn}"], ["pre", "not", ["lit", "!{?zz}"]]])
            ast = rng.choice([d, ["bin", rng.choice(["and", "or"]), d, ast], ["bin", rng.choice(["and", "or"]), ast, d]])
        cases.append((E, units, wf_fix(ast, LOG_LVL), rng.choice(["case", "bool"])))
    reqs = []
    for E, units, ast, how in cases:
        q = base_req("log", tabs, E, units)
        q["nodes"] = q["nodes"] + [["dd", "other", None, "cm"], ["dn", "other", None, "cm"]]
        q.update({"ast": ast, "blanks": []})
        reqs.append(q)
    res = ctx.driver.ask_many(reqs)
    for (E, units, ast, how), r in zip(cases, res):
        if "ok" not in r:
            ctx.disagreement("diplog", {"ast": ast}, "driver error %s" % r)
            continue
        m = r["ok"]
        if m["spec"] in ("unknown",) or m["model"] == "outside" or "'" in m["text"]:
            continue
        head = "dd float cm\ndn float = none cm\n" + E.text
        if how == "case":
            text = head + "\n@case ('%s')\n  res int = 1\n@else\n  res int = 2\n@end\ndd = 12 cm" % m["text"]
        else:
            text = head + "\nres bool = ('%s')\ndd = 12 cm" % m["text"]
        try:
            with warnings.catch_warnings():
                warnings.simplefilter("ignore")
                with DIP() as d:
                    d.add_string(text)
                    env = d.parse()
                v = env.nodes.query("res")[0].value.value
            imp = (int(v) == 1) if how == "case" else bool(v)
        except Exception:
            imp = "err"
        ctx.count("diplog." + how)
        ctx.case([text], True, None)
        if imp != m["spec"]:
            ctx.violation("dip:log-" + how + ":" + log_sig(ast), "text using the logical expression %r in %s gives %s, specification %s" %
                          (m["text"], "@case" if how == "case" else "a bool node", imp, m["spec"]),
                          {"stream": "diplog", "text": text, "impl": imp, "spec": m["spec"]})


# ------------------------------------------------------------------ templates
def tpl_value(E, ref, sl):
    """Specification of a hole: the referenced value, sliced as documented."""
    import numpy as np
    name = ref.lstrip("?")
    if name in E.nodes and E.nodes[name][0] in ("float", "int", "str", "bool"):
        v = E.nodes[name][1]          # the current value as the generator computed it (after modifications)
        if E.nodes[name][0] == "float":
            v = float(v)
            real = E.env.nodes.query(name)[0].value.value
            if isinstance(real, float) and close(real, v, None):
                v = real              # same number up to the rounding of the unit conversion: same digits in str()
    else:
        v = E.env.nodes.query(name)[0].value.value
    if sl:
        # an entry (n, n) is the index n; (a, b) a range; (n, n, "range") the empty range n:n (kept apart by the model's scan)
        def ix(e):
            return e[0] if (len(e) == 2 and e[0] == e[1] and e[0] is not None) else slice(e[0], e[1])
        if isinstance(v, str):
            e, = sl
            return v[ix(e)]
        arr = np.array(v)
        idx = tuple(ix(e) for e in sl)
        v = arr[idx]
        if getattr(v, "shape", None) == ():
            v = v.item()
    return v


def gen_tpl(rng, E):
    pieces = []
    for _ in range(rng.randint(1, 6)):
        r = rng.random()
        if r < 0.4:
            pieces.append(["t", rng.choice(["ID: ", "x = ", "\n", " ", "a{b", "}", "{ }", "\\{not a  reference}", "{?a}", "100%", "{x}"])])
        else:
            cands = [(n, kind) for n, (kind, val, unit, d) in E.nodes.items()]
            n, kind = rng.choice(cands)
            if "\nhint str = " in E.text and rng.random() < 0.2:
                n, kind = "hint", "str"
            sl, fm = None, None
            if n == "v":
                if rng.random() < 0.7:
                    i = rng.randint(0, 2)
                    sl = [[i, i]]
                    fm = rng.choice([None, ":.3e", ":.2f", ":f"])
            elif n == "mat":
                if rng.random() < 0.6:
                    sl = [[rng.randint(0, 1)] * 2, [rng.randint(0, 2)] * 2]
                    fm = rng.choice([None, ":.2e", ":e"])
                else:
                    sl = [[None, None], [1, None]]
            elif kind == "str":
                if rng.random() < 0.5:
                    sl = [[rng.choice([None, 0, 1, 5]), rng.choice([None, 2, 8, 0])]]   # `[:0]`, `[1:0]`: an explicit bound 0 is a bound
                    if sl[0][0] is not None and sl[0][0] == sl[0][1]:
                        sl = [[sl[0][0], None]]
                fm = rng.choice([None, None, ":s", ":10s"])
            elif kind == "int":
                fm = rng.choice([None, ":d", ":05d", ":3d"])
            elif kind == "float":
                fm = rng.choice([None, ":.3e", ":.2f", ":e", ":10.4f"])
            pieces.append(["h", "?" + n, sl, fm])
    return pieces


def render_tpl(pieces):
    out = ""
    for p in pieces:
        if p[0] == "t":
            out += p[1]
        else:
            s = "{{%s}" % p[1]
            if p[2]:
                s += "[" + ",".join((str(a) if a == b and a is not None else "%s:%s" % ("" if a is None else a, "" if b is None else b))
                                    for a, b in p[2]) + "]"
            if p[3]:
                s += p[3]
            out += s + "}"
    return out


def tpl_hole_out(E, path, sl, fm):
    """What Python gives for one hole (reference, slice entries, format): the characters, None = raises."""
    import re
    try:
        if not re.fullmatch(r"\?[A-Za-z_][A-Za-z0-9_.]*", path):
            # not a plain query of a node of the text ('mat' without '?' is a file import, '?f ' no node name):
            # whether such a request is served at all is the environment's business (C17) - ask it
            with warnings.catch_warnings():
                warnings.simplefilter("ignore")
                E.env.request(path, count=1)
        v = tpl_value(E, path, [tuple(x) for x in sl] if sl else None)
        return ("{0" + fm + "}").format(v) if fm else str(v)
    except Exception:
        return None


def tpl_model_output(ctx, cases):
    """cases = [(E, text, scan answer of the driver)].  Second phase of the tie: the model's solveTemplate
    (scan + assembly) with the hole texts Python produces for the holes THE MODEL found; returns the
    produced text, "err" (raises) or None (driver error)."""
    reqs, idx = [], []
    for i, (E, text, r) in enumerate(cases):
        if "ok" not in r:
            continue
        outs = [tpl_hole_out(E, p[1], p[2], p[3]) for p in r["ok"] if p[0] == "h"]
        reqs.append({"p": "C18", "k": "tplo", "text": text, "outs": outs})
        idx.append(i)
    res = [None] * len(cases)
    for i, r in zip(idx, ctx.driver.ask_many(reqs)):
        if "ok" in r:
            res[i] = "err" if r["ok"]["out"] is None else r["ok"]["out"]
    return res


def gen_tpl_nearmiss(rng, E):
    """Template TEXT (not rendered from pieces): holes and near-miss holes - a blank between the braces,
    missing or doubled closing brace, empty / missing reference, two slices in a row, a format that does
    not match, a '{' directly before a hole, an unfinished hole at the end of the text.  Slices are well
    formed for the node they follow."""
    out = ""
    for _ in range(rng.randint(1, 5)):
        r = rng.random()
        if r < 0.3:
            out += rng.choice(["x = ", " ", "{", "}", "{ ", "a{b", "\n", "{}", "{{}", "[0]", ":d", "{{", "{[1:2:3]", "{[1,]}", "{ [1,,2]", "{[:,1]", "[1:2:3]"])
            continue
        cands = [(n, kind) for n, (kind, val, unit, d) in E.nodes.items()]
        n, kind = rng.choice(cands)
        slices = [""]
        if n == "v":
            slices = ["", "[0]", "[1]", "[2]", "[0][1]"]      # scalars (whether a 1-d part prints as list or array is not the scanner's business)
        elif n == "mat":
            slices = ["", "[0,1]", "[1,2]", "[:,1:]", "[0,1][1,0]"]
        elif kind == "str":
            slices = ["", "[0]", "[1:]", "[:2]", "[0:2]", "[5:]", "[1:1]", "[0:0]", "[1]"]
        fmts = {"float": ["", ":.3e", ":.2f", ":e", ":d", ":10.4f"], "int": ["", ":d", ":05d", ":f", ":s"],
                "str": ["", ":s", ":10s", ":d"], "bool": ["", ":d", ":s"]}.get(kind, ["", ":.2e", ":s"])
        out += rng.choice(["{{", "{{", "{{", "{ {", "{  {", "{", "{{{"])
        out += rng.choice(["?" + n, "?" + n, "?" + n, "?" + n, "", "?zz", n])
        out += rng.choice(["}", "}", "}", "}", "", " }"])
        out += rng.choice(slices) if rng.random() < 0.9 else rng.choice(["[1:2:3]", "[1,,2]", "[,]", "[0][::]", "[0,]", "[]", "[1:2"])
        out += rng.choice(fmts + [":5", ":.2f:d", ":x", " :d"]) if rng.random() < 0.6 else ""
        out += rng.choice(["}", "}", "}", "}", "}", "", " }", "}}"])
    return out


def tpl_text_stream(ctx, envs, count):
    """Real TemplateSolver.solve against the model's solveTemplate on template TEXTS with near-miss holes."""
    from scinumtools.dip.solvers import TemplateSolver
    rng = ctx.rng
    cases = []
    for _ in range(count):
        E, units = rng.choice(envs)
        cases.append((E, gen_tpl_nearmiss(rng, E)))
    E0 = envs[0][0]
    for t in ["{ {?name}}", "{{?name}", "{{?name}[1:][:2]}", "{{{?name}}", "{{}", "{{?name}:5}", "{{?name} }",
              "{{?name}[1:2:3]}", "{{?name}[1][,]}", "{[1:2:3]", "{ [1:2:3]", "{{}[1,,2]}", "a{[,]", "{{?name}[1:1]}"]:
        cases.append((E0, t))
    scans = ctx.driver.ask_many([{"p": "C18", "k": "tpl", "text": t} for _, t in cases])
    outs = tpl_model_output(ctx, [(E, t, r) for (E, t), r in zip(cases, scans)])
    for (E, text), r, mod in zip(cases, scans, outs):
        ctx.count("tpltext.cases")
        replay = {"stream": "tpltext", "env": E.text, "text": text}
        try:
            with warnings.catch_warnings():
                warnings.simplefilter("ignore")
                imp = TemplateSolver(E.env).solve(text)
        except Exception:
            imp = "err"
        holes = [p for p in r.get("ok", []) if p[0] == "h"]
        ctx.count("tpltext.holes", len(holes))
        ctx.count("tpltext.raises" if imp == "err" else "tpltext.text")
        ctx.case([E.text, "tpltext", text], bool(holes), {"tpltext": text[:80]})
        if mod is None:
            ctx.disagreement("tpltext", replay, "driver error %s" % r)
        elif imp != mod:
            replay.update({"impl": imp, "model": mod})
            ctx.disagreement("tpltext", replay, "TemplateSolver.solve(%r) = %r, model solveTemplate %r" % (text, imp, mod))


def tpl_stream(ctx, envs, count):
    from scinumtools.dip.solvers import TemplateSolver
    rng = ctx.rng
    cases = []
    for _ in range(count):
        E, units = rng.choice(envs)
        cases.append((E, gen_tpl(rng, E)))
    E0 = envs[0][0]
    cases.append((E0, [["t", "Surname:  "], ["h", "?name", [[5, None]], None], ["t", "\nScalar:   "], ["h", "?mat", [[1, 1], [1, 1]], ":.2e"],
                       ["t", "\nArray:\n"], ["h", "?mat", [[None, None], [1, None]], None], ["t", "\n"]]))
    texts = [render_tpl(p) for _, p in cases]
    res = ctx.driver.ask_many([{"p": "C18", "k": "tpl", "text": t} for t in texts])
    mouts = tpl_model_output(ctx, [(E, t, r) for (E, _), t, r in zip(cases, texts, res)])
    for (E, pieces), text, r, mod in zip(cases, texts, res, mouts):
        ctx.count("tpl.cases")
        ctx.count("tpl.holes", sum(p[0] == "h" for p in pieces))
        nontriv = any(p[0] == "h" and (p[2] or p[3]) for p in pieces)
        ctx.case([E.text, text], nontriv, {"tpl": text[:80]})
        replay = {"stream": "tpl", "env": E.text, "text": text}
        # specification: concatenation of text and formatted holes
        try:
            spec = ""
            for p in pieces:
                if p[0] == "t":
                    spec += p[1]
                else:
                    v = tpl_value(E, p[1], [tuple(x) for x in p[2]] if p[2] else None)
                    spec += ("{0" + p[3] + "}").format(v) if p[3] else str(v)
        except Exception:
            spec = "err"
        try:
            with warnings.catch_warnings():
                warnings.simplefilter("ignore")
                imp = TemplateSolver(E.env).solve(text)
        except Exception:
            imp = "err"
        replay.update({"impl": imp, "spec": spec})
        if imp != spec:
            ctx.violation("tpl:" + ("slice" if any(p[0] == "h" and p[2] for p in pieces) else "format" if nontriv else "plain"),
                          "TemplateSolver.solve(%r) = %r, specification %r" % (text, imp, spec), replay)
            continue
        if "ok" not in r:
            ctx.disagreement("tpl", replay, "driver error %s" % r)
            continue
        # model: the scanner finds exactly the generated holes, everything else is text
        merged = []
        for p in r["ok"]:
            if p[0] == "t" and merged and merged[-1][0] == "t":
                merged[-1][1] += p[1]
            else:
                merged.append(list(p))
        want = []
        for p in pieces:
            if p[0] == "t" and want and want[-1][0] == "t":
                want[-1][1] += p[1]
            else:
                want.append([p[0], p[1]] if p[0] == "t" else [p[0], p[1], p[2], p[3]])
        if merged != want:
            ctx.disagreement("tpl", replay, "model scan %s, generated pieces %s" % (merged, want))
        elif mod != imp:
            # the text the model's solveTemplate produces (hole texts from Python's format/str) is the text of the code
            ctx.disagreement("tpl", replay, "model solveTemplate gives %r, the code %r" % (mod, imp))


# ------------------------------------------------------------------ histories of solver calls on one environment
def history_stream(ctx, tabs, envs, count):
    """Sequences of calls of the three solvers (and fresh parses of the same text) on ONE environment with custom units, some of
    which raise (refused comparison / addition, missing reference); every call must give the value it gives when made alone."""
    from scinumtools.dip import DIP
    from scinumtools.dip.solvers import NumericalSolver, LogicalSolver, TemplateSolver
    rng = ctx.rng
    cenvs = [e for e in envs if "$unit" in e[0].text] or envs
    hist, reqs = [], []
    for _ in range(count):
        E, units = rng.choice(cenvs)
        items = []
        for _ in range(rng.randint(4, 8)):
            r = rng.random()
            if r < 0.15:
                items.append(["log", wf_fix(gen_refused_cmp(rng, E), LOG_LVL), None])
            elif r < 0.25:
                dim = rng.choice([d for d in DIMS if d not in ("A", "0")])
                d2 = rng.choice([d for d in DIMS if d not in ("A", "0", dim)])
                bad = rng.choice([["bin", "add", gen_num(rng, E, dim, 0), gen_num(rng, E, d2, 0)],
                                  ["bin", "mul", ["lit", "{?zz}"], ["lit", "2"]]])
                items.append(["num", bad, rng.choice(E.units[dim])])
            elif r < 0.3:
                items.append(["tpl", [["t", "x = "], ["h", "?zz", None, None]], None])
            elif r < 0.55:
                dim = rng.choice(["L", "L", "M", "0", "L2"])
                items.append(["num", no_sign_after_paren(wf_fix(gen_num(rng, E, dim, rng.randint(1, 2)), NUM_LVL)), rng.choice(E.units[dim])])
            elif r < 0.8:
                items.append(["log", wf_fix(gen_log(rng, E, units, rng.randint(0, 1)), LOG_LVL), None])
            elif r < 0.9:
                items.append(["tpl", gen_tpl(rng, E), None])
            else:
                items.append(["parse", None, None])
        for it in items:
            if it[0] in ("num", "log"):
                q = base_req(it[0], tabs, E, units)
                q.update({"ast": it[1], "blanks": []})
                if it[0] == "num":
                    q["out"] = it[2]
                reqs.append(q)
        hist.append((E, items))
    res = iter(ctx.driver.ask_many(reqs))
    for E, items in hist:
        ns, ls, ts = NumericalSolver(E.env), LogicalSolver(E.env), TemplateSolver(E.env)
        trace, raised = [], False
        ctx.count("history.cases")
        for kind, ast, out in items:
            spec = scale = None
            if kind in ("num", "log"):
                r = next(res)
                if "ok" not in r:
                    break
                m = {k: dec(v) for k, v in r["ok"].items()}
                text, spec, scale = m["text"], m["spec"], m.get("scale")
                if kind == "log" and m["model"] == "outside":
                    spec = "unknown"
            elif kind == "tpl":
                text = render_tpl(ast)
                try:
                    spec = ""
                    for p in ast:
                        spec += p[1] if p[0] == "t" else (("{0" + p[3] + "}").format(tpl_value(E, p[1], [tuple(x) for x in p[2]] if p[2] else None))
                                                          if p[3] else str(tpl_value(E, p[1], [tuple(x) for x in p[2]] if p[2] else None)))
                except Exception:
                    spec = "err"
            else:
                text, spec = E.text, "ok"
            try:
                with warnings.catch_warnings():
                    warnings.simplefilter("ignore")
                    if kind == "num":
                        v = ns.solve(text, out)
                        imp = float(v) if out else ("err" if v is None else float(v.value()) if v.baseunits.dimensions.nodim else "dimensional")
                    elif kind == "log":
                        v = ls.solve(text).value
                        imp = bool(v) if type(v).__name__ in ("bool", "bool_") else "nonbool"
                    elif kind == "tpl":
                        imp = ts.solve(text)
                    else:
                        with DIP() as d:
                            d.add_string(text)
                            d.parse()
                        imp = "ok"
            except Exception:
                imp = "err"
            trace.append([kind, text if kind != "parse" else "<fresh parse of the environment text>", out, imp])
            ctx.count("history." + kind + (".raises" if imp == "err" else ""))
            judged = not (spec in ("unknown", "dimensional", None) or (isinstance(spec, float) and not math.isfinite(spec)))
            if judged:
                same = (imp == spec) if isinstance(spec, (str, bool)) or isinstance(imp, (str, bool)) else close(imp, spec, scale)
                if not same:
                    ctx.violation("history:%s%s" % (kind, "-after-raise" if raised else ""),
                                  "call %d of a history on one environment (%s) gives %r, alone it gives %r; calls so far: %s" %
                                  (len(trace), "after a call that raised" if raised else "no call raised before", imp, spec,
                                   json.dumps(trace, default=str)[:500]),
                                  {"stream": "history", "env": E.text, "calls": trace, "expected": spec})
                    break
            raised = raised or imp == "err"
        ctx.case([E.text, json.dumps(trace, default=str)], raised, {"history": [t[:2] for t in trace][:4]})
        # drain the answers of the calls that were not made
        made = sum(1 for t in trace if t[0] in ("num", "log"))
        for _ in range(sum(1 for it in items if it[0] in ("num", "log")) - made):
            next(res)


# ------------------------------------------------------------------ malformed (informational)
def malformed_stream(ctx, tabs, envs, count):
    rng = ctx.rng
    alpha_n = ["1", "2 m", "3 cm", " + ", " - ", " * ", " / ", "(", ")", " ", "exp(", "pow(", ",", "{?a}", "**", "+", "-", "1e3", "kg", "#"]
    alpha_l = ["true", "false", "1", "2 m", "==", "!=", "<=", "<", "~", "!", "&&", "||", "(", ")", " ", "{?a}", "{?t}", "{?zz}"]
    reqs, meta = [], []
    for _ in range(count):
        E, units = rng.choice(envs)
        if rng.random() < 0.5:
            t = "".join(rng.choice(alpha_n) for _ in range(rng.randint(1, 7)))
            q = base_req("num", tabs, E, units)
            q.update({"text": t, "out": None})
            meta.append(("num", E, t))
        else:
            t = "".join(rng.choice(alpha_l) for _ in range(rng.randint(1, 7)))
            q = base_req("log", tabs, E, units)
            q.update({"text": t})
            meta.append(("log", E, t))
        reqs.append(q)
    res = ctx.driver.ask_many(reqs)
    for (kind, E, t), r in zip(meta, res):
        imp = impl_num(E, t, None) if kind == "num" else impl_log(E, t)
        mod = dec(r.get("ok", {}).get("model", "drv-err"))
        same = (imp == mod) if isinstance(imp, (str, bool)) or isinstance(mod, (str, bool)) else close(imp, mod, None)
        ctx.count("malformed.%s.%s" % (kind, "agree" if same else "differ"))
        ctx.count("malformed.%s.impl_%s" % (kind, "rejects" if imp == "err" else "answers"))


# ------------------------------------------------------------------ corpus (recon inputs, past failures)
NUM_CORPUS = [
    {"ast": ["bin", "sub", ["lit", "1"], ["bin", "pow", ["pre", "sub", ["lit", "2"]], ["lit", "2"]]], "out": None},
    {"ast": ["bin", "add", ["lit", "1"], ["bin", "pow", ["pre", "sub", ["lit", "2"]], ["lit", "2"]]], "out": None},
    {"ast": ["bin", "pow", ["pre", "sub", ["lit", "2 m"]], ["lit", "2"]], "out": "cm2"},
    {"ast": ["bin", "mul", ["lit", "3"], ["bin", "pow", ["pre", "sub", ["lit", "2"]], ["lit", "3"]]], "out": None},
    {"ast": ["bin", "add", ["lit", "1 [x]"], ["lit", "1 m"]], "out": "m", "env": -1},
    {"ast": ["bin", "add", ["bin", "mul", ["lit", "2"], ["lit", "3 m"]], ["bin", "truediv", ["lit", "4 m2"], ["lit", "2 m"]]], "out": "cm"},
    {"ast": ["bin", "sub", ["bin", "sub", ["lit", "10 m"], ["lit", "1 m"]], ["lit", "3 cm"]], "out": "m"},
    {"ast": ["bin", "truediv", ["bin", "truediv", ["lit", "8"], ["lit", "2"]], ["lit", "4"]], "out": None},
    {"ast": ["bin", "add", ["lit", "10 m"], ["lit", "1 J"]], "out": "m"},
    {"ast": ["fn1", "sin", ["fn1", "sin", ["lit", "1"]]], "out": None},
    {"ast": ["fn2", "powb", ["fn2", "powb", ["lit", "2"], ["lit", "2"]], ["par", ["lit", "2"]]], "out": None},
    # pow() with a zero / negative / computed whole exponent (always run: C18-19 was only met by chance)
    {"ast": ["fn2", "powb", ["lit", "2"], ["lit", "-2"]], "out": None},
    {"ast": ["fn2", "powb", ["lit", "5"], ["lit", "0"]], "out": None},
    {"ast": ["fn2", "powb", ["lit", "4"], ["par", ["bin", "sub", ["lit", "1"], ["lit", "2"]]]], "out": None},
    {"ast": ["bin", "mul", ["lit", "6 m2"], ["fn2", "powb", ["lit", "2 m"], ["par", ["bin", "sub", ["lit", "1"], ["lit", "3"]]]]], "out": None},
    {"ast": ["bin", "pow", ["lit", "4"], ["lit", "-1"]], "out": None},
    {"ast": ["bin", "pow", ["lit", "4 m"], ["lit", "0"]], "out": None},
    {"ast": ["bin", "mul", ["lit", "3 m"], ["fn1", "log10", ["bin", "truediv", ["lit", "10 m"], ["par", ["bin", "sub", ["lit", "7 cm"], ["lit", "20 mm"]]]]]], "out": "m"},
]
LOG_CORPUS = [
    {"ast": ["bin", "eq", ["lit", "1 m"], ["lit", "100 cm"]]},
    {"ast": ["bin", "lt", ["lit", "1"], ["lit", "2"]]},
    {"ast": ["pre", "not", ["bin", "eq", ["lit", "1"], ["lit", "2"]]]},
    {"ast": ["bin", "or", ["lit", "false"], ["bin", "and", ["bin", "eq", ["lit", "2 m"], ["lit", "200 cm"]], ["pre", "not", ["lit", "!{?zz}"]]]]},
    {"ast": ["bin", "and", ["pre", "not", ["lit", "{?t}"]], ["lit", "true"]]},
    {"ast": ["bin", "ne", ["lit", "57.3 kg"], ["lit", "57300 g"]]},
    {"ast": ["bin", "eq", ["lit", "{?s}"], ["lit", "zz"]]},
]


def correspond(ctx: Ctx):
    thorough = ctx.tier == "thorough"
    tabs = capture_tables()
    rng = ctx.rng
    envs = []
    for i in range(24 if thorough else 8):
        try:
            envs.append(gen_env(rng, custom=(i % 2 == 1)))
        except Exception as e:
            ctx.violation("env:parse", "generated environment text is refused: %r" % (e,), {"stream": "env"})
            return
    # the corpus entry with env -1 needs a custom-unit environment: envs[-1] has one when len is even
    n = 6000 if thorough else 700
    num_stream(ctx, tabs, envs, n, NUM_CORPUS)
    dip_num_stream(ctx, tabs, envs, n // 6)
    log_stream(ctx, tabs, envs, n, LOG_CORPUS)
    dip_log_stream(ctx, tabs, envs, n // 6)
    tpl_stream(ctx, envs, n // 2)
    history_stream(ctx, tabs, envs, n // 10)
    malformed_stream(ctx, tabs, envs, n // 3)
    tpl_text_stream(ctx, envs, n // 3)      # last: the streams above keep their random sequences
