"""C06 — quantity arithmetic agrees with arithmetic on base-dimension values.

correspondence: real `Quantity` operators  vs  Lean model (`Model/C06.lean`, value part `Model/C08.lean`)
oracle:         real result re-expressed in base dimensions  vs  Lean specification (`Qty.base`, `specUnits`)

The helpers of this module (unit pool, generators, state snapshots, comparison) are also used by c08.py.
"""
import json
import math
import struct
from fractions import Fraction as Q

from harness.core import Ctx

RULE = ("pairs of quantities built from a random unit AST (1-3 factors prefix*unit^exp over all linear table units; the "
        "right operand is, by choice, a same-dimension variant with other prefixes/units, the same units, the inverse or "
        "an unrelated one) x value grid (either sign, zero where meaningful, arrays) x optional errors; operations + - * / "
        "neg, ** (int / pair / float, n/d with d<=6), with a plain number on either side; a op a on one object; constructors with "
        "cancelling units; ndarray magnitudes of int64/int32/int16/uint8/float32/float64 with units as dict/BaseUnits/dimension "
        "list/none/text, powers and products leaving the integer range, caller's array modified after construction; float "
        "exponents as np.float64/float32/float16/longdouble; augmented assignments; q.rebase(); histories: quantities created "
        "once and reused in 3-7 operations (every operator, unary minus, powers, a op a) with the results rebased/converted in "
        "place in between (or given an uncertainty), numpy roots/powers np.sqrt/np.cbrt/np.power of a reused quantity, model and "
        "specification fed the creation-time state, operands re-read at the end; plain numbers include Python ints and exactly "
        "0 / 0.0 / -0.0 on either side of + and -; constructors from unit strings with an explicit numerical factor (used only when "
        "the unit parser reads the text as that number times the intended units); non-trivial = both operands carry "
        "units and differ in units, or a non-integer exponent, or a result whose dimensions vanish; distinct = canonical JSON")
ASSUMPTIONS = [
    "units: all table units whose definition is not a temperature/logarithmic rule class (those belong to C05); the angle "
    "symbols ' and '' are left out; magnitudes are Python floats or float arrays (Decimal mode is outside the model)",
    "floats are compared with relative tolerance 1e-9 (sums/differences relative to the operands' size); cases whose real "
    "result is not finite are counted and not judged",
    "a float exponent x stands for the rational fractions.Fraction(x).limit_denominator() (what Fraction.from_float uses); "
    "that rational is handed to the model and checked against the generated n/d",
    "fractional powers are only taken of positive values; numpy primitives (+ - * / ** abs max full_like) are taken as "
    "element-wise real functions; the unit parser is bypassed (operands are built from exponent dicts, or from text "
    "only when the parsed dict equals the intended one)",
    "Fraction.rebase (in-place normalisation of stored exponents) is value preserving; exponents are compared as rationals",
    "a genuinely fractional power of a negative value is not a real number (the code raises for scalars, gives nan in arrays): "
    "not generated; integer-valued exponents in every spelling ((2,1), (4,2), Fraction(4,2), 2.0, np.float64) are judged for "
    "values of either sign and must agree with the int spelling",
    "order: impl vs model compares units() text and the exponent dict in insertion order (Python dicts are ordered, the model "
    "mirrors every insertion: left operand's keys first, new keys appended; for a dimension list the DIMENSION_LIST order, "
    "re-read from the live table); impl vs specification compares exponent maps as maps (the property does not speak about order)",
    "errors (impl vs model) are compared up to 1e-9 relative or 1e-11 x |value| (they are differences/sums of numbers of the size "
    "of the value); a non-finite or raised (ZeroDivision/Overflow) result is a violation only if the model's result, its base "
    "value and every unit factor are finite and inside 1e-250..1e250, otherwise it is counted as float overflow and not judged",
    "a float32/float16 exponent is judged only when it is exactly n/d (d in 1,2,4): otherwise it denotes another number and "
    "value and unit exponent legitimately differ in the 8th digit; rebase() cases only with unit lists in which units "
    "sharing the names of their dimensions have the same dimension vector (see c08 ASSUMPTIONS)",
    "a numpy scalar or ndarray on the LEFT of an operator is dispatched by numpy to __array_ufunc__, not to the reflected "
    "operator (np.float64(0) + q raises on the unchanged code): plain numbers on the left are Python ints/floats; np.sqrt/"
    "np.cbrt/np.power are judged as powers 1/2, 1/3, p with the uncertainty dropped (the library documents that errors are "
    "propagated by + - * / ** only), roots only of positive values",
    "every unit list names a unit id once (they become Python dicts); Unit().x / text targets are used only when the unit "
    "parser (C03) reads them as the intended units",
]
EXPLANATION = ("theorems over the reals (positive unit factors): base value of sum/difference/product/quotient/negation/"
               "power, exponent algebra, folding when dimensions vanish, refusal for different dimensions; the model is "
               "run against the real Quantity class on every run")

TOL = 1e-9
DIMS = ['m', 'g', 's', 'K', 'C', 'cd', 'mol', 'rad']


# ---------------------------------------------------------------- unit tables (live)
_pool_cache = {}


def tables():
    from scinumtools.units import settings
    return settings.UNIT_STANDARD, settings.UNIT_PREFIXES


def unit_pool():
    """[(base symbol, [admissible prefixes]), ...] for the linear table units, grouped by dimension."""
    if _pool_cache:
        return _pool_cache["units"], _pool_cache["groups"]
    std, pref = tables()
    units, groups = [], {}
    for sym in std.keys():
        row = std[sym]
        if isinstance(row.definition, type) or sym in ("'", "''") or sym.startswith("#"):
            continue
        p = row.prefixes
        prefixes = list(pref.keys()) if p is True else (list(p) if isinstance(p, list) else [])
        units.append((sym, prefixes))
        groups.setdefault(json.dumps(dims_of(sym)), []).append((sym, prefixes))
    _pool_cache["units"], _pool_cache["groups"] = units, groups
    return units, groups


def dims_of(sym):
    std, _ = tables()
    return [[int(d[0]), int(d[1])] if isinstance(d, tuple) else [int(d), 1] for d in std[sym].dimensions]


def env_rows(unitids):
    """What the live tables say about each unit id: [id, prefix+base, base, factor, dims]."""
    std, pref = tables()
    rows = []
    for uid in sorted(set(unitids)):
        if ":" in uid:
            p, b = uid.split(":")
            factor = pref[p].magnitude * std[b].magnitude
        else:
            p, b = "", uid
            factor = std[b].magnitude
        rows.append([uid, p + b, b, float(factor), dims_of(b)])
    return rows


# ---------------------------------------------------------------- generators
VALUES = [1.0, -1.0, 2.0, 0.5, -3.0, 3.5, 1e3, -2.5e-3, math.pi, 12.0, 7.0, 0.0, 1e-6, -4.0e4]
ARRAYS = [[1.0, 2.0, 3.0], [-1.5, 2.0, 4.0], [0.25, 8.0], [5.0, -6.0, 7.0, 0.5], [0.0, 1.0, -2.0]]
# ndarray magnitudes of other dtypes (values exactly representable): (dtype, values)
TYPED_ARRAYS = [("int64", [1000, 2, 30]), ("int64", [4000000000, 5, 6]), ("int64", [3, 4]), ("int32", [1, 2, 3]),
                ("int32", [-7, 11, 20000]), ("int16", [300, -2]), ("uint8", [200, 3, 100]), ("float32", [0.5, 1.25, 3.0]),
                ("float64", [2.5, -4.0, 1000.0]), ("int64", [1000000, 3000000])]
EXPS = [(1, 1)] * 6 + [(2, 1), (-1, 1), (-2, 1), (3, 1), (-3, 1), (1, 2), (-1, 2), (3, 2), (2, 3), (1, 3)]


def gen_factor(rng, common=0.6):
    units, _ = unit_pool()
    if rng.random() < common:
        sym = rng.choice(["m", "g", "s", "m", "s", "K", "C", "mol", "rad", "J", "N", "Pa", "W", "Hz", "l", "eV", "V", "A"])
        prefixes = dict(units)[sym]
    else:
        sym, prefixes = rng.choice(units)
    p = rng.choice(prefixes) if prefixes and rng.random() < 0.5 else ""
    return (p, sym)


def uid(p, sym):
    return "%s:%s" % (p, sym) if p else sym


def gen_units(rng, maxf=3):
    """list of ((prefix, sym), (n, d)) with distinct unit ids"""
    out, seen = [], set()
    for _ in range(rng.choice([1, 1, 2, 2, 3][:maxf + 2])):
        f = gen_factor(rng)
        if uid(*f) in seen:
            continue
        seen.add(uid(*f))
        out.append((f, rng.choice(EXPS)))
    return out


def variant(rng, us):
    """another unit list of the same dimension: every factor replaced by a unit of the same dimension"""
    _, groups = unit_pool()
    out, seen = [], set()
    for (p, sym), e in us:
        cand = groups[json.dumps(dims_of(sym))]
        for _ in range(6):
            s2, pr2 = rng.choice(cand) if rng.random() < 0.6 else (sym, dict(unit_pool()[0])[sym])
            p2 = rng.choice(pr2) if pr2 and rng.random() < 0.7 else ""
            if uid(p2, s2) not in seen:
                break
        else:
            return None
        seen.add(uid(p2, s2))
        out.append(((p2, s2), e))
    if rng.random() < 0.3:
        rng.shuffle(out)
    return out


def gen_value(rng, positive=False, nonzero=False, arrays=True):
    if arrays and rng.random() < 0.2:
        v = list(rng.choice(ARRAYS))
        if positive:
            v = [abs(x) for x in v]
        if nonzero or positive:
            v = [x if x != 0 else 1.5 for x in v]
        return v
    while True:
        v = rng.choice(VALUES)
        if positive:
            v = abs(v)
        if (nonzero or positive) and v == 0:
            continue
        return v


def gen_err(rng, v, p=0.35):
    """None or an absolute error (1%-30% of |v|, scalar)"""
    if rng.random() > p:
        return None
    m = max(abs(x) for x in v) if isinstance(v, list) else abs(v)
    lo = min(abs(x) for x in v) if isinstance(v, list) else abs(v)
    if lo == 0:
        return 0.125
    return lo * rng.choice([0.01, 0.05, 0.1, 0.3])


def spec_of(us):
    return {"units": [[uid(*f), e[0], e[1]] for f, e in us]}


def text_of(us):
    parts = []
    for (p, s), (n, d) in us:
        e = "" if (n, d) == (1, 1) else (str(n) if d == 1 else "%d:%d" % (n, d))
        parts.append(p + s + e)
    return "*".join(parts)


def build(rng_mode, v, err, us, form=None, dtype=None, keep=None):
    """Build a real Quantity; `rng_mode` 'dict' or 'text'. Returns (quantity, how).
    form: how the units are handed over (dict | baseunits | dimlist | none | text); dtype: the magnitude is an
    ndarray of that dtype (the caller's array is appended to `keep`)."""
    from scinumtools.units import Quantity, BaseUnits
    import numpy as np
    val = list(v) if isinstance(v, list) else v
    if dtype is not None:
        val = np.array(v, dtype=dtype)
        if keep is not None:
            keep.append(val)
    if us is None:
        return Quantity(val, abse=err), "number"
    if form in ("baseunits", "dimlist", "none"):
        d = {uid(*f): (e[0] if e[1] == 1 else (e[0], e[1])) for f, e in us}
        if form == "none" and not us:
            return Quantity(val, abse=err), "none"
        if form == "dimlist" and us and all(p == "" and sname in DIMS for (p, sname), _ in us):
            lst = [0] * 8
            for (p, sname), e in us:
                lst[DIMS.index(sname)] = e[0] if e[1] == 1 else (e[0], e[1])
            return Quantity(val, lst, abse=err), "dimlist"
        return Quantity(val, BaseUnits(d), abse=err), "baseunits"
    if form == "text":
        rng_mode = "text"
    if rng_mode == "text" and us:
        q = Quantity(val, text_of(us), abse=err)
        want = {uid(*f): Q(e[0], e[1]) for f, e in us}
        got = {k: Q(fr.num, fr.den) for k, fr in q.baseunits.baseunits.items()}
        mv = q.magnitude.value
        same_val = np.allclose(mv, np.array(val, dtype=float), rtol=1e-12, atol=0) if not q.baseunits.dimensions.nodim else True
        if got == want and same_val and not q.baseunits.dimensions.nodim:
            return q, "text"
    d = {uid(*f): (e[0] if e[1] == 1 else (e[0], e[1])) for f, e in us}
    return Quantity(val, d, abse=err), "dict"


# ---------------------------------------------------------------- observation of real objects
def enc(o):
    """floats -> IEEE bit patterns ("~f<bits>") for the trip to the driver"""
    if isinstance(o, float):
        return "~f%d" % struct.unpack("<Q", struct.pack("<d", o))[0]
    if isinstance(o, dict):
        return {k: enc(v) for k, v in o.items()}
    if isinstance(o, (list, tuple)):
        return [enc(v) for v in o]
    return o


def dec(o):
    if isinstance(o, str) and o.startswith("~f"):
        x = struct.unpack("<d", struct.pack("<Q", int(o[2:])))[0]
        return fl(x)
    if isinstance(o, dict):
        return {k: dec(v) for k, v in o.items()}
    if isinstance(o, list):
        return [dec(v) for v in o]
    return o


def ask_many(ctx, reqs):
    return dec(ctx.driver.ask_many([enc(r) for r in reqs]))


def fl(x):
    """canonical JSON form of a float / array (non-finite -> strings)"""
    import numpy as np
    if x is None:
        return None
    if isinstance(x, np.ndarray):
        return [fl(float(y)) for y in x.ravel()]
    x = float(x)
    if x != x:
        return "nan"
    if x in (float("inf"), float("-inf")):
        return "inf" if x > 0 else "-inf"
    return x


def state(q):
    """state of a real Quantity as handed to the model (read before any operation touches it)"""
    return {"v": fl(q.magnitude.value), "e": fl(q.magnitude.error),
            "u": [[k, int(f.num), int(f.den)] for k, f in q.baseunits.baseunits.items()]}


def finite(x):
    if x is None:
        return True
    if isinstance(x, list):
        return all(finite(y) for y in x)
    return not isinstance(x, str)


def observe(q):
    """what the property observes of a result"""
    d = q.baseunits.dimensions
    st = state(q)
    return {"v": st["v"], "e": st["e"], "u": st["u"], "units": q.units(),
            "dims": [[int(getattr(d, n).num), int(getattr(d, n).den)] for n in DIMS]}


def base_of(obs, rows):
    """value in base dimensions computed from the observed value and exponents with the table factors"""
    f = {r[0]: r[3] for r in rows}
    k = 1.0
    for u, n, d in obs["u"]:
        k *= f[u] ** (n / d)
    v = obs["v"]
    return [x * k for x in v] if isinstance(v, list) else v * k


def base_err_of(obs, rows):
    """absolute error in base dimensions: error x factor of the observed units"""
    if obs["e"] is None:
        return None
    f = {r[0]: r[3] for r in rows}
    k = 1.0
    for u, n, d in obs["u"]:
        k *= f[u] ** (n / d)
    e = obs["e"]
    return [x * k for x in e] if isinstance(e, list) else e * k


def close(a, b, scale=None, tol=TOL):
    """floats / lists with relative tolerance (or absolute tol*scale when a scale is given)"""
    if a is None or b is None:
        return a is None and b is None
    if isinstance(a, list) or isinstance(b, list):
        if not isinstance(a, list):
            a = [a] * len(b)
        if not isinstance(b, list):
            b = [b] * len(a)
        if scale is not None and not isinstance(scale, list):
            scale = [scale] * len(a)
        return len(a) == len(b) and all(close(x, y, None if scale is None else scale[i], tol)
                                        for i, (x, y) in enumerate(zip(a, b)))
    if isinstance(a, str) or isinstance(b, str):
        return a == b
    if a == b:
        return True
    if scale is not None:
        return abs(a - b) <= tol * max(abs(scale), abs(a), abs(b)) + 1e-300
    return abs(a - b) <= 1e-300 + tol * max(abs(a), abs(b))


def qfrac(n, d):
    return Q(int(n), int(d))


def mag(x):
    if x is None:
        return 0.0
    if isinstance(x, list):
        return max([mag(y) for y in x] or [0.0])
    return abs(x) if not isinstance(x, str) else 0.0


def compare_model(imp, mod, scale=None):
    """impl observation vs model answer; returns '' or a description of the first difference"""
    if imp == "err" or mod == "err":
        return "" if imp == mod else "impl %s model %s" % (str(imp)[:80], str(mod)[:80])
    if not close(imp["v"], mod["v"], scale):
        return "value impl %s model %s" % (imp["v"], mod["v"])
    # errors are obtained as differences / sums of numbers of the size of the value: compared up to 1e-11 x |value|
    # (and 1e-9 relative); for sums and differences relative to the operands' size
    es = max(mag(imp["v"]), mag(mod["v"])) * 1e-2 if scale is None else max(mag(imp["e"]), scale * 1e-3)
    if not close(imp["e"], mod["e"], es, 1e-9 if scale is None else 1e-7):
        return "error impl %s model %s" % (imp["e"], mod["e"])
    if imp["units"] != mod["units"]:
        return "units impl %r model %r" % (imp["units"], mod["units"])
    if [(u, qfrac(n, d)) for u, n, d in imp["u"]] != [(u, qfrac(n, d)) for u, n, d in mod["u"]]:
        return "exponents impl %s model %s" % (imp["u"], mod["u"])
    if [qfrac(*x) for x in imp["dims"]] != [qfrac(*x) for x in mod["dims"]]:
        return "dims impl %s model %s" % (imp["dims"], mod["dims"])
    return ""


def compare_spec(imp, spec, rows, scale=None):
    """impl observation vs specification; returns (aspect, text) or None"""
    if spec == "err":
        return None if imp == "err" else ("refusal", "accepted although the dimensions differ")
    if imp == "err":
        return ("accept", "refused although the operation is defined")
    b = base_of(imp, rows)
    if not close(b, spec["base"], scale):
        return ("base", "value in base dimensions is %s, should be %s" % (b, spec["base"]))
    iu = {u: qfrac(n, d) for u, n, d in imp["u"]}
    su = {u: qfrac(n, d) for u, n, d in spec["u"]} if "u" in spec else iu
    if iu != su:
        return ("units", "unit exponents are %s, should be %s" % (
            {k: str(v) for k, v in iu.items()}, {k: str(v) for k, v in su.items()}))
    if [qfrac(*x) for x in imp["dims"]] != [qfrac(*x) for x in spec["dims"]]:
        return ("dims", "dimensions are %s, should be %s" % (imp["dims"], spec["dims"]))
    return None


# ---------------------------------------------------------------- the operations on the real class
def float_to_frac(x):
    f = Q(float(x)).limit_denominator()
    return [f.numerator, f.denominator]


def run_impl(case):
    """Builds fresh operands, snapshots their state, applies the operation on the real class."""
    op = case["op"]
    import numpy as np
    if op == "newq":
        # Quantity(value, ref, abse): the unit is itself a quantity (exact or uncertain)
        from scinumtools.units import Quantity
        ref, _ = build("dict", case["rv"], case.get("re"), case["ru"])
        rs = state(ref)
        req = {"k": "qty", "op": "newq", "r": rs,
               "l": {"v": fl(np.array(case["lv"], dtype=float)) if isinstance(case["lv"], list) else float(case["lv"]),
                     "e": case.get("le"), "u": []}}
        req["env"] = env_rows([u[0] for u in rs["u"]])
        try:
            q = Quantity(list(case["lv"]) if isinstance(case["lv"], list) else case["lv"], ref, abse=case.get("le"))
            imp = mark_nonfinite(observe(q))
        except (ZeroDivisionError, OverflowError, FloatingPointError):
            imp = "nonfinite"
        except Exception:
            imp = "err"
        return req, imp
    if op == "new":
        # the constructor itself: the model gets the arguments, the real object is the result
        req = {"k": "qty", "op": "new",
               "l": {"v": fl(np.array(case["lv"], dtype=float)) if isinstance(case["lv"], list) else float(case["lv"]),
                     "e": case.get("le"), "u": [[uid(*f), e[0], e[1]] for f, e in case["lu"]]}}
        req["env"] = env_rows([u[0] for u in req["l"]["u"]])
        if case.get("k") is not None:
            # unit string with an explicit numerical factor: '2*m', '1e3*g', 'km*h-1*0.5'
            from scinumtools.units import Quantity
            text = factor_text(case)
            if text is None:
                return req, "skip"
            req["kf"] = float(case["k"])
            val = list(case["lv"]) if isinstance(case["lv"], list) else case["lv"]
            try:
                if case.get("lrele") is not None:
                    lo_ = [abs(x) * case["lrele"] / 100 for x in val] if isinstance(val, list) else abs(val) * case["lrele"] / 100
                    req["l"]["e"] = lo_
                    q = Quantity(val, text, rele=case["lrele"])
                else:
                    q = Quantity(val, text, abse=case.get("le"))
                imp = mark_nonfinite(observe(q))
            except (ZeroDivisionError, OverflowError, FloatingPointError):
                imp = "nonfinite"
            except Exception:
                imp = "err"
            return req, imp
        try:
            keep = []
            q, how = build("dict", case["lv"], case.get("le"), case["lu"], case.get("lform"), case.get("ldtype"), keep)
            if how == "dimlist":
                # the model gets the dimension list itself (the dict is then built in DIMENSION_LIST order)
                dl = [[0, 1]] * 8
                for (p_, sname), e in case["lu"]:
                    dl[DIMS.index(sname)] = [e[0], e[1]]
                req["dimlist"] = dl
                from scinumtools.units import settings
                req["dimnames"] = list(settings.DIMENSION_LIST)
            poke(case, keep)
            imp = mark_nonfinite(observe(q))
        except (ZeroDivisionError, OverflowError, FloatingPointError):
            imp = "nonfinite"
        except Exception:
            imp = "err"
        return req, imp
    keep = []
    l, how_l = build(case.get("mode", "dict"), case["lv"], case.get("le"), case.get("lu"),
                     case.get("lform"), case.get("ldtype"), keep)
    r = None
    if case.get("same"):
        r = l                      # the SAME object on both sides (a op a)
    elif "rv" in case:
        r, _ = build(case.get("mode", "dict"), case["rv"], case.get("re"), case.get("ru"),
                     case.get("rform"), case.get("rdtype"), keep)
    req = {"k": "qty", "op": op.split("_")[0]}

    def operand(q, v, us):
        if us is None and case.get("plain"):
            return {"num": fl(np.array(v, dtype=float)) if isinstance(v, list) else float(v)}, \
                (np.array(v, dtype=float) if isinstance(v, list) else v)
        return state(q), q
    req["l"], lo = operand(l, case["lv"], case.get("lu"))
    if case.get("same"):
        req["r"], ro = req["l"], lo
    elif r is not None:
        req["r"], ro = operand(r, case["rv"], case.get("ru"))
    ids = [u[0] for u in req["l"].get("u", [])] + [u[0] for u in req.get("r", {}).get("u", [])]
    if op == "to":
        tgt = {uid(*f): (e[0] if e[1] == 1 else (e[0], e[1])) for f, e in case["tu"]}
        req["t"] = [[uid(*f), e[0], e[1]] for f, e in case["tu"]]
        ids += [t[0] for t in req["t"]]
    req["env"] = env_rows(ids)
    poke(case, keep)       # the states above were read before: a quantity must not be a view of the caller's array
    try:
        if case.get("aug") and op in ("add", "sub", "mul", "div"):
            # augmented assignment: q += x, q -= x, q *= x, q /= x
            import operator
            res = {"add": operator.iadd, "sub": operator.isub, "mul": operator.imul, "div": operator.itruediv}[op](lo, ro)
        elif op == "rebase":
            res = lo.rebase()
        elif op == "add":
            res = lo + ro
        elif op == "sub":
            res = lo - ro
        elif op == "mul":
            res = lo * ro
        elif op == "div":
            res = lo / ro
        elif op == "neg":
            res = -lo
        elif op == "state":
            res = lo
        elif op == "to":
            from scinumtools.units import BaseUnits, Quantity, Unit
            tform = case.get("tform", "baseunits")
            if tform == "quantity":
                # a reference quantity: the value in multiples of it
                t = Quantity(case["tm"], dict(tgt), abse=case.get("te"))
                req["op"], req["r"] = "toq", state(t)
                res = lo.to(t)
            elif tform == "unit" and unit_attr(case["tu"]) is not None:
                t = unit_attr(case["tu"])
                req["op"], req["r"] = "toq", state(t)
                res = lo.to(t)
            elif tform == "dict":
                res = lo.to(dict(tgt))
            elif tform == "text" and text_parses(case["tu"]):
                res = lo.to(text_of(case["tu"]))
            else:
                res = lo.to(BaseUnits(tgt))
        elif op.startswith("pow"):
            n, d = case["p"]
            if op == "pow_int":
                res = lo ** int(n)
                req["p"] = [n, 1]
            elif op == "pow_pair":
                res = lo ** (n, d)
                req["p"] = [n, d]
            elif op == "pow_frac":
                from scinumtools.units import Fraction as SFraction
                req["p"] = [n, d]
                res = lo ** SFraction(n, d)
            else:
                x = n / d
                if case.get("npfloat"):
                    x = np.dtype("float64" if case["npfloat"] is True else case["npfloat"]).type(x)
                req["p"] = float_to_frac(float(x))     # what the narrower float denotes (judged only if it is n/d)
                req["p_intended"] = [n, d]
                res = lo ** x
        else:
            raise ValueError(op)
        imp = mark_nonfinite(observe(res))
        if op.split("_")[0] in ("add", "sub", "mul", "div", "neg", "pow") and not case.get("aug"):
            # attach an uncertainty to the RESULT only; the operands must keep what they were given
            try:
                res.abse(0.3125) if rng_free_choice(case) else res.rele(12.5)
                touched = []
                for name, obj, st in (("left", lo, req["l"]), ("right", ro if "r" in req else None, req.get("r"))):
                    if obj is not None and st is not None and "num" not in st and hasattr(obj, "magnitude"):
                        now = state(obj)
                        if not close(now["e"], st["e"]) or (now["e"] is None) != (st["e"] is None):
                            touched.append([name, st["e"], now["e"]])
                if touched:
                    imp["operand_error_changed"] = touched
            except Exception:
                pass
    except (ZeroDivisionError, OverflowError, FloatingPointError):
        imp = "err" if op == "pow_pair" and case["p"][1] == 0 else "nonfinite"
    except Exception:
        imp = "err"
    if op.startswith("pow") and "p" not in req:
        n, d = case["p"]
        req["p"] = [n, 1] if op == "pow_int" else ([n, d] if op in ("pow_pair", "pow_frac") else float_to_frac(n / d))
    return req, imp


def rng_free_choice(case):
    """deterministic choice between abse() and rele() for the result-touching step"""
    return (len(json.dumps(case, default=str)) % 2) == 0


def factor_text(case):
    """'<k>*<units>' (or the number last) if the unit parser reads it as number k times the intended units, else None"""
    from scinumtools.units.unit_solver import UnitSolver
    k = case["k"]
    ks = ("%g" % k) if k == int(k) and abs(k) < 1e6 else repr(float(k))
    ks = ks.replace("e-0", "e-").replace("e+0", "e").replace("e+", "e")
    ut = text_of(case["lu"])
    text = (ut + "*" + ks) if case.get("klast") else (ks + "*" + ut)
    try:
        atom = UnitSolver(text)
        want = {uid(*f): Q(e[0], e[1]) for f, e in case["lu"]}
        got = {u: Q(fr.num, fr.den) for u, fr in atom.baseunits.items() if fr.num != 0}
        if got == want and float(atom.magnitude) == float(k):
            return text
    except Exception:
        pass
    return None


def unit_attr(tu):
    """Unit().<symbol> if the unit parser reads the symbol as the intended unit id (else None: the parser is C03's)"""
    from scinumtools.units import Unit
    try:
        t = getattr(Unit(), text_of(tu))
        want = {uid(*f): Q(e[0], e[1]) for f, e in tu}
        got = {k: Q(fr.num, fr.den) for k, fr in t.baseunits.baseunits.items()}
        return t if got == want and float(t.magnitude.value) == 1.0 else None
    except Exception:
        return None


def text_parses(tu):
    """the unit text is read by the parser as the intended exponent dict (else the BaseUnits form is used)"""
    from scinumtools.units import BaseUnits
    try:
        b = BaseUnits(text_of(tu))
        want = {uid(*f): Q(e[0], e[1]) for f, e in tu}
        return {k: Q(fr.num, fr.den) for k, fr in b.baseunits.items()} == want
    except Exception:
        return False


def poke(case, keep):
    """modify the caller's arrays after the quantities were built from them"""
    if case.get("poke"):
        for a in keep:
            a[0] = a[0] + 1 if a.dtype.kind != "u" else a[0] - 1


def mark_nonfinite(obs):
    if not (finite(obs["v"]) and finite(obs["e"])):
        obs["nonfinite"] = True
    return obs


def is_nonfinite(imp):
    return imp == "nonfinite" or (isinstance(imp, dict) and imp.get("nonfinite"))


def model_is_sane(mod, rows):
    """the model's answer is a finite result well inside the float range"""
    return isinstance(mod, dict) and finite(mod.get("v")) and finite(mod.get("e")) and \
        not out_of_range(mod, None, None, rows)


def scale_for(case, req):
    if case["op"] in ("add", "sub"):
        rows = req["env"]
        try:
            return mag(base_like(req["l"], rows)) + mag(base_like(req["r"], rows))
        except Exception:
            return None
    return None


def base_like(st, rows):
    if "num" in st:
        return st["num"]
    return base_of(st, rows)


# ---------------------------------------------------------------- case generation
def distinct_ids(us):
    return us is None or len({uid(*f) for f, _ in us}) == len(us)


def gen_case(rng):
    """one well-formed case: every unit list names each unit id once (they become Python dicts)"""
    while True:
        c = _gen_case(rng)
        if all(distinct_ids(c.get(k)) for k in ("lu", "ru", "tu")):
            return c


def _gen_case(rng):
    r = rng.random()
    mode = "text" if rng.random() < 0.3 else "dict"
    if r < 0.40:                                   # + - between quantities
        op = rng.choice(["add", "sub"])
        lu = gen_units(rng) if rng.random() < 0.9 else []
        k = rng.random()
        if k < 0.55:
            ru = variant(rng, lu) or lu
        elif k < 0.65:
            ru = list(lu)
        elif k < 0.75:
            ru = [(f, (-e[0], e[1])) for f, e in lu]
        else:
            ru = gen_units(rng)
        lv = gen_value(rng)
        rv = gen_value(rng)
        c = {"op": op, "lv": lv, "lu": lu, "rv": rv, "ru": ru}
        if isinstance(lv, list) and isinstance(rv, list) and len(lv) != len(rv):
            c["rv"] = 2.0
    elif r < 0.70:                                 # * /
        op = rng.choice(["mul", "div"])
        lu = gen_units(rng)
        k = rng.random()
        if k < 0.45:
            ru = variant(rng, lu) or gen_units(rng)     # same dimension: cancels in a quotient
        elif k < 0.6:
            ru = [(f, (-e[0], e[1])) for f, e in (variant(rng, lu) or lu)]   # cancels in a product
        elif k < 0.7:
            ru = list(lu) if rng.random() < 0.5 else [(f, (-e[0], e[1])) for f, e in lu]
        else:
            ru = gen_units(rng)
        lv = gen_value(rng)
        rv = gen_value(rng, nonzero=(op == "div"))
        if isinstance(rv, list) and op == "div":
            rv = [x if x != 0 else 1.0 for x in rv]
        c = {"op": op, "lv": lv, "lu": lu, "rv": rv, "ru": ru}
        if isinstance(lv, list) and isinstance(rv, list) and len(lv) != len(rv):
            c["rv"] = 2.0
    elif r < 0.80:                                 # plain number on either side
        op = rng.choice(["add", "sub", "mul", "div", "mul", "div"])
        us = gen_units(rng) if (op in ("mul", "div") or rng.random() < 0.3) else []
        if op in ("add", "sub") and rng.random() < 0.6:
            # dimensionless units: the only ones a plain number can be added to
            nodim = unit_pool()[1][json.dumps([[0, 1]] * 8)]
            us = [((rng.choice(pr) if pr and rng.random() < 0.5 else "", s), (rng.choice([1, 1, 2, -1]), 1))
                  for s, pr in [rng.choice(nodim)]]
        x = gen_value(rng, nonzero=True, arrays=rng.random() < 0.5)
        v = gen_value(rng, nonzero=True)
        k0 = rng.random()
        if op in ("add", "sub") and k0 < 0.3:
            x = rng.choice([0, 0.0, -0.0, 0])        # exactly zero (the start value of sum()), int and float
        elif k0 < 0.45 and not isinstance(x, list):
            x = rng.choice([3, -2, 1, 7])             # Python ints
        if isinstance(x, list) and isinstance(v, list) and len(x) != len(v):
            x = 3.0
        if rng.random() < 0.5:
            if isinstance(x, list):      # an ndarray on the left dispatches to __array_ufunc__, not to __r*__
                x = x[0]
            c = {"op": op, "lv": x, "lu": None, "rv": v, "ru": us, "plain": True}
        else:
            c = {"op": op, "lv": v, "lu": us, "rv": x, "ru": None, "plain": True}
    elif r < 0.83:
        c = {"op": "neg", "lv": gen_value(rng), "lu": gen_units(rng)}
    elif r < 0.86:
        c = gen_ctor(rng)
    elif r < 0.90:
        return gen_typed_case(rng)
    elif r < 0.93:
        c = gen_rebase(rng)
    else:                                          # powers
        kind = rng.choice(["pow_int", "pow_pair", "pow_float", "pow_float", "pow_frac"])
        if kind != "pow_int" and rng.random() < 0.4:
            # an integer-valued exponent in a non-int spelling ((2,1), (4,2), Fraction(4,2), 2.0): any sign of the value
            m, k = rng.choice([2, -2, 3, -1, 4, -3, 5, 2, -2]), rng.choice([1, 1, 2, 3])
            n, d = m * k, k
        else:
            d = 1 if kind == "pow_int" else rng.choice([1, 2, 2, 3, 4, 5, 6])
            n = rng.choice([-3, -2, -1, 1, 2, 3, 5, 0]) if rng.random() < 0.9 else rng.choice([-7, 7, 4])
            if kind == "pow_pair" and rng.random() < 0.03:
                d = 0
        frac = d not in (0, 1) and n % d != 0
        # a genuinely fractional power of a negative number is not a real number (the code raises / gives nan): not generated
        v = gen_value(rng, positive=frac or d == 0, nonzero=True)
        c = {"op": kind, "lv": v, "lu": gen_units(rng, 2), "p": [n, d]}
        if kind == "pow_float" and rng.random() < 0.45:
            # the float exponent as a numpy scalar of any width (an element of a float32 array of indices, ...)
            c["npfloat"] = rng.choice(["float64", "float32", "float16", "longdouble", "float32"])
            if c["npfloat"] in ("float32", "float16") and d not in (0, 1, 2, 4):
                c["p"] = [n, rng.choice([1, 2, 2, 4])]        # exactly representable in the narrow type
                if c["p"][0] % c["p"][1] != 0 and (isinstance(v, list) and min(v) <= 0 or not isinstance(v, list) and v <= 0):
                    c["lv"] = [abs(x) for x in v] if isinstance(v, list) else abs(v)
    c["mode"] = mode
    c["le"] = gen_err(rng, c["lv"]) if c.get("lu") is not None and c.get("lrele") is None else None
    if "rv" in c:
        c["re"] = gen_err(rng, c["rv"]) if c.get("ru") is not None else None
    if c["op"] in ("add", "sub", "mul", "div") and c.get("lu") is not None and rng.random() < 0.15:
        c["aug"] = True
    if "rv" in c and not c.get("plain") and c.get("lu") is not None and c["op"] != "newq" and rng.random() < 0.08:
        # a op a : the same object on both sides
        if c["op"] == "div" and (c["lv"] == 0 or (isinstance(c["lv"], list) and 0 in c["lv"])):
            c["lv"] = 2.0
            c["le"] = gen_err(rng, c["lv"]) if c["le"] is not None else None
        c.update({"same": True, "rv": c["lv"], "ru": c["lu"], "re": c["le"]})
    return c


def gen_typed_units(rng, form):
    base = [s for s in DIMS]
    us, seen = [], set()
    for _ in range(rng.choice([1, 1, 2])):
        s = rng.choice(base)
        pr = dict(unit_pool()[0])[s]
        p = rng.choice(pr) if (form != "dimlist" and pr and rng.random() < 0.5) else ""
        if uid(p, s) in seen or s in [x[0][1] for x in us]:
            continue
        seen.add(uid(p, s))
        us.append(((p, s), rng.choice([(1, 1), (1, 1), (2, 1), (-1, 1), (1, 2)])))
    return us


def gen_typed_case(rng):
    """ndarray magnitudes of integer / float32 dtypes, units handed over in every form, operations whose
    results leave the range of the integer dtype"""
    form = rng.choice(["dict", "baseunits", "dimlist", "none", "text", "dict", "baseunits"])
    dt, vals = rng.choice(TYPED_ARRAYS)
    lu = [] if form == "none" else gen_typed_units(rng, form)
    r = rng.random()
    c = {"lv": list(vals), "lu": lu, "lform": form, "ldtype": dt, "mode": "dict", "le": None}
    if r < 0.45:
        kind = rng.choice(["pow_int", "pow_int", "pow_pair", "pow_float"])
        n = rng.choice([7, 7, -1, -3, 2, 5, 9, -2])
        if min(vals) < 0 and kind == "pow_float":
            kind = "pow_int"
        c.update({"op": kind, "p": [n, 1]})
    elif r < 0.9:
        op = rng.choice(["mul", "mul", "mul", "div", "add", "sub"])
        if rng.random() < 0.4:
            c.update({"op": op, "same": True, "rv": list(vals), "ru": lu, "re": None})
        else:
            dt2, vals2 = rng.choice([t for t in TYPED_ARRAYS if len(t[1]) == len(vals)])
            form2 = rng.choice(["dict", "baseunits", "text"])
            ru = (variant(rng, lu) or lu) if (op in ("add", "sub") or rng.random() < 0.5) else gen_typed_units(rng, form2)
            c.update({"op": op, "rv": list(vals2), "ru": ru, "rform": form2, "rdtype": dt2, "re": None})
    elif r < 0.95:
        c.update({"op": "neg"})
    else:
        c.update({"op": "new"})
    if rng.random() < 0.4:
        c["poke"] = True
    if rng.random() < 0.2:
        c["le"] = 0.125
    return c


def rebase_key(sym):
    """the key Quantity.rebase merges on: the NAMES of the unit's non-zero dimensions"""
    return tuple(i for i, d in enumerate(dims_of(sym)) if d[0] != 0)


def gen_rebase(rng):
    """q.rebase(): a compound unit that mixes units of one dimension (m*cm, m2/cm, J*erg-1*s ...). Units that share the
    names of their dimensions but not the dimension itself (m and l, J and W) are left out: rebase() merges those as if
    they were the same dimension (an issue of rebase itself, outside C06/C08)."""
    while True:
        lu = gen_units(rng, 2)
        extra = variant(rng, lu) or lu
        seen = {uid(*f) for f, _ in lu}
        out = list(lu)
        for f, e in extra:
            if uid(*f) not in seen:
                seen.add(uid(*f))
                out.append((f, rng.choice([e, e, (-e[0], e[1]), (1, 1), (2, 1)])))
        if rng.random() < 0.3:
            rng.shuffle(out)
        groups = {}
        for (p_, sname), _ in out:
            groups.setdefault(rebase_key(sname), set()).add(json.dumps(dims_of(sname)))
        if all(len(g) == 1 for g in groups.values()):
            return {"op": "rebase", "lv": gen_value(rng), "lu": out}


def gen_ctor(rng):
    """Quantity(value, units): mostly unit expressions whose dimensions cancel with a factor != 1;
    Quantity(value, ref): the unit given as a quantity"""
    if rng.random() < 0.35:
        ru = gen_units(rng, 2)
        if rng.random() < 0.3:
            inv = [(f, (-e[0], e[1])) for f, e in (variant(rng, ru) or ru)]
            seen = {uid(*f) for f, _ in ru}
            for f, e in inv:
                if uid(*f) not in seen:
                    seen.add(uid(*f))
                    ru.append((f, e))
        lv = gen_value(rng)
        rv = gen_value(rng, nonzero=True, arrays=not isinstance(lv, list) and rng.random() < 0.3)
        return {"op": "newq", "lv": lv, "lu": [], "rv": rv, "ru": ru}
    lu = gen_units(rng, 2)
    if rng.random() < 0.8:
        inv = [(f, (-e[0], e[1])) for f, e in (variant(rng, lu) or lu)]
        seen = {uid(*f) for f, _ in lu}
        for f, e in inv:
            if uid(*f) not in seen:        # a Python dict has every unit id once
                seen.add(uid(*f))
                lu.append((f, e))
        if rng.random() < 0.3:
            nodim = unit_pool()[1][json.dumps([[0, 1]] * 8)]
            s, pr = rng.choice(nodim)
            if uid("", s) not in seen:
                seen.add(uid("", s))
                lu.append((("", s), (1, 1)))
    c = {"op": "new", "lv": gen_value(rng), "lu": lu}
    if rng.random() < 0.4:
        c["k"] = rng.choice([2, 1e3, 0.5, 1e-10, 2.5, 12, 1e-3, -3, 60, 0.25])
        if rng.random() < 0.3:
            c["klast"] = True
        if rng.random() < 0.3:
            c["lrele"] = rng.choice([1, 5, 10])
    return c


def U(*fs):
    """helper for corpus entries: U(('k','m',1,1), ...)"""
    return [((p, s), (n, d)) for p, s, n, d in fs]


CORPUS = [
    # recon / fixed defects (DESIGN section 9): float exponents
    {"op": "pow_float", "lv": 2.0, "lu": U(("", "m", 1, 1)), "p": [1, 2]},
    {"op": "pow_float", "lv": 2.0, "lu": U(("", "m", 1, 1)), "p": [5, 2]},
    {"op": "pow_float", "lv": 2.0, "lu": U(("", "m", 1, 1)), "p": [-3, 2]},
    {"op": "pow_pair", "lv": 2.0, "lu": U(("", "m", 1, 1)), "p": [1, 2]},
    {"op": "pow_float", "lv": 9.0, "lu": U(("k", "m", 2, 1), ("", "s", -1, 1)), "p": [1, 3]},
    {"op": "pow_int", "lv": -2.0, "lu": U(("c", "m", 1, 2)), "p": [2, 1]},
    {"op": "pow_pair", "lv": 2.0, "lu": U(("", "m", 1, 1)), "p": [1, 0]},
    {"op": "pow_pair", "lv": -3.0, "lu": U(("k", "m", 1, 1)), "p": [2, 1]},
    {"op": "pow_pair", "lv": -3.0, "lu": U(("k", "m", 1, 1)), "p": [4, 2]},
    {"op": "pow_frac", "lv": -3.0, "lu": U(("k", "m", 1, 1)), "p": [4, 2]},
    {"op": "pow_float", "lv": -3.0, "lu": U(("k", "m", 1, 1)), "p": [2, 1]},
    {"op": "pow_float", "lv": [-2.0, 4.0, -5.0], "lu": U(("c", "m", 1, 1), ("", "s", -1, 1)), "p": [-2, 1], "npfloat": True},
    {"op": "pow_float", "lv": 9.0, "lu": U(("k", "m", 2, 1), ("", "s", -1, 1)), "p": [1, 2], "npfloat": "float32"},
    {"op": "pow_float", "lv": [1.0, 4.0], "lu": U(("", "m", 1, 1)), "p": [5, 2], "npfloat": "float16"},
    {"op": "pow_float", "lv": 4.0, "lu": U(("", "s", 1, 1)), "p": [-3, 2], "npfloat": "longdouble"},
    {"op": "pow_pair", "lv": [-2.0, 4.0, -5.0], "lu": U(("c", "m", 1, 1), ("", "s", -1, 1)), "p": [-4, 2]},
    {"op": "pow_frac", "lv": -2.0, "lu": U(("", "s", 1, 2)), "p": [9, 3]},
    # mixed prefixes that must cancel
    {"op": "mul", "lv": 3.0, "lu": U(("k", "m", 1, 1)), "rv": 2.0, "ru": U(("", "m", -1, 1))},
    {"op": "div", "lv": 3.0, "lu": U(("k", "m", 1, 1)), "rv": 2.0, "ru": U(("c", "m", 1, 1))},
    {"op": "div", "lv": 3.0, "lu": U(("", "J", 1, 1)), "rv": 2.0, "ru": U(("k", "g", 1, 1), ("", "m", 2, 1), ("", "s", -2, 1))},
    {"op": "mul", "lv": [1.0, 2.0], "lu": U(("k", "m", 1, 1), ("", "%", 1, 1)), "rv": 2.0, "ru": U(("", "m", -1, 1))},
    {"op": "add", "lv": 3.0, "lu": U(("k", "m", 1, 1)), "rv": 2.0, "ru": U(("c", "m", 1, 1))},
    {"op": "sub", "lv": 3.0, "lu": U(("", "J", 1, 1)), "rv": 2.0, "ru": U(("", "N", 1, 1), ("", "m", 1, 1)), "le": 0.1, "re": 0.2},
    {"op": "add", "lv": 3.0, "lu": U(("", "m", 1, 1)), "rv": 2.0, "ru": U(("", "s", 1, 1))},
    {"op": "add", "lv": 3.0, "lu": U(("", "s", 1, 1)), "rv": 2.0, "ru": U(("", "Hz", 1, 1))},
    {"op": "add", "lv": 3.0, "lu": None, "rv": 2.0, "ru": U(("", "rad", 1, 1)), "plain": True},
    {"op": "add", "lv": 3.0, "lu": None, "rv": 2.0, "ru": [], "plain": True},
    {"op": "div", "lv": 3.0, "lu": None, "rv": 2.0, "ru": U(("", "m", 1, 1)), "plain": True},
    {"op": "sub", "lv": 3.0, "lu": None, "rv": 2.0, "ru": [], "plain": True},
    {"op": "add", "lv": 3.0, "lu": None, "rv": 2.0, "ru": U(("", "%", 1, 1)), "plain": True},
    {"op": "sub", "lv": 2.0, "lu": U(("", "ppth", 1, 1)), "rv": 3.0, "ru": None, "plain": True},
    # exactly zero on the left of + and - : a plain number like any other
    {"op": "add", "lv": 0, "lu": None, "rv": 2.0, "ru": U(("", "m", 1, 1)), "plain": True},
    {"op": "add", "lv": 0.0, "lu": None, "rv": [1.0, 2.0], "ru": U(("k", "m", 1, 1), ("", "s", -1, 1)), "plain": True},
    {"op": "add", "lv": 0, "lu": None, "rv": 50.0, "ru": U(("", "%", 1, 1)), "plain": True},
    {"op": "sub", "lv": -0.0, "lu": None, "rv": 7.0, "ru": U(("", "ppth", 1, 1)), "plain": True},
    {"op": "add", "lv": 0, "lu": None, "rv": 4.0, "ru": [], "plain": True, "re": 0.1},
    {"op": "add", "lv": 3.0, "lu": U(("", "%", 1, 1)), "rv": 0, "ru": None, "plain": True},
    {"op": "neg", "lv": [1.0, -2.0], "lu": U(("", "m", 1, 1)), "le": 0.1},
    # the same object on both sides
    {"op": "mul", "lv": 12.0, "lu": U(("c", "m", 1, 1)), "le": 0.2, "same": True, "rv": 12.0, "ru": U(("c", "m", 1, 1)), "re": 0.2},
    {"op": "div", "lv": 3.0, "lu": U(("k", "m", 1, 1)), "same": True, "rv": 3.0, "ru": U(("k", "m", 1, 1))},
    {"op": "sub", "lv": [1.0, 2.0], "lu": U(("", "s", 1, 1)), "le": 0.1, "same": True, "rv": [1.0, 2.0], "ru": U(("", "s", 1, 1)), "re": 0.1},
    # ndarray magnitudes of integer dtypes, units in every form; the caller's array is modified afterwards
    {"op": "pow_int", "lv": [1000, 2, 30], "lu": U(("k", "m", 1, 1)), "lform": "dict", "ldtype": "int64", "p": [7, 1]},
    {"op": "pow_int", "lv": [3, 4], "lu": U(("", "m", 1, 1), ("", "s", -1, 1)), "lform": "dimlist", "ldtype": "int64", "p": [-2, 1]},
    {"op": "mul", "lv": [4000000000, 5, 6], "lu": U(("c", "m", 1, 1)), "lform": "baseunits", "ldtype": "int64", "same": True,
     "rv": [4000000000, 5, 6], "ru": U(("c", "m", 1, 1))},
    {"op": "pow_int", "lv": [1000, 2000, 3000], "lu": [], "lform": "none", "ldtype": "int64", "p": [7, 1]},
    {"op": "neg", "lv": [200, 3, 100], "lu": U(("", "g", 1, 1)), "lform": "dict", "ldtype": "uint8", "poke": True},
    {"op": "add", "lv": [1, 2, 3], "lu": U(("k", "m", 1, 1)), "lform": "baseunits", "ldtype": "int32", "poke": True,
     "rv": [0.5, 1.25, 3.0], "ru": U(("", "m", 1, 1)), "rform": "dict", "rdtype": "float32"},
    {"op": "mul", "lv": [2.5, -4.0, 1000.0], "lu": U(("", "s", 1, 1)), "lform": "dict", "ldtype": "float64", "poke": True,
     "rv": [1, 2, 3], "ru": U(("", "s", -1, 1)), "rform": "text", "rdtype": "int32"},
    # rebase(): units of one dimension merged
    {"op": "rebase", "lv": 10.0, "lu": U(("", "m", 1, 1), ("c", "m", 1, 1)), "le": 0.7},
    {"op": "rebase", "lv": [3.0, 6.0], "lu": U(("", "m", 2, 1), ("c", "m", -1, 1), ("", "s", -1, 1), ("", "min", 1, 2)), "le": 0.3},
    # augmented assignment
    {"op": "add", "aug": True, "lv": [2.0, 3.0, 4.0], "lu": U(("", "m", 1, 1)), "le": 0.01, "rv": [10.0, 20.0, 30.0], "ru": U(("c", "m", 1, 1)), "re": 0.5},
    {"op": "sub", "aug": True, "lv": [2.0, 3.0], "lu": U(("", "m", 1, 1)), "rv": 1.0, "ru": U(("d", "m", 1, 1)), "re": 0.2},
    {"op": "mul", "aug": True, "lv": [2.0, 3.0], "lu": U(("k", "m", 1, 1)), "le": 0.1, "rv": 4.0, "ru": U(("", "m", -1, 1)), "re": 0.2},
    # constructor with units whose dimensions cancel
    {"op": "new", "lv": 4.0, "lu": U(("c", "m", 1, 1), ("", "m", -1, 1)), "le": 0.1},
    {"op": "new", "lv": 3.0, "lu": U(("k", "Hz", 1, 1), ("", "s", 1, 1), ("", "%", 1, 1))},
    # unit strings with an explicit numerical factor
    {"op": "new", "lv": 3.0, "lu": U(("", "m", 1, 1)), "le": 0.1, "k": 2},
    {"op": "new", "lv": 1.54, "lu": U(("", "m", 1, 1)), "le": 0.02, "k": 1e-10},
    {"op": "new", "lv": [1.0, 2.0], "lu": U(("", "g", 1, 1)), "lrele": 10, "k": 1e3},
    {"op": "new", "lv": 3.0, "lu": U(("k", "m", 1, 1), ("", "h", -1, 1)), "le": 0.1, "k": 0.5},
    {"op": "new", "lv": 3.0, "lu": U(("k", "m", 1, 1), ("", "m", -1, 1)), "le": 0.1, "k": -3, "klast": True},
    {"op": "newq", "lv": 4.0, "lu": [], "le": 0.2, "rv": 2.5, "ru": U(("c", "m", 1, 1)), "re": 0.1},
    {"op": "newq", "lv": -3.0, "lu": [], "rv": 2.5, "ru": U(("c", "m", 1, 1)), "re": 0.1},
    {"op": "newq", "lv": [1.0, 2.0], "lu": [], "le": 0.1, "rv": 2.0, "ru": U(("k", "m", 1, 1), ("", "m", -1, 1))},
    {"op": "newq", "lv": 123e2, "lu": [], "rv": 2.0, "ru": U(("", "m", 1, 1))},
]


def exponent_judgeable(ctx, case, req):
    """a float exponent is judged when it denotes the generated n/d"""
    op = case["op"]
    if op == "pow_float" and req.get("p_intended") and Q(*req["p"]) != Q(*req["p_intended"]):
        ctx.count("float-not-denoting-n/d")
        return False
    if op == "pow_float" and case.get("npfloat") not in (None, True, "float64", "longdouble"):
        import numpy as np
        n_, d_ = case["p"]
        if float(np.dtype(case["npfloat"]).type(n_ / d_)) != n_ / d_:
            # a float32/float16 that is not exactly n/d (1/3, 1/5 ...) denotes another number: the value is its power,
            # the unit exponent its nearest small fraction; nothing to judge
            ctx.count("narrow-float-not-exactly-n/d")
            return False
    return True


def judge(ctx, case, req, imp, ans, prop="C06"):
    """compare one case; returns True if judged"""
    op = case["op"]
    ctx.count("op." + op)
    if imp == "skip":
        ctx.count("unit-text-not-parsed-as-intended")
        return False
    if "ok" not in ans:
        ctx.disagreement(op, case, "driver error %s" % (ans,))
        return True
    if is_nonfinite(imp):
        if model_is_sane(ans["ok"]["model"], req["env"]):
            got = "an exception (ZeroDivision/Overflow)" if imp == "nonfinite" else "value %s error %s" % (imp["v"], imp["e"])
            ctx.violation("%s:notanumber" % op, "Quantity %s gives %s where the result is the ordinary number %s (operands %s)" %
                          (op, got, ans["ok"]["model"]["v"], describe(case)), {"case": case, "impl": imp})
            return True
        ctx.count("nonfinite")
        return False
    if not exponent_judgeable(ctx, case, req):
        return False
    scale = scale_for(case, req)
    mod, spec = ans["ok"]["model"], ans["ok"]["spec"]
    if out_of_range(imp, mod, spec, req["env"]):
        ctx.count("out-of-float-range")
        return False
    ctx.count("refused" if imp == "err" else "computed")
    if imp != "err" and imp["units"] is None and (case.get("lu") or case.get("ru")):
        ctx.count("dimensions-vanish")
    if case.get("le") is not None or case.get("re") is not None:
        ctx.count("with-error")
    if isinstance(case["lv"], list) or isinstance(case.get("rv"), list):
        ctx.count("array")
    if case.get("ldtype") or case.get("rdtype"):
        ctx.count("ndarray-dtype." + (case.get("ldtype") or case.get("rdtype")))
        ctx.count("units-form." + str(case.get("lform")))
    if case.get("poke"):
        ctx.count("caller-array-modified-after-construction")
    if case.get("aug"):
        ctx.count("augmented-assignment")
    if case.get("npfloat"):
        ctx.count("exponent-numpy-" + ("float64" if case["npfloat"] is True else case["npfloat"]))
    if case.get("same"):
        ctx.count("same-object")
    bad = compare_spec(imp, spec, req["env"], scale)
    if bad:
        ctx.violation("%s:%s" % (op, bad[0]),
                      "Quantity %s: %s (operands %s)" % (op, bad[1], describe(case)),
                      {"case": case, "impl": imp, "spec": spec})
    d = compare_model(imp, mod, scale)
    if d:
        ctx.disagreement(op, case, d)
    return True


def out_of_range(imp, mod, spec, rows):
    """overflow / underflow of float arithmetic (acknowledged float effect, DESIGN section 7)"""
    vals = []
    for o in (imp, mod, spec):
        if isinstance(o, dict):
            for k in ("v", "e", "base"):
                x = o.get(k)
                vals += x if isinstance(x, list) else [x]
    if isinstance(imp, dict):
        try:
            b = base_of(imp, rows)
            vals += b if isinstance(b, list) else [b]
            f = {r[0]: r[3] for r in rows}
            fs = [f[u] ** (n / d) for u, n, d in imp["u"]]
        except (OverflowError, ZeroDivisionError, TypeError):
            return True
        if any(x == 0 for x in fs):
            return True
        vals += fs
    for x in vals:
        if x is None:
            continue
        if isinstance(x, str) or (x != 0 and not (1e-250 < abs(x) < 1e250)):
            return True
    return False


def describe(case):
    def one(v, u, e, dt=None, form=None):
        if dt:
            v = "np.array(%r, dtype=%s)" % (v, dt)
            if u is not None:
                return "%s%s units(%s)='%s'" % (v, "" if e is None else "±%g" % e, form, text_of(u))
        if u is None:
            return repr(v)
        return "%r%s '%s'" % (v, "" if e is None else "±%g" % e, text_of(u))
    s = one(case["lv"], case.get("lu"), case.get("le"), case.get("ldtype"), case.get("lform"))
    if case.get("poke"):
        s += " [caller's array modified after construction]"
    if case["op"] == "newq":
        return "Quantity(%s, unit=Quantity(%s))" % (repr(case["lv"]) + ("" if case.get("le") is None else "±%g" % case["le"]),
                                                   one(case["rv"], case.get("ru"), case.get("re")))
    if case.get("same"):
        s += " , the same object"
    elif "rv" in case:
        s += " , " + one(case["rv"], case.get("ru"), case.get("re"), case.get("rdtype"), case.get("rform"))
    if "p" in case:
        s += " ** %s/%s as %s" % (case["p"][0], case["p"][1], case["op"][4:])
    if case.get("numpy"):
        s += " [as np.%s]" % {"sqrt": "sqrt(q)", "cbrt": "cbrt(q)", "nppow": "power(q, p)"}[case["numpy"]]
    if case.get("aug"):
        s += " [augmented assignment]"
    if case.get("k") is not None:
        s = "Quantity(%r%s, '%s')" % (case["lv"], (", rele=%s" % case["lrele"]) if case.get("lrele") is not None else
                                      ("" if case.get("le") is None else ", abse=%g" % case["le"]), factor_text(case))
    if case["op"] == "rebase":
        s += " .rebase()"
    if case.get("history"):
        s += " after [%s] on the same objects" % "; ".join(case["history"])
    return s


def nontrivial(case):
    lu, ru = case.get("lu"), case.get("ru")
    if case["op"].startswith("pow"):
        return case["p"][1] not in (0, 1) or bool(lu)
    if case["op"] == "newq":
        return bool(ru)
    if case.get("same") or case["op"] == "new":
        return bool(lu)
    if lu and ru:
        return [f for f, _ in lu] != [f for f, _ in ru]
    return bool(lu or ru)


def run_cases(ctx, cases, prop="C06"):
    reqs, imps = [], []
    for c in cases:
        req, imp = run_impl(c)
        reqs.append(req)
        imps.append(imp)
    answers = ask_many(ctx, [{k: v for k, v in r.items() if k != "p_intended"} for r in reqs])
    for c, req, imp, ans in zip(cases, reqs, imps, answers):
        judged = judge(ctx, c, req, imp, ans, prop)
        if judged:
            ctx.case(json.dumps(c, sort_keys=True, default=str), nontrivial(c),
                     {"op": c["op"], "operands": describe(c), "result": imp if imp == "err" else
                      {"value": imp["v"], "units": imp["units"]}})


# ---------------------------------------------------------------- histories that reuse the same objects
NZ = [1.0, -1.0, 2.0, 0.5, -3.0, 3.5, 12.0, 7.0, 10.0, 20.0, -0.25]


def same_state(a, b):
    return close(a.get("v"), b.get("v")) and close(a.get("e"), b.get("e")) and \
        [(u, qfrac(n, d)) for u, n, d in a.get("u", [])] == [(u, qfrac(n, d)) for u, n, d in b.get("u", [])] and \
        (a.get("e") is None) == (b.get("e") is None)


def gen_pool_values(rng, n):
    arr = rng.random() < 0.75
    length = rng.choice([2, 3])
    out = []
    for i in range(n):
        if arr and (i == 0 or rng.random() < 0.6):
            v = [rng.choice(NZ) for _ in range(length)]
        else:
            v = rng.choice(NZ)
        e = None if rng.random() < 0.15 else (min(abs(x) for x in v) if isinstance(v, list) else abs(v)) * rng.choice([0.05, 0.1, 0.2])
        out.append((v, e))
    return out


def gen_steps(rng, n, quantity):
    steps = []
    for _ in range(rng.randint(3, 6)):
        op = rng.choice(["add", "sub", "sub", "sub", "mul", "div", "neg", "pow", "add", "mul"])
        if quantity and rng.random() < 0.2:
            op = rng.choice(["sqrt", "cbrt", "nppow"])       # numpy roots / powers of a quantity
        i, j = rng.randrange(n), rng.randrange(n)
        num = None
        if op in ("add", "sub", "mul", "div") and rng.random() < 0.15 and (not quantity or op in ("mul", "div")):
            num = rng.choice([2.0, -3.0, 0.5])
        steps.append((op, i, j, num, rng.choice([2, -1, 3])))
    return steps


def step_text(op, i, j, num, p):
    sym = {"add": "+", "sub": "-", "mul": "*", "div": "/"}
    if op == "neg":
        return "-x%d" % i
    if op == "pow":
        return "x%d**%d" % (i, p)
    if op in ("sqrt", "cbrt"):
        return "np.%s(x%d)" % (op, i)
    if op == "nppow":
        return "np.power(x%d, %s)" % (i, p)
    return "x%d %s %s" % (i, sym[op], ("x%d" % j) if num is None else repr(num))




def qty_history(ctx, count, judge_fn, presets, signature):
    """Quantities are created ONCE and used in several operations (every operator, a op a, unary minus, powers); results
    are rebased / converted in place in between. Model and specification always get the state the operands were created
    with; afterwards every operand is re-read."""
    pending, finals = [], []
    n = 3
    for h in range(count + len(presets)):
        preset = presets[h] if h < len(presets) else None
        if preset:
            vals, steps, us = preset["vals"], preset["steps"], preset["units"]
        else:
            vals = gen_pool_values(ctx.rng, n)
            steps = gen_steps(ctx.rng, n, True)
            lu = gen_units(ctx.rng, 2)
            us = [lu] + [(variant(ctx.rng, lu) or lu) if ctx.rng.random() < 0.7 else lu for _ in range(n - 1)]
        try:
            objs = [build("dict", v, e, u)[0] for (v, e), u in zip(vals, us)]
        except Exception:
            continue
        snaps = [state(o) for o in objs]
        env = env_rows([x[0] for sn in snaps for x in sn["u"]])
        pool = [[v, e, text_of(u)] for (v, e), u in zip(vals, us)]
        done = []
        for op, i, j, num, p in steps:
            if op in ("sqrt", "cbrt", "nppow"):
                # np.sqrt(q) = Quantity(np.sqrt(value), baseunits/2), np.cbrt: /3, np.power(q,x): baseunits*x — powers with
                # the uncertainty dropped (documented: errors are propagated by + - * / ** only)
                import numpy as np
                vv = vals[i][0] if isinstance(vals[i][0], list) else [vals[i][0]]
                if op != "nppow" and min(vv) <= 0:
                    op = "nppow"                                  # real roots of non-positive numbers are not generated
                pq = {"sqrt": [1, 2], "cbrt": [1, 3], "nppow": [p, 1]}[op]
                c = {"op": "pow_pair" if op != "nppow" else "pow_int", "lv": vals[i][0], "lu": us[i], "le": None, "p": pq,
                     "numpy": op, "history": list(done), "pool": pool}
                req = {"k": "qty", "op": "pow", "l": dict(snaps[i], e=None), "env": env, "p": pq}
                l = objs[i]
                try:
                    res = np.sqrt(l) if op == "sqrt" else (np.cbrt(l) if op == "cbrt" else np.power(l, p))
                    imp = mark_nonfinite(observe(res))
                except (ZeroDivisionError, OverflowError, FloatingPointError):
                    imp = "nonfinite"
                except Exception:
                    imp = "err"
                done.append(step_text(op, i, j, num, p))
                pending.append((c, req, imp))
                continue
            c = {"op": op if op != "pow" else "pow_int", "lv": vals[i][0], "lu": us[i], "le": vals[i][1],
                 "history": list(done), "pool": pool}
            req = {"k": "qty", "op": op, "l": snaps[i], "env": env}
            l, r = objs[i], None
            if op in ("add", "sub", "mul", "div"):
                if num is not None:
                    c.update({"rv": num, "ru": None, "plain": True})
                    req["r"], r = {"num": num}, num
                else:
                    c.update({"rv": vals[j][0], "ru": us[j], "re": vals[j][1]})
                    req["r"], r = snaps[j], objs[j]
                    if i == j:
                        c["same"] = True
            elif op == "pow":
                c["p"] = [p, 1]
                req["p"] = [p, 1]
            try:
                res = {"add": lambda: l + r, "sub": lambda: l - r, "mul": lambda: l * r, "div": lambda: l / r,
                       "neg": lambda: -l, "pow": lambda: l ** p}[op]()
                imp = mark_nonfinite(observe(res))
                # what a user does with a result: merge its units / convert it in place (must not reach the operands)
                k = ctx.rng.random() if not preset else 0.0
                try:
                    if k < 0.45:
                        res.rebase()
                    elif k < 0.6 and res.units():
                        res.to(res.units())
                    elif k < 0.8:
                        res.abse(0.3125)        # an uncertainty attached to the result only
                except Exception:
                    pass
            except (ZeroDivisionError, OverflowError, FloatingPointError):
                imp = "nonfinite"
            except Exception:
                imp = "err"
            done.append(step_text(op, i, j, num, p) + ("" if imp in ("err", "nonfinite") else " (result rebased/converted)"))
            pending.append((c, req, imp))
        for k in range(n):
            finals.append(("x%d = Quantity(%r%s, '%s')" % (
                k, vals[k][0], "" if vals[k][1] is None else ", abse=%g" % vals[k][1], text_of(us[k])),
                snaps[k], state(objs[k]), done, pool))
    answers = ask_many(ctx, [r for _, r, _ in pending])
    for (c, req, imp), ans in zip(pending, answers):
        judge_fn(ctx, c, req, imp, ans)
    for text, snap, now, done, pool in finals:
        ctx.count("history.operands-rechecked")
        if not same_state(snap, now):
            ctx.violation(signature,
                          "%s has value %s abse %s units %s after the operations [%s]; it was created with value %s abse %s "
                          "units %s, so every later operation with it no longer is the operation on the values given" %
                          (text, now.get("v"), now.get("e"), now.get("u"), "; ".join(done), snap.get("v"), snap.get("e"),
                           snap.get("u")), {"pool": pool, "steps": done, "created": snap, "now": now})


C06_HISTORY_CORPUS = [
    {"vals": [(9.0, None), ([8.0, 27.0], None), (2.0, None)],
     "units": [U(("", "m", 2, 1)), U(("c", "m", 3, 1), ("", "s", -3, 1)), U(("", "m", 1, 1))],
     "steps": [("sqrt", 0, 0, None, 2), ("mul", 0, 2, None, 2), ("cbrt", 1, 0, None, 2), ("div", 1, 2, None, 2),
               ("nppow", 2, 0, None, 3), ("pow", 0, 0, None, 2), ("mul", 2, 0, None, 2)]},
    # product / quotient of same-dimension different-symbol units, result rebased, operands reused
    {"vals": [(2.0, None), (3.0, None), ([1.0, -2.0, 3.0], None)],
     "units": [U(("c", "m", 1, 1)), U(("", "m", 1, 1)), U(("k", "m", 1, 1))],
     "steps": [("mul", 0, 1, None, 2), ("mul", 0, 1, None, 2), ("div", 0, 1, None, 2), ("pow", 0, 0, None, 2),
               ("neg", 2, 0, None, 2), ("add", 2, 2, None, 2), ("sub", 1, 2, None, 2), ("mul", 2, 0, None, 2)]},
    {"vals": [([100.0, 200.0, 300.0], None), ([1.0, 2.0, 3.0], None), (3.0, None)],
     "units": [U(("", "m", 1, 1)), U(("k", "m", 1, 1)), U(("", "s", 1, 1))],
     "steps": [("neg", 0, 0, None, 2), ("add", 0, 0, None, 2), ("sub", 1, 0, None, 2), ("neg", 1, 0, None, 2),
               ("mul", 1, 1, None, 2), ("div", 0, 2, None, 2), ("div", 0, 2, None, 2)]},
]


def correspond(ctx: Ctx):
    import warnings
    warnings.simplefilter("ignore", RuntimeWarning)      # numpy's divide-by-zero / overflow notices (such cases are not judged)
    n = 12000 if ctx.tier == "thorough" else 2500
    cases = [dict(c) for c in CORPUS] + [gen_case(ctx.rng) for _ in range(n)]
    for i in range(0, len(cases), 1000):
        run_cases(ctx, cases[i:i + 1000])
    qty_history(ctx, 600 if ctx.tier == "thorough" else 150,
                lambda ctx_, c, req, imp, ans: judge(ctx_, c, req, imp, ans) and ctx_.case(
                    json.dumps(c, sort_keys=True, default=str), True, None),
                C06_HISTORY_CORPUS, "history:operand-changed")


def replay(ctx, payload):
    case = payload.get("replay", payload).get("case")
    if not case:
        print(json.dumps(payload, indent=1)[:3000])
        return 2
    for k in ("lu", "ru", "tu"):
        if case.get(k) is not None:
            case[k] = [((f[0], f[1]), (e[0], e[1])) for f, e in case[k]]
    run_cases(ctx, [case])
    for v in ctx.violations:
        print("VIOLATION (replayed) %s: %s" % (v["signature"], v["what"]))
    for d in ctx.disagreements:
        print("impl!=model (replayed): %s" % d["detail"])
    print("replayed: %s" % describe(case))
    return 1 if ctx.violations or ctx.disagreements else 0
