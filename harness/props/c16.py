"""C16 — constraints enforced by DIP.parse: correspondence (impl vs Lean model of the validation loop) and
oracle (impl vs the Lean specification `holds`, evaluated independently on the final values)."""
import re
import warnings

from harness import core
from harness.core import Ctx
from harness.props import c18

RULE = ("DIP texts with 2-5 context nodes and 1-2 constrained nodes (float with unit, unit-less int, str, bool, float arrays) carrying a random "
        "subset of {options per line, options list, !condition, !format, dimension bounds, declaration only}, final values on / within 0.4e-6 of / "
        "3e-6 off / far off each boundary, options written in other units of the same dimension (custom $units included), followed by 0-3 "
        "modifications (also in other units); real DIP.parse accepts or raises; the final value is computed independently by the generator and "
        "the Lean specification `holds` decides it; on acceptance the returned env.data() is re-checked against that final value. "
        "non-trivial = >=2 constraint kinds on one node, or an option/condition in another unit, or a modification; distinct = the text")
ASSUMPTIONS = [
    "options are written in units of the node's dimension (an inconvertible option is refused when it is registered)",
    "tolerance verdicts are judged only when robust (10% away from the boundary 1e-8 + 1e-6*|b|)",
    "!condition expressions come from the C18 logical grammar with {?} bound to the node; their value is computed by the C18 model/specification",
    "re.match is a parameter: its verdict on the final value is computed by the harness and handed to model and specification",
    "int nodes are unit-less (int casting of converted values is C14); array nodes carry only dimension bounds",
    "dimension bounds are enforced by cast_value on every assignment, not only on the final one: an array whose first value breaks the bounds "
    "is not modified afterwards in the generated texts (the code rejects it at once; judged here on the value that was rejected)",
]
EXPLANATION = ("theorems: the validation loop accepts a node list iff every node satisfies holds (soundness and completeness, by induction over the "
               "node list, for all values/options/units, with conversion, isclose, condition value and re.match as parameters); "
               "cast_value's dimension test iff every declared bound holds; options compared after conversion to the node's unit")

LUNITS = ["m", "cm", "km", "mm"]


def gen_tables(ctx):
    # the condition stream uses the C18 model driver
    ok, out, failing = core.lake_build(["drv_c18"])
    if not ok:
        raise RuntimeError("drv_c18 does not build: %s" % failing)
    return []


def fnum(x):
    return repr(float(x))


class Target:
    pass


def gen_target(rng, name, kmap, custom):
    t = Target()
    t.name = name
    t.kind = rng.choice(["float", "float", "float", "int", "str", "bool", "array"])
    t.lines, t.mods = [], []
    t.options, t.cond_ast, t.fmt, t.dims, t.shape = [], None, None, [], []
    t.declared = False
    t.unit = None
    units = LUNITS + (["[x]"] if custom else [])
    delta = lambda: rng.choice([0, 0, 4e-7, -4e-7, 3e-6, -3e-6, 0.5, -0.25])
    if t.kind == "float":
        t.unit = rng.choice(units)
        v = float(rng.choice(c18.NUMS))
        t.declared = rng.random() < 0.2
        head = "%s float %s" % (name, t.unit) if t.declared else "%s float = %s %s" % (name, fnum(v), t.unit)
        t.final = None if t.declared else v
        # modifications decide the final value first (options/conditions are built around it)
        for _ in range(rng.choice([0, 0, 1, 2, 3]) if not t.declared else rng.choice([0, 1, 1, 2])):
            u2 = rng.choice(units)
            mv = float(rng.choice(c18.NUMS))
            t.mods.append("%s = %s %s" % (name, fnum(mv), u2))
            t.final = mv * kmap[u2] / kmap[t.unit]
        t.lines.append(head)
        ref = t.final if t.final is not None else 1.0
        if rng.random() < 0.55:
            n = rng.randint(1, 3)
            hit = rng.random() < 0.7
            vals = []
            for i in range(n):
                u2 = rng.choice(units)
                d = delta() if (hit and i == 0) else rng.choice([0.5, -0.3, 3e-6, 2.0])
                vals.append((ref * kmap[t.unit] / kmap[u2] * (1 + d), u2))
            rng.shuffle(vals)
            if rng.random() < 0.5:
                for ov, u2 in vals:
                    t.lines.append("  = %s %s" % (fnum(ov), u2))
                    t.options.append(["num", ov, u2])
            else:
                u2 = vals[0][1]
                vs = [ov * kmap[u] / kmap[u2] for ov, u in vals]
                t.lines.append("  !options [%s] %s" % (",".join(fnum(x) for x in vs), u2))
                t.options += [["num", x, u2] for x in vs]
        if rng.random() < 0.55:
            u2 = rng.choice(units + [None])
            bound = ref * (kmap[t.unit] / kmap[u2] if u2 else 1.0) * (1 + delta())
            op = rng.choice(["eq", "ne", "le", "ge", "lt", "gt"])
            cmp_ = ["bin", op, ["lit", "{?}"], ["lit", fnum(bound) + (" " + u2 if u2 else "")]]
            r = rng.random()
            if r < 0.2:
                cmp_ = ["pre", "not", cmp_]
            elif r < 0.4:
                cmp_ = ["bin", rng.choice(["and", "or"]), cmp_, ["bin", "gt", ["lit", "{?}"], ["lit", "0"]]]
            elif r < 0.5:
                cmp_ = ["bin", "and", ["lit", "!{?%s}" % name], cmp_]
            t.cond_ast = c18.wf_fix(cmp_, c18.LOG_LVL)
    elif t.kind == "int":
        v = rng.randint(1, 9)
        t.lines.append("%s int = %d" % (name, v))
        t.final = v
        for _ in range(rng.choice([0, 0, 1, 2])):
            v = rng.randint(1, 9)
            t.mods.append("%s = %d" % (name, v))
            t.final = v
        if rng.random() < 0.6:
            opts = sorted({rng.randint(1, 9) for _ in range(rng.randint(1, 4))})
            if rng.random() < 0.5:
                for o in opts:
                    t.lines.append("  = %d" % o)
            else:
                t.lines.append("  !options [%s]" % ",".join(map(str, opts)))
            t.options = [["num", float(o), None] for o in opts]
        if rng.random() < 0.5:
            op = rng.choice(["eq", "ne", "le", "ge", "lt", "gt"])
            t.cond_ast = ["bin", op, ["lit", "{?}"], ["lit", rng.choice([str(t.final), str(rng.randint(1, 9)), "4.5"])]]
    elif t.kind == "str":
        words = ["ab", "cd", "ab1", "x", "Tina", "abc"]
        v = rng.choice(words)
        t.lines.append("%s str = '%s'" % (name, v))
        t.final = v
        for _ in range(rng.choice([0, 0, 1, 2])):
            v = rng.choice(words)
            t.mods.append("%s = '%s'" % (name, v))
            t.final = v
        if rng.random() < 0.5:
            opts = rng.sample(words, rng.randint(1, 3))
            if rng.random() < 0.5:
                for o in opts:
                    t.lines.append("  = %s" % o)
            else:
                t.lines.append("  !options [%s]" % ",".join('"%s"' % o for o in opts))
            t.options = [["str", o] for o in opts]
        if rng.random() < 0.5:
            t.fmt = rng.choice(["[a-z]+", "[a-z]+$", "[a-c]+[0-9]?$", "T", ".{2}$", "[A-Z][a-z]*$"])
            t.lines.append("  !format '%s'" % t.fmt)
        if rng.random() < 0.4:
            t.cond_ast = ["bin", rng.choice(["eq", "ne"]), ["lit", "{?}"], ["lit", rng.choice(words)]]
    elif t.kind == "bool":
        v = rng.random() < 0.5
        t.lines.append("%s bool = %s" % (name, "true" if v else "false"))
        t.final = v
        if rng.random() < 0.7:
            t.cond_ast = rng.choice([["lit", "{?}"], ["pre", "not", ["lit", "{?}"]],
                                     ["bin", "eq", ["lit", "{?}"], ["lit", rng.choice(["true", "false"])]]])
    else:   # array with dimension bounds
        n = rng.randint(1, 5)
        form = rng.choice(["exact", "lo", "hi", "both"])
        b = n + rng.choice([0, 0, 1, -1, 2])
        b = max(b, 1)
        if form == "exact":
            dim, t.dims = "%d" % b, [[b, b]]
        elif form == "lo":
            dim, t.dims = "%d:" % b, [[b, None]]
        elif form == "hi":
            dim, t.dims = ":%d" % b, [[None, b]]
        else:
            lo = max(b - rng.randint(0, 2), 1)
            dim, t.dims = "%d:%d" % (lo, b), [[lo, b]]
        vals = [float(rng.randint(1, 9)) for _ in range(n)]
        t.lines.append("%s float[%s] = [%s] m" % (name, dim, ",".join(fnum(x) for x in vals)))
        t.shape = [n]
        t.final = vals
        t.unit = "m"
        lo_, hi_ = t.dims[0]
        within = (lo_ is None or lo_ <= n) and (hi_ is None or n <= hi_)
        if within and rng.random() < 0.5:   # bounds are enforced on every assignment (see ASSUMPTIONS)
            n2 = max(1, n + rng.choice([0, 1, -1]))
            vals = [float(rng.randint(1, 9)) for _ in range(n2)]
            t.mods.append("%s = [%s] m" % (name, ",".join(fnum(x) for x in vals)))
            t.shape = [n2]
            t.final = vals
    return t


def final_value_json(t):
    if t.final is None:
        return None
    if t.kind in ("float", "int"):
        return ["num", float(t.final), t.unit]
    if t.kind == "str":
        return ["str", t.final]
    return ["other"]


def correspond(ctx: Ctx):
    from scinumtools.dip import DIP
    from scinumtools.dip.settings import Format
    thorough = ctx.tier == "thorough"
    rng = ctx.rng
    tabs = c18.capture_tables()
    drv18 = core.Driver("C18")
    count = 5000 if thorough else 600
    cases = []
    for i in range(count):
        custom = rng.random() < 0.3
        ctxt = ["$unit x = 2 m"] if custom else []
        ctxt += ["k float = 3 m", "n int = 4", "w str = 'ab'"][:rng.randint(1, 3)]
        units = LUNITS + (["[x]"] if custom else [])
        kmap = {"m": 1.0, "cm": 0.01, "km": 1000.0, "mm": 0.001, "[x]": 2.0}
        targets = [gen_target(rng, "q", kmap, custom)]
        if rng.random() < 0.3:
            targets.append(gen_target(rng, "r", kmap, custom))
        cases.append((custom, ctxt, targets))
    # round 1: conditions through the C18 model/spec with {?} bound to the target
    unit_rows_cache = {}

    def unit_rows(custom):
        if custom not in unit_rows_cache:
            with DIP() as d:
                d.add_string("$unit x = 2 m\na float = 1 m" if custom else "a float = 1 m")
                env = d.parse()
            unit_rows_cache[custom] = c18.unit_table(env, LUNITS + (["[x]"] if custom else []))
        return unit_rows_cache[custom]
    reqs, where = [], []
    for ci, (custom, ctxt, targets) in enumerate(cases):
        for t in targets:
            if t.cond_ast is None:
                continue
            nodes = [["k", "float", 3.0, "m"], ["n", "int", 4, None], ["w", "str", "ab", None]]
            if t.final is not None:
                kind = {"float": "float", "int": "int", "str": "str", "bool": "bool"}[t.kind]
                nodes.append([t.name, kind, t.final, t.unit])
            reqs.append({"p": "C18", "k": "log", "table": tabs["log"]["table"], "steps": tabs["log"]["steps"],
                         "units": unit_rows(custom), "nodes": nodes, "autoref": t.name, "ast": t.cond_ast, "blanks": []})
            where.append(t)
    res = drv18.ask_many(reqs)
    for t, r in zip(where, res):
        if "ok" not in r:
            ctx.disagreement("cond", {"ast": t.cond_ast}, "C18 driver error %s" % r)
            t.cond = None
            t.cond_text = "true"
            t.cond_model = t.cond_spec = True
            continue
        t.cond_text = r["ok"]["text"]
        t.cond_model = r["ok"]["model"]
        t.cond_spec = r["ok"]["spec"]

    # real parse + round 2
    reqs, meta = [], []
    for custom, ctxt, targets in cases:
        lines = list(ctxt)
        for t in targets:
            for ln in t.lines:
                lines.append(ln)
            if t.cond_ast is not None:
                lines.append("  !condition (\"%s\")" % t.cond_text)
        for t in targets:
            lines += t.mods
        text = "\n".join(lines)
        try:
            with warnings.catch_warnings():
                warnings.simplefilter("ignore")
                with DIP() as d:
                    d.add_string(text)
                    env = d.parse()
                data = env.data(format=Format.TUPLE)
            imp = True
        except Exception as e:
            imp, data = False, repr(e)[:200]
        judged = True
        nodes = []
        for t in targets:
            nd = {"declared": t.declared, "value": final_value_json(t), "unit": t.unit,
                  "selectable": t.kind in ("float", "int", "str"), "options": t.options,
                  "isStr": t.kind == "str", "dims": t.dims, "shape": t.shape}
            if t.cond_ast is not None and t.final is not None:
                if t.cond_model == "outside":
                    judged = False
                nd["cond"] = t.cond_model if isinstance(t.cond_model, bool) else "err"
                nd["cond_spec"] = t.cond_spec if isinstance(t.cond_spec, bool) else ("unknown" if t.cond_spec == "unknown" else False)
                if t.cond_spec == "err":
                    nd["cond_spec"] = False
            if t.fmt is not None and t.final is not None:
                nd["fmt"] = re.match(t.fmt, t.final) is not None
            nodes.append(nd)
        reqs.append({"p": "C16", "k": "env", "units": unit_rows(custom), "nodes": nodes})
        meta.append((text, targets, imp, data, judged))
    res = ctx.driver.ask_many(reqs)
    for (text, targets, imp, data, judged), r in zip(meta, res):
        kinds = set()
        for t in targets:
            if t.options:
                kinds.add("options")
            if t.cond_ast is not None:
                kinds.add("condition")
            if t.fmt is not None:
                kinds.add("format")
            if t.dims:
                kinds.add("dims")
            if t.declared:
                kinds.add("declared")
            if t.mods:
                kinds.add("mods")
            ctx.count("node." + t.kind)
        for k in kinds:
            ctx.count("constraint." + k)
        ctx.count("impl.accepted" if imp else "impl.rejected")
        ctx.case([text], len(kinds) >= 2 or " cm" in text or "[x]" in text, {"text": text, "accepted": imp})
        replay = {"stream": "parse", "text": text, "impl_accepts": imp, "impl_data": str(data)[:300]}
        if "ok" not in r:
            ctx.disagreement("parse", replay, "driver error %s" % r)
            continue
        model, spec = r["ok"]["model"], r["ok"]["spec"]
        replay.update({"model": model, "spec": spec})
        if spec == "unknown" or not judged:
            ctx.count("not_judged")
            continue
        if imp != spec:
            kind = "+".join(sorted(kinds - {"mods"})) or "plain"
            sig = ("accepts-violating:" if imp else "rejects-satisfying:") + kind
            ctx.violation(sig, "DIP.parse %s a text whose final values %s the attached constraints: %s" %
                          ("accepts" if imp else "rejects", "violate" if imp else "satisfy", text.replace("\n", " / ")[:300]), replay)
            continue
        if imp != model:
            ctx.disagreement("parse", replay, "impl accepts=%s model=%s" % (imp, model))
            continue
        if imp:
            # soundness oracle on the returned data: the values judged are the values returned
            for t in targets:
                got = data.get(t.name)
                if t.kind == "float":
                    ok = isinstance(got, tuple) and c18.close(got[0], t.final, None) and got[1] == t.unit
                elif t.kind == "int":
                    ok = got == t.final
                elif t.kind == "str":
                    ok = got == t.final
                elif t.kind == "bool":
                    ok = got == t.final
                else:
                    ok = isinstance(got, tuple) and list(got[0]) == t.final
                if not ok:
                    ctx.violation("returned-value:" + t.kind, "accepted environment returns %r for %s, the constraints were judged on the final value %r: %s" %
                                  (got, t.name, t.final, text.replace("\n", " / ")[:300]), replay)
                    break
