"""C16 — constraints enforced by DIP.parse: correspondence (impl vs Lean model of the validation loop) and
oracle (impl vs the Lean specification `holds`, evaluated independently on the final values)."""
import copy
import os
import re
import shutil
import tempfile
import warnings

from harness import core
from harness.core import Ctx
from harness.props import c18

RULE = ("DIP texts with 4 context nodes and 1-2 constrained nodes (float with unit, int with and without unit, str incl. the empty text and "
        "none, bool, float/int/str/bool arrays of declared rank 1-2 (also declared only, also fed by a sliced scalar text), nodes whose value is delivered by a registered function as python scalar/list, numpy "
        "value or typed DIP value in another unit) carrying a random subset of {options per line, options list, !condition, !format, dimension bounds, declaration "
        "only}; values on / within 0.4e-6 of / 3e-6 off / far off each boundary, int nodes against non-integer bounds written directly or arising "
        "from a unit conversion, node reference on either side of the comparison; conditions that use {?} two or three times against different partners (another typed "
        "node in another unit, a literal with unit, a unit-less literal); int options that are integers of a finer unit but not of the node's unit; option lists in which the same written number recurs "
        "with different units (1 s / 1 min / 1 h), the value being a later one; "
        "formats that accept / reject the empty text; options and bounds in other units of the same dimension (custom "
        "$units included); array values of lower, equal and higher rank than declared, given in the definition, a modification or a sliced "
        "reference; the constrained node is defined in place, or in a group and imported from a local path ({?defs.*}, {?defs.q}) or from a remote "
        "$source file ({src?defs.*}), and then modified 0-3 times (also in other units; array nodes also by modifications that repeat the datatype with a dimension text of "
        "their own - none, wider, narrower - that the value fits: the bounds of the definition decide); a group of bare declarations imported and assigned afterwards - or never (original and copy); property lines interleaved with a @case "
        "clause nested under the node at their indent (selected or not, closed by indentation, further property lines after it); conditions "
        "joining 2-4 sub-conditions with || and && in every tree shape and truth pattern (also on bool and str nodes); a fifth of the cases are STAGED parses (DIP(env) continues on the returned environment, 2-3 "
        "stages) whose later stages modify the node, the node its !condition refers to ({?} < {?k}) or an unrelated node, judged after every stage; "
        "a further quarter of the volume are float/int nodes with a !condition of the shape `{?} <op> literal [unit]` (6 operators; literal without unit, in the node's unit, "
        "another unit, another dimension; final value on / 3e-7 inside / 5e-6 outside / far from the converted literal, reached by 0-2 modifications) whose value is computed by the C16 model itself "
        "(condNum on the final value, in doubles) and judged by an independent verdict of the generator; "
        "real DIP.parse accepts or raises; the values every node "
        "ends with are computed independently by the generator and the Lean specification `holds` decides them; on acceptance the returned "
        "env.data() is re-checked against those values. non-trivial = >=2 constraint kinds on one node, or an option/condition in another unit, "
        "or a modification, or an import; distinct = the text")
ASSUMPTIONS = [
    "options are written in units of the node's dimension (an inconvertible option is refused when it is registered); options of int nodes "
    "are integers in the unit they are written in (not necessarily in the node's unit)",
    "a node without value (none) is judged violated as soon as it carries options or a format; none together with a !condition is not generated "
    "(the code compares None with == / != instead of refusing)",
    "a node without declared dimensions takes scalar values only; a function delivering an array to a scalar node returns at least 2 elements "
    "(numpy converts a 1-element array to a scalar)",
    "tolerance verdicts are judged only when robust (10% away from the boundary 1e-8 + 1e-6*|b|)",
    "!condition expressions come from the C18 logical grammar with {?} bound to the node; their value is computed by the C18 model/specification - "
    "except in the simple-cond stream, where the C16 model computes `{?} <op> literal [unit]` from the final value (condNum); strict comparisons are "
    "judged exactly on the boundary only when the double the code holds for the converted literal is the one the formula b*k_lit/k_node gives",
    "re.match is a parameter: its verdict on the final value is computed by the harness and handed to model and specification",
    "int nodes are modified in their own unit (int casting of converted values is C14)",
    "the value a modification in another unit leaves in a node is computed with the units layer itself (Quantity.value, property C04), so the "
    "judged double is the one the code holds; the parsers of one staged history are kept alive (DIP names its sources after id(self))",
    "dimension bounds are enforced by cast_value on every assignment, not only on the final one: an array whose first value breaks the bounds "
    "is not modified afterwards in the generated texts (the code rejects it at once; judged here on the value that was rejected)",
    "an imported node and the node it was copied from are both nodes of an environment (the remote source is parsed and validated on its own): "
    "both must satisfy the constraints with the value they end with",
]
EXPLANATION = ("theorems: the validation loop accepts a node list iff every node satisfies holds (soundness and completeness, by induction over the "
               "node list, for all values/options/units, with conversion, isclose, condition value and re.match as parameters); "
               "cast_value's dimension test iff the value has every declared axis and every declared bound holds; options compared after "
               "conversion to the node's unit; the !condition `{?} <op> literal [unit]` as a model function of the final value with its exact acceptance "
               "set over an ordered field (strict operators reject the boundary, tolerant ones accept it, monotone in the value)")

LUNITS = ["m", "cm", "km", "mm"]
CONTEXT = ["k float = 3 m", "n int = 4", "w str = 'ab'", "j int = 2 m", "tt bool = true", "ff bool = false"]
CONTEXT_ROWS = [["k", "float", 3.0, "m"], ["n", "int", 4, None], ["w", "str", "ab", None], ["j", "int", 2, "m"],
                ["tt", "bool", True, None], ["ff", "bool", False, None]]
KMAP = {"m": 1.0, "cm": 0.01, "km": 1000.0, "mm": 0.001, "[x]": 2.0}
WORDS = ["ab", "cd", "ab1", "x", "Tina", "abc", ""]
FORMATS = ["[a-z]+", "[a-z]+$", "[a-c]+[0-9]?$", "T", ".{2}$", "[A-Z][a-z]*$", "[a-zA-Z0-9]+$", "^[a-z]*$", "^[a-zA-Z_-]+$", "[a-z]*[0-9]*$"]


def sq(w):
    """a string literal of DIP text (None = the keyword none)"""
    return "none" if w is None else "'%s'" % w


def gen_tables(ctx):
    # the condition stream uses the C18 model driver
    ok, out, failing = core.lake_build(["drv_c18"])
    if not ok:
        raise RuntimeError("drv_c18 does not build: %s" % failing)
    return []


def conv_real(v, src, dst):
    """The value a modification `= v src` leaves in a node of unit dst: NumberType.convert, i.e. the units layer itself
    (property C04) - the judged value must be the same double the code holds, not one rounded differently."""
    if src == dst:
        return float(v)
    from scinumtools.units import Quantity, UnitEnvironment
    with UnitEnvironment({"[x]": {"magnitude": 2.0, "dimensions": [1, 0, 0, 0, 0, 0, 0, 0]}}):
        r = float(Quantity(float(v), src).value(dst))
    assert abs(r - v * KMAP[src] / KMAP[dst]) <= 1e-9 * abs(r) + 1e-300
    return r


def mod_line(fullname, m):
    """a modification line: untyped `name = value`, or repeating the datatype `name type[dims] = value`"""
    if m.startswith("@T:"):
        typ, rhs = m[3:].split("|", 1)
        return "%s %s = %s" % (fullname, typ, rhs)
    return "%s = %s" % (fullname, m)


def fnum(x):
    return repr(float(x))


class Target:
    pass


def nested(rng, shape, et):
    """nested list of the given shape; et: True/'int', False/'float', 'str', 'bool'"""
    if et is True:
        et = "int"
    if et is False:
        et = "float"
    if not shape:
        if et == "int":
            return rng.randint(0, 9)
        if et == "float":
            return float(rng.randint(0, 9))
        if et == "str":
            return rng.choice(["a", "b", "John", "xy"])
        return rng.random() < 0.5
    return [nested(rng, shape[1:], et) for _ in range(shape[0])]


def lit_list(v):
    if isinstance(v, list):
        return "[" + ",".join(lit_list(x) for x in v) + "]"
    if isinstance(v, bool):
        return "true" if v else "false"
    if isinstance(v, str):
        return '"%s"' % v
    return repr(v)


def lit_value(v):
    """right-hand side of a definition / modification: scalars of a text are written bare"""
    return v if isinstance(v, str) else lit_list(v)


def cond_wrap(rng, cmp_):
    r = rng.random()
    if r < 0.2:
        return ["pre", "not", cmp_]
    if r < 0.4:
        return ["bin", rng.choice(["and", "or"]), cmp_, ["bin", "gt", ["lit", "{?}"], ["lit", "0"]]]
    return cmp_


def multi_cond(rng, ref, unit, units, partner_node):
    """A condition that uses the own value {?} two or three times against different partners: another typed node (other
    unit), a literal with unit, a unit-less literal (read in the node's own unit)."""
    parts = []
    if partner_node and rng.random() < 0.75:
        kinds = ["node"] + rng.sample(["lit-plain", "lit-plain", "lit-unit"], rng.choice([1, 2]))
        if rng.random() < 0.3:
            rng.shuffle(kinds)
    else:
        kinds = rng.sample(["lit-unit", "lit-plain", "lit-plain"], rng.choice([2, 3]))
    for kind in kinds:
        op = rng.choice(["lt", "gt", "le", "ge"])
        if kind == "node":
            b = ["lit", "{?%s}" % partner_node]
        elif kind == "lit-unit" and unit:
            u2 = rng.choice(units)
            b = ["lit", fnum(ref * KMAP[unit] / KMAP[u2] * rng.choice([1.5, 0.75, 1 + 3e-6, 1 - 3e-6, 1])) + " " + u2]
        else:
            # a unit-less bound is read in the node's own unit: anywhere between a thousandth and a thousand times the value
            b = ["lit", fnum(ref * rng.choice([1.5, 0.75, 0.5, 2.0, 30.0, 0.03, 1 + 3e-6, 1 - 3e-6]))]
        a = ["lit", "{?}"]
        if rng.random() < 0.25:
            a, b = b, a
        parts.append(["bin", op, a, b])
    return c18.wf_fix(join_logic(rng, parts), c18.LOG_LVL)


def join_logic(rng, parts):
    """Join sub-conditions with && and || in a random tree shape: a || b && c, a && b || c, (a || b) && c, ..."""
    parts = list(parts)
    while len(parts) > 1:
        i = rng.randrange(len(parts) - 1)
        parts[i:i + 2] = [["bin", rng.choice(["and", "or"]), parts[i], parts[i + 1]]]
    return parts[0]


def mix_bool_cond(rng, imported):
    """|| and && over the own truth value and other booleans, every truth pattern"""
    atoms = [["lit", "{?}"], ["pre", "not", ["lit", "{?}"]], ["lit", "true"], ["lit", "false"]]
    if not imported:
        atoms += [["lit", "{?tt}"], ["lit", "{?ff}"], ["pre", "not", ["lit", "{?ff}"]]]
    return c18.wf_fix(join_logic(rng, [rng.choice(atoms) for _ in range(rng.choice([2, 3, 3, 4]))]), c18.LOG_LVL)


def gen_target(rng, name, custom, imported):
    """A constrained node: definition + property lines, modifications, the value it starts with (`initial`) and ends with (`final`).
    Constraints are built around the final value, for imported nodes around the initial one (the source must be valid on its own)."""
    t = Target()
    t.name = name
    t.kind = rng.choice(["float", "float", "int", "int", "str", "str", "bool", "array", "array"] + ([] if imported else ["fn", "fn"]))
    t.fn = None
    t.decl = t.rhs0 = None
    t.lines, t.mods = [], []          # mods: right-hand sides "<value> <unit>"
    t.mod_vals, t.mod_shapes = [], []  # the value / shape the node has after each modification
    t.options, t.cond_ast, t.fmt, t.dims = [], None, None, []
    t.declared = False
    t.unit = None
    t.extra_ctx = []
    t.shape0 = t.shape = []
    units = LUNITS + (["[x]"] if custom else [])
    delta = lambda: rng.choice([0, 0, 4e-7, -4e-7, 3e-6, -3e-6, 0.5, -0.25])
    if t.kind == "float":
        t.unit = rng.choice(units)
        v = float(rng.choice(c18.NUMS))
        t.declared = (not imported) and rng.random() < 0.2
        t.lines.append("%s float %s" % (name, t.unit) if t.declared else "%s float = %s %s" % (name, fnum(v), t.unit))
        t.decl, t.rhs0 = "%s float %s" % (name, t.unit), "%s %s" % (fnum(v), t.unit)
        t.initial = t.final = None if t.declared else v
        nm = rng.choice([0, 1, 1, 2]) if (t.declared or imported) else rng.choice([0, 0, 1, 2, 3])
        for _ in range(nm):
            u2 = rng.choice(units)
            if imported:
                mv = v * KMAP[t.unit] / KMAP[u2] * (1 + delta())
            else:
                mv = float(rng.choice(c18.NUMS))
            t.mods.append("%s %s" % (fnum(mv), u2))
            t.final = conv_real(mv, u2, t.unit)
            t.mod_vals.append(t.final)
        # a class of its own: options in which the same written number recurs with different units (1 s / 1 min / 1 h);
        # the value is mostly one of the later ones
        same_num = (not imported) and rng.random() < 0.12
        if same_num:
            N = rng.choice(c18.NUMS)
            ous = rng.sample(units, rng.choice([2, 3]))
            uj = ous[rng.randrange(1, len(ous))] if rng.random() < 0.8 else rng.choice(units)
            t.mods.append("%s %s" % (N, uj))
            t.final = conv_real(float(N), uj, t.unit)
            t.mod_vals.append(t.final)
            form = rng.random() < 0.5
            for u in ous:
                t.lines.append(("  = %s %s" if form else "  !options [%s] %s") % (N, u))
                t.options.append(["num", float(N), u])
        ref = t.initial if imported else (t.final if t.final is not None else 1.0)
        # a class of its own: the only constraint is an == / != whose operand equals the value within the tolerance
        # but not exactly (another unit, or 4e-7 beside it)
        tol_case = (not imported) and t.final is not None and rng.random() < 0.2
        if rng.random() < 0.55 and not tol_case and not same_num:
            n = rng.randint(1, 3)
            hit = rng.random() < (0.9 if imported else 0.7)
            vals = []
            for i in range(n):
                u2 = rng.choice(units)
                d = (rng.choice([0, 4e-7, -4e-7]) if imported else delta()) if (hit and i == 0) else rng.choice([0.5, -0.3, 3e-6, 2.0])
                vals.append((ref * KMAP[t.unit] / KMAP[u2] * (1 + d), u2))
            rng.shuffle(vals)
            if rng.random() < 0.5:
                for ov, u2 in vals:
                    t.lines.append("  = %s %s" % (fnum(ov), u2))
                    t.options.append(["num", ov, u2])
            else:
                u2 = vals[0][1]
                vs = [ov * KMAP[u] / KMAP[u2] for ov, u in vals]
                t.lines.append("  !options [%s] %s" % (",".join(fnum(x) for x in vs), u2))
                t.options += [["num", x, u2] for x in vs]
        if rng.random() < 0.55 or tol_case:
            u2 = rng.choice(units + [None])
            d = delta()
            if tol_case:
                u2 = rng.choice(units)
                d = rng.choice([4e-7, -4e-7, 4e-7, 0])
            bound = ref * (KMAP[t.unit] / KMAP[u2] if u2 else 1.0) * (1 + d)
            if imported:     # satisfied by the initial value, decided by the modifications
                op = rng.choice(["le", "ge", "eq"]) if abs(d) < 1e-6 else ("lt" if d > 0 else "gt")
            else:
                # == and != are decided by the tolerance: more of them when the bound is (nearly) the value
                op = rng.choice(["eq", "ne", "ne", "le", "ge", "lt", "gt"] + (["ne", "ne", "eq"] if abs(d) < 1e-6 else []))
                if tol_case:
                    op = rng.choice(["ne", "ne", "eq"])
            a, b = ["lit", "{?}"], ["lit", fnum(bound) + (" " + u2 if u2 else "")]
            if rng.random() < 0.35:
                a, b = b, a
                op = {"lt": "gt", "gt": "lt", "le": "ge", "ge": "le"}.get(op, op)
            t.cond_ast = c18.wf_fix(cond_wrap(rng, ["bin", op, a, b]) if not (imported or tol_case) else ["bin", op, a, b], c18.LOG_LVL)
            if not imported and not tol_case and rng.random() < 0.5:
                t.cond_ast = multi_cond(rng, ref, t.unit, units, "k")
    elif t.kind == "int":
        t.unit = rng.choice([None, None, "m", "cm", "km"] + (["[x]"] if custom else []))
        same_num = (not imported) and rng.random() < 0.12
        if same_num:
            t.unit = rng.choice(["cm", "m"])
        us = " " + t.unit if t.unit else ""
        v = rng.randint(1, 9)
        if same_num:
            ub, f = {"cm": ("m", 100), "m": ("km", 1000)}[t.unit]
            N = rng.randint(1, 5)
            v = N * f if rng.random() < 0.8 else N * f + 1
        t.lines.append("%s int = %d%s" % (name, v, us))
        t.decl, t.rhs0 = "%s int%s" % (name, us), "%d%s" % (v, us)
        t.initial = t.final = v
        if same_num:
            form = rng.random() < 0.5
            for u in (t.unit, ub):
                t.lines.append(("  = %d %s" if form else "  !options [%d] %s") % (N, u))
                t.options.append(["num", float(N), u])
        for _ in range(rng.choice([0, 0, 1, 2]) if not same_num else 0):
            v2 = max(1, v + rng.choice([0, 1, -1, 2])) if imported else rng.randint(1, 9)
            t.mods.append("%d%s" % (v2, us))
            t.final = v2
            t.mod_vals.append(v2)
        ref = t.initial if imported else t.final
        if rng.random() < 0.55 and not same_num:
            # written as integers of a finer unit: in the node's unit they may lie between the integers (90 s = 1.5 min)
            finer = [u for u in (["m", "cm", "mm"] if t.unit in ("m", "cm", "km", "[x]") else []) if t.unit and KMAP[u] <= KMAP[t.unit]]
            u2 = rng.choice(finer) if (finer and rng.random() < 0.7) else t.unit
            f = int(round(KMAP[t.unit] / KMAP[u2])) if u2 else 1
            offs = [0, 0, 1, -1, 2, 3] + ([0.5, 0.5, 0.3, -0.5, 0.9] if f >= 10 else [])
            opts = sorted({int(round(max(0.1, ref + rng.choice(offs)) * f)) for _ in range(rng.randint(1, 4))})
            u2s = " " + u2 if u2 else ""
            if rng.random() < 0.5:
                for o in opts:
                    t.lines.append("  = %d%s" % (o, u2s))
            else:
                t.lines.append("  !options [%s]%s" % (",".join(str(o) for o in opts), u2s))
            t.options = [["num", float(o), u2] for o in opts]
        if rng.random() < 0.7:
            # bounds between the integers: written directly or arising from a unit conversion
            off = rng.choice([0, 0.5, -0.5, 0.3, -0.3, 0.7, -0.7, 1, -1, 0.999999, 4e-7])
            u2 = rng.choice([t.unit, t.unit] + (LUNITS if t.unit else []))
            bound = (ref + off) * ((KMAP[t.unit] / KMAP[u2]) if (t.unit and u2) else 1.0)
            btxt = (str(int(round(bound))) if abs(bound - round(bound)) < 1e-12 * max(1, abs(bound)) and rng.random() < 0.7 else fnum(bound))
            if imported:
                op = rng.choice(["le", "ge", "eq"]) if off == 0 else ("lt" if off > 0 else "gt")
            else:
                op = rng.choice(["eq", "ne", "le", "ge", "lt", "gt"])
            a, b = ["lit", "{?}"], ["lit", btxt + (" " + u2 if u2 else "")]
            if rng.random() < 0.4:
                a, b = b, a
                op = {"lt": "gt", "gt": "lt", "le": "ge", "ge": "le"}.get(op, op)
            cmp_ = ["bin", op, a, b]
            if not imported and rng.random() < 0.3:
                off2 = rng.choice([0.5, -0.5, 1.5, -1.5])
                cmp_ = ["bin", rng.choice(["and", "or"]), cmp_,
                        ["bin", "lt" if off2 > 0 else "gt", ["lit", "{?}"], ["lit", fnum(ref + off2) + us]]]
            t.cond_ast = c18.wf_fix(cmp_, c18.LOG_LVL)
            if not imported and rng.random() < 0.3:
                t.cond_ast = multi_cond(rng, ref, t.unit, [u for u in LUNITS if t.unit], "j" if t.unit else "n")
    elif t.kind == "str":
        v = rng.choice(WORDS)
        how = rng.random()
        if how < 0.12 and not imported:
            # the value arrives by injection from another node
            t.extra_ctx.append("label_%s str = %s" % (name, sq(v)))
            t.lines.append("%s str = {?label_%s}" % (name, name))
        elif how < 0.2 and not imported:
            v = None
            t.lines.append("%s str = none" % name)
        else:
            t.lines.append("%s str = %s" % (name, sq(v)))
            t.decl, t.rhs0 = "%s str" % name, sq(v)
        t.initial = t.final = v
        for _ in range(rng.choice([0, 0, 1, 2])):
            v2 = rng.choice(WORDS + ([None] if not imported else []))
            t.mods.append(sq(v2))
            t.final = v2
            t.mod_vals.append(v2)
        ref = t.initial if imported else t.final
        if rng.random() < 0.5:
            opts = rng.sample([w for w in WORDS if w], rng.randint(1, 3))
            if imported and ref and ref not in opts:
                opts.append(ref)
            if rng.random() < 0.5:
                for o in opts:
                    t.lines.append("  = %s" % o)
            else:
                t.lines.append("  !options [%s]" % ",".join('"%s"' % o for o in opts))
            t.options = [["str", o] for o in opts]
        if rng.random() < 0.6:
            t.fmt = rng.choice(FORMATS)
            t.lines.append("  !format '%s'" % t.fmt)
        if rng.random() < 0.4 and t.final is not None and t.initial is not None:
            w = ref if ((imported or rng.random() < 0.4) and ref) else rng.choice([w for w in WORDS if w])
            a, b = ["lit", "{?}"], ["lit", w]
            if rng.random() < 0.3:
                a, b = b, a
            t.cond_ast = ["bin", "eq" if imported else rng.choice(["eq", "ne"]), a, b]
            if not imported and rng.random() < 0.4:
                more = [["bin", rng.choice(["eq", "ne"]), ["lit", "{?}"], ["lit", rng.choice([x for x in WORDS if x])]] for _ in range(2)]
                t.cond_ast = c18.wf_fix(join_logic(rng, [t.cond_ast] + more), c18.LOG_LVL)
    elif t.kind == "bool":
        v = rng.random() < 0.5
        t.lines.append("%s bool = %s" % (name, "true" if v else "false"))
        t.decl, t.rhs0 = "%s bool" % name, "true" if v else "false"
        t.initial = t.final = v
        if rng.random() < 0.5:
            v2 = rng.random() < 0.5
            t.mods.append("true" if v2 else "false")
            t.final = v2
            t.mod_vals.append(v2)
        if rng.random() < 0.7:
            if imported:
                t.cond_ast = ["lit", "{?}"] if v else ["pre", "not", ["lit", "{?}"]]
            elif rng.random() < 0.6:
                t.cond_ast = mix_bool_cond(rng, imported)
            else:
                t.cond_ast = rng.choice([["lit", "{?}"], ["pre", "not", ["lit", "{?}"]],
                                         ["bin", "eq", ["lit", "{?}"], ["lit", rng.choice(["true", "false"])]]])
    elif t.kind == "fn":
        # the value is delivered by a registered function: python scalar / list, numpy, or a typed DIP value (other unit)
        import numpy as np
        from scinumtools.dip.datatypes import FloatType, IntegerType
        as_int = rng.random() < 0.4
        rank = rng.choice([0, 1, 1, 2])
        t.unit = None if as_int else "m"
        ext = [rng.randint(1, 3) for _ in range(rank)]
        txt = []
        for n in ext:
            form = rng.choice(["exact", "exact", "lo", "hi", "both"])
            b = max(n + rng.choice([0, 0, 0, 1, -1]), 1)
            lo, hi = {"exact": (b, b), "lo": (b, None), "hi": (None, b), "both": (max(b - 1, 1), b)}[form]
            txt.append("%d" % b if form == "exact" else "%s:%s" % ("" if lo is None else lo, "" if hi is None else hi))
            t.dims.append([lo, hi])
        r = rng.random()
        if r < 0.55:
            shape = list(ext)
        elif r < 0.7:
            shape = list(ext[:max(rank - 1, 0)]) if rank else [rng.randint(2, 3)]    # lower rank / an array for a scalar node
        elif r < 0.8:
            shape = (list(ext) + [rng.randint(1, 2)]) if rank else [rng.randint(2, 3), 2]
        elif r < 0.9 and rank:
            shape = [0]            # an empty list has one axis of extent 0, whatever was declared
        else:
            shape = [max(1, n + rng.choice([1, -1])) for n in ext]
        val = nested(rng, shape, as_int)
        if rng.random() < 0.2:
            val = 0 if (not shape and as_int) else (0.0 if not shape else val)
        form = rng.choice(["plain", "numpy", "typed"])
        expected = val
        if form == "plain":
            result = val
        elif form == "numpy":
            result = np.array(val, dtype=int if as_int else float) if shape else (np.int64(val) if as_int else np.float64(val))
        elif as_int:
            result = IntegerType(val)
        else:
            u2 = rng.choice(["m", "cm", "km"])
            result = FloatType(val, u2)

            def conv(x):
                return [conv(y) for y in x] if isinstance(x, list) else x * KMAP[u2] / KMAP["m"]
            expected = conv(val)
        t.fn = ("f_" + name, result)
        t.lines.append("%s %s%s = (f_%s)%s" % (name, "int" if as_int else "float", "[%s]" % ",".join(txt) if rank else "",
                                                name, " m" if t.unit else ""))
        t.initial = t.final = expected
        t.shape0 = t.shape = list(shape)
        t.kind = "array"
    else:   # array with dimension bounds: declared rank 1-2, value rank 0-3, elements float / int / str / bool
        et = rng.choice(["float", "float", "int", "str", "str", "bool"])
        as_int = et == "int"
        rank = rng.choice([1, 1, 2])
        t.unit = "m" if et == "float" else None
        us = " m" if t.unit else ""

        def bounds(n):
            form = rng.choice(["exact", "exact", "lo", "hi", "both"])
            b = max(n + rng.choice([0, 0, 0, 1, -1, 2]), 1)
            if form == "exact":
                return "%d" % b, [b, b]
            if form == "lo":
                return "%d:" % b, [b, None]
            if form == "hi":
                return ":%d" % b, [None, b]
            lo = max(b - rng.randint(0, 2), 1)
            return "%d:%d" % (lo, b), [lo, b]

        def within(shape):
            if len(shape) < len(t.dims):
                return False
            return all((lo is None or lo <= s) and (hi is None or s <= hi) for (lo, hi), s in zip(t.dims, shape))
        ext = [rng.randint(1, 4) for _ in range(rank)]          # the extents the declaration is written around
        txt = []
        for n in ext:
            a, b = bounds(n)
            txt.append(a)
            t.dims.append(b)

        def value_shape():
            r = rng.random()
            if r < 0.55:
                return list(ext)
            if r < 0.8:
                return list(ext[:rank - 1])                      # lower rank (a scalar for rank 1)
            if r < 0.9:
                return list(ext) + [rng.randint(1, 2)]           # higher rank
            return [max(1, n + rng.choice([1, -1])) for n in ext]
        shape = value_shape()
        how = rng.random()
        declared_only = how > 0.85 and not imported
        if declared_only:
            # declaration, the first value arrives by a modification
            t.declared = True
            t.lines.append("%s %s[%s]%s" % (name, et, ",".join(txt), us))
            t.initial = t.final = None
            t.shape0 = t.shape = []
        elif how < 0.2 and shape and et == "float":
            # sliced reference to a larger array: some axes indexed (dropped), others ranged
            src_shape = [n + 1 for n in shape] + ([2] if rng.random() < 0.5 else [])
            src = nested(rng, src_shape, "float")
            parts = [":%d" % n for n in shape]
            if len(src_shape) > len(shape):
                parts.append("0")
            import numpy as np
            arr = np.array(src)[tuple([slice(0, n) for n in shape] + ([0] if len(src_shape) > len(shape) else []))]
            t.extra_ctx.append("srcarr_%s float[%s] = %s m" % (name, ",".join(str(n) for n in src_shape), lit_list(src)))
            t.lines.append("%s float[%s] = {?srcarr_%s}[%s]" % (name, ",".join(txt), name, ",".join(parts)))
            t.initial = t.final = arr.tolist()
            t.shape0 = t.shape = list(shape)
        elif how < 0.3 and et == "str" and rank == 1:
            # sliced reference to a scalar text: the slice of a text is a text, not an array
            t.extra_ctx.append("srctext_%s str = abcdef" % name)
            t.lines.append("%s str[%s] = {?srctext_%s}[0:3]" % (name, ",".join(txt), name))
            t.initial = t.final = "abc"
            t.shape0 = t.shape = shape = []
        else:
            val = nested(rng, shape, et)
            t.lines.append("%s %s[%s] = %s%s" % (name, et, ",".join(txt), lit_value(val), us))
            t.initial = t.final = val
            t.shape0 = t.shape = list(shape)
        if declared_only or (within(shape) and rng.random() < 0.5):   # bounds are enforced on every assignment (see ASSUMPTIONS)
            shape2 = value_shape()
            val2 = nested(rng, shape2, et)
            rhs = "%s%s" % (lit_value(val2), us)
            if rng.random() < 0.45:
                # a modification that repeats the datatype, with a dimension text of its own (none, wider, narrower than the
                # definition's) that the value fits: the bounds of the DEFINITION decide
                def own(n):
                    return rng.choice([":", "%d" % n, "%d:" % max(n - rng.randint(0, 1), 0), ":%d" % (n + rng.randint(0, 2)),
                                       "%d:%d" % (max(n - 1, 0), n + 1)])
                typ = et + ("[%s]" % ",".join(own(n) for n in shape2) if shape2 else "")
                rhs = "@T:%s|%s" % (typ, rhs)
            t.mods.append(rhs)
            t.shape = list(shape2)
            t.final = val2
            t.mod_vals.append(val2)
            t.mod_shapes.append(list(shape2))
    interleave_case(rng, t, imported)
    return t


def interleave_case(rng, t, imported):
    """A @case clause nested under the node at the indent of its property lines, closed by indentation and followed by
    further property lines: a selected clause contributes its lines, an unselected one nothing, and the lines after it
    belong to the node whatever the clause selects."""
    if rng.random() > 0.3 or len(t.lines) < 1 or t.fn or t.extra_ctx:
        return
    cond = rng.choice(["false", "false", "true"] + ([] if imported else ["{?tt}", "{?ff}"]))
    selected = cond in ("true", "{?tt}")
    kind = t.kind
    ref = t.final if t.final is not None else t.initial
    if kind == "float" and ref is not None:
        extra, opt = "= %s %s" % (fnum(ref * 3), t.unit), ["num", ref * 3, t.unit]
    elif kind == "int" and ref is not None:
        extra, opt = "= %d%s" % (ref + 7, " " + t.unit if t.unit else ""), ["num", float(ref + 7), t.unit]
    elif kind == "str":
        extra, opt = "= zzz", ["str", "zzz"]
    else:
        extra, opt = '!description "only in extended mode"', None
    pos = rng.randint(1, len(t.lines))
    t.lines[pos:pos] = ["  @case %s" % cond, "    " + extra]
    if selected and opt is not None:
        t.options = t.options + [opt]


def deep_close(a, b):
    if isinstance(a, (list, tuple)) or isinstance(b, (list, tuple)):
        return isinstance(a, (list, tuple)) and isinstance(b, (list, tuple)) and len(a) == len(b) and all(deep_close(x, y) for x, y in zip(a, b))
    return c18.close(a, b, None)


def value_json(t, v):
    if v is None:
        return None
    if t.kind in ("float", "int"):
        return ["num", float(v), t.unit]
    if t.kind == "str":
        return ["str", v]
    return ["other"]


def correspond(ctx: Ctx):
    from scinumtools.dip import DIP
    from scinumtools.dip.settings import Format
    thorough = ctx.tier == "thorough"
    rng = ctx.rng
    tabs = c18.capture_tables()
    drv18 = core.Driver("C18")
    count = 5000 if thorough else 700
    tmpdir = tempfile.mkdtemp(prefix="c16_")
    try:
        _run(ctx, rng, tabs, drv18, count, tmpdir, DIP, Format)
    finally:
        shutil.rmtree(tmpdir, ignore_errors=True)


def staged_stream(ctx, rng, tabs, drv18, count, DIP, unit_rows):
    """Staged parses: DIP(env) continues on the environment a previous parse returned. Later stages modify the constrained
    nodes and the nodes their conditions refer to; after every stage each node of the environment must satisfy its constraints."""
    cases = []
    for _ in range(count):
        t = gen_target(rng, "q", False, True)       # constraints built around the initial value: stage 1 is mostly valid
        if t.extra_ctx or t.fn:
            continue
        vals = {"k": 3.0, "j": 2, "n": 4}
        partner = None
        if t.kind == "float" and rng.random() < 0.8:
            partner = "k"
            v_m = t.initial * KMAP[t.unit]
            vals["k"] = v_m * rng.choice([2.0, 1.5, 0.5])
            op = "lt" if vals["k"] > v_m else "gt"
            cmp_ = ["bin", op, ["lit", "{?}"], ["lit", "{?k}"]] if rng.random() < 0.7 else \
                ["bin", {"lt": "gt", "gt": "lt"}[op], ["lit", "{?k}"], ["lit", "{?}"]]
            if rng.random() < 0.4:
                cmp_ = ["bin", "and", cmp_, ["bin", "gt", ["lit", "{?}"], ["lit", "0"]]]
            t.cond_ast = c18.wf_fix(cmp_, c18.LOG_LVL)
        elif t.kind == "int" and t.unit in ("m", "cm", "km") and rng.random() < 0.8:
            partner = "j"
            v_m = t.initial * KMAP[t.unit]
            vals["j"] = max(1, int(v_m * rng.choice([2, 3]))) if v_m >= 1 else 2
            op = "lt" if vals["j"] > v_m else ("gt" if vals["j"] < v_m else "le")
            t.cond_ast = ["bin", op, ["lit", "{?}"], ["lit", "{?j}"]]
        stage1 = ["k float = %s m" % fnum(vals["k"]), "n int = 4", "w str = 'ab'", "j int = %d m" % vals["j"]] + list(t.lines)
        # later stages: modifications of the node, of the node its condition refers to, of an unrelated node
        nstages = rng.choice([2, 2, 3])
        plan = [[] for _ in range(nstages - 1)]
        for i, m in enumerate(t.mods):
            plan[rng.randrange(len(plan)) if i == 0 else min(len(plan) - 1, rng.randrange(len(plan)))].append(("q", i))
        # keep the order of the node's own modifications
        qs = sorted(i for st in plan for (w, i) in st if w == "q")
        it = iter(qs)
        plan = [[("q", next(it)) for _ in st] for st in plan]
        for st in plan:
            r = rng.random()
            if partner and r < 0.7:
                ref = (t.initial if not t.mod_vals else rng.choice([t.initial] + t.mod_vals)) * KMAP[t.unit]
                if partner == "k":
                    st.insert(rng.randrange(len(st) + 1), ("k", ref * rng.choice([2.0, 0.5, 1.5, 0.75, 1 + 3e-6, 1 - 3e-6])))
                else:
                    st.insert(rng.randrange(len(st) + 1), ("j", max(1, int(round(ref + rng.choice([1, -1, 2, 0]))))))
            elif r < 0.85:
                st.append(("n", rng.randint(1, 9)))
        cases.append((t, vals, stage1, plan, partner))

    # states after every stage
    reqs, where = [], []
    for t, vals, stage1, plan, partner in cases:
        t.states = []
        cur = dict(vals)
        qv, qs = t.initial, t.shape0
        t.states.append((dict(cur), qv, qs))
        t.stage_texts = []
        for st in plan:
            lines = []
            for w, x in st:
                if w == "q":
                    lines.append(mod_line("q", t.mods[x]))
                    qv = t.mod_vals[x]
                    if t.mod_shapes:
                        qs = t.mod_shapes[x]
                elif w == "k":
                    cur["k"] = x
                    lines.append("k = %s m" % fnum(x))
                elif w == "j":
                    cur["j"] = x
                    lines.append("j = %d m" % x)
                else:
                    cur["n"] = x
                    lines.append("n = %d" % x)
            t.stage_texts.append("\n".join(lines))
            t.states.append((dict(cur), qv, qs))
        t.cond_res = []
        if t.cond_ast is not None:
            for cur, qv, qs in t.states:
                if qv is None:
                    t.cond_res.append(None)
                    continue
                nodes = [["k", "float", cur["k"], "m"], ["n", "int", cur["n"], None], ["w", "str", "ab", None], ["j", "int", cur["j"], "m"],
                         ["q", {"float": "float", "int": "int", "str": "str", "bool": "bool"}[t.kind], qv, t.unit]]
                reqs.append({"p": "C18", "k": "log", "table": tabs["log"]["table"], "steps": tabs["log"]["steps"],
                             "units": unit_rows(False), "nodes": nodes, "autoref": "q", "ast": t.cond_ast, "blanks": []})
                where.append((t, len(t.cond_res)))
                t.cond_res.append("pending")
    res = drv18.ask_many(reqs)
    for (t, i), r in zip(where, res):
        t.cond_res[i] = (r["ok"]["text"], r["ok"]["model"], r["ok"]["spec"]) if "ok" in r else ("true", "outside", "unknown")
    # model / specification per stage
    reqs, where = [], []
    for t, vals, stage1, plan, partner in cases:
        for i, (cur, qv, qs) in enumerate(t.states):
            nd = {"declared": t.declared, "value": value_json(t, qv), "unit": t.unit, "selectable": t.kind in ("float", "int", "str"),
                  "options": t.options, "isStr": t.kind == "str", "dims": t.dims, "shape": qs}
            if t.cond_ast is not None and qv is not None:
                _, cm, cs = t.cond_res[i]
                nd["cond"] = cm if isinstance(cm, bool) else "err"
                nd["cond_spec"] = cs if isinstance(cs, bool) else ("unknown" if cs in ("unknown",) or cm == "outside" else False)
            if t.fmt is not None:
                nd["fmt"] = (re.match(t.fmt, qv) is not None) if qv is not None else False
            reqs.append({"p": "C16", "k": "env", "units": unit_rows(False), "nodes": [nd]})
            where.append((t, i))
    res = ctx.driver.ask_many(reqs)
    for t, vals, stage1, plan, partner in cases:
        t.verdicts = [None] * len(t.states)
    for (t, i), r in zip(where, res):
        t.verdicts[i] = (r["ok"]["model"], r["ok"]["spec"]) if "ok" in r else (None, "unknown")
    # the real staged parse
    for t, vals, stage1, plan, partner in cases:
        body = list(stage1)
        if t.cond_ast is not None:
            texts = [c[0] for c in t.cond_res if c]
            if not texts:
                continue
            body.append("  !condition (\"%s\")" % texts[0])
        texts = ["\n".join(body)] + t.stage_texts
        env = None
        keep = []
        ctx.count("mode.staged")
        shown = " ==> ".join(x.replace("\n", " / ") for x in texts)
        ctx.case(["staged"] + texts, True, {"staged": shown[:200]})
        for i, text in enumerate(texts):
            model, spec = t.verdicts[i]
            try:
                with warnings.catch_warnings():
                    warnings.simplefilter("ignore")
                    d = DIP(env) if env is not None else DIP()
                    keep.append(d)      # DIP names its sources after id(self): the parsers of one history must stay alive
                    d.add_string(text)
                    env = d.parse()
                imp = True
            except Exception as e:
                imp = False
            if spec == "unknown" or model is None:
                ctx.count("not_judged")
                break
            replay = {"stream": "staged", "stages": texts[:i + 1], "stage": i + 1, "impl_accepts": imp, "model": model, "spec": spec}
            if imp != spec:
                kind = "+".join(k for k, on in (("options", t.options), ("condition", t.cond_ast is not None), ("format", t.fmt), ("dims", t.dims)) if on) or "plain"
                ctx.violation(("accepts-violating:" if imp else "rejects-satisfying:") + "staged:" + kind,
                              "stage %d of a staged parse %s although the values of the environment %s the constraints: %s" %
                              (i + 1, "is accepted" if imp else "is rejected", "violate" if imp else "satisfy", shown[:400]), replay)
                break
            if imp != model:
                ctx.disagreement("staged", replay, "impl accepts=%s model=%s" % (imp, model))
                break
            if not imp:
                break


def simple_cond_stream(ctx, rng, count, DIP):
    """Conditions of the shape `{?} <op> literal [unit]` whose value is computed BY THE C16 MODEL (condNum / withNumCond of
    Model/C16.lean, run in doubles by the driver) from the node's final value - not by the C18 driver. Final values sit on, just
    inside, just outside and far from the boundary b*k_lit/k_node, reached by 0-2 modifications (also in another unit); float and
    int nodes with and without unit; literal without unit, in the node's unit, another unit of the dimension, another dimension.
    The specification verdict is computed here, independently, from the double the code holds, with safety margins."""
    OPS = {"eq": "==", "ne": "!=", "lt": "<", "gt": ">", "le": "<=", "ge": ">="}
    with DIP() as d:
        d.add_string("a float = 1 m")
        env = d.parse()
    rows = c18.unit_table(env, LUNITS + ["s"])
    reqs, meta = [], []
    for _ in range(count):
        kind = rng.choice(["float", "float", "int"])
        unit = rng.choice(LUNITS + [None]) if kind == "float" else rng.choice(["m", "cm", "mm", None])
        op = rng.choice(sorted(OPS))
        r = rng.random()
        lunit = None if (unit is None and r < 0.7) else unit if r < 0.25 else "s" if r < 0.32 else None if r < 0.4 else rng.choice(LUNITS)
        blit = rng.choice([2.5, 1.0, 3.0, 40.0, 0.125, 7.0, -2.0, 0.0, 1e-3, 12345.0]) if kind == "float" or lunit != unit else float(rng.choice([3, 40, 7, -2, 0, 12]))
        if rng.random() < 0.3:
            blit = float(int(blit))
        lit_text = ("%d" % blit if blit == int(blit) and rng.random() < 0.5 else fnum(blit)) + (" " + lunit if lunit else "")
        convertible = not (unit and lunit and lunit != unit and lunit == "s")
        # the right operand the code compares with: the literal in the node's unit (NumberType.convert = the units layer)
        y = conv_real(blit, lunit, unit) if (unit and lunit and lunit != unit and convertible) else blit
        exact_conv = (not (unit and lunit and lunit != unit)) or (convertible and blit * KMAP[lunit] / KMAP[unit] == y)
        where = rng.choice(["on", "on", "in+", "in-", "out+", "out-", "far+", "far-"])
        f = {"on": 1.0, "in+": 1 + 3e-7, "in-": 1 - 3e-7, "out+": 1 + 5e-6, "out-": 1 - 5e-6, "far+": 2.0, "far-": 0.5}[where]
        x = y * f if y != 0 else {"on": 0.0, "in+": 3e-9, "in-": -3e-9, "out+": 5e-8, "out-": -5e-8, "far+": 1.0, "far-": -1.0}[where]
        if kind == "int":
            x = float(round(x)) if where in ("on", "far+", "far-") else float(round(x) + rng.choice([1, -1]))
            if abs(x) > 1e15:
                continue
        # the path to the final value: definition, then modifications (the last one decides)
        nmods = rng.choice([0, 1, 1, 2])
        vals = [x * rng.choice([2.0, 0.5, 1.0]) + rng.choice([0, 1]) for _ in range(nmods)] + [x]
        if kind == "int":
            vals = [float(round(v)) for v in vals]
        def vtext(v, u):
            return ("%d" % v if kind == "int" else fnum(v)) + (" " + u if u else "")
        lines = ["q %s = %s" % (kind, vtext(vals[0], unit)), "  !condition (\"{?} %s %s\")" % (OPS[op], lit_text)]
        final = vals[0]
        for v in vals[1:]:
            mu = unit
            if unit and kind == "float" and rng.random() < 0.3 and v == x and where.startswith("far"):
                mu = rng.choice([u for u in LUNITS if u != unit])
                lines.append("q = %s" % vtext(v * KMAP[unit] / KMAP[mu], mu))
                final = conv_real(v * KMAP[unit] / KMAP[mu], mu, unit)
            else:
                lines.append("q = %s" % vtext(v, unit))
                final = v
        text = "\n".join(lines)
        # independent verdict on the final value (None = too close to a boundary to judge in doubles)
        if not convertible:
            spec = False
        else:
            dlt, tol = final - y, 1e-8 + 1e-6 * abs(y)
            sure_lt = dlt < -1e-9 * max(abs(y), 1e-300)
            sure_gt = dlt > 1e-9 * max(abs(y), 1e-300)
            same = final == y and exact_conv
            close = True if abs(dlt) <= 0.9 * tol else False if abs(dlt) >= 1.1 * tol else None
            if op == "eq":
                spec = close
            elif op == "ne":
                spec = None if close is None else not close
            elif op == "lt":
                spec = True if sure_lt else False if (sure_gt or same) else None
            elif op == "gt":
                spec = True if sure_gt else False if (sure_lt or same) else None
            elif op == "le":
                spec = True if (sure_lt or close is True) else False if (sure_gt and close is False) else None
            else:
                spec = True if (sure_gt or close is True) else False if (sure_lt and close is False) else None
        nd = {"declared": False, "value": ["num", float(final), unit], "unit": unit, "selectable": True, "options": [],
              "isStr": False, "dims": [], "shape": [], "scond": [op, float(blit), lunit],
              "cond_spec": spec if isinstance(spec, bool) else "unknown"}
        reqs.append({"p": "C16", "k": "env", "units": rows, "nodes": [nd]})
        meta.append((text, op, where, kind, unit, lunit, spec))
    res = ctx.driver.ask_many(reqs)
    for (text, op, where, kind, unit, lunit, spec), r in zip(meta, res):
        try:
            with warnings.catch_warnings():
                warnings.simplefilter("ignore")
                with DIP() as d:
                    d.add_string(text)
                    d.parse()
            imp = True
        except Exception:
            imp = False
        ctx.count("mode.simple-cond")
        ctx.count("scond.op_" + op)
        ctx.count("scond.at_" + where.rstrip("+-"))
        ctx.count("scond.lit_" + ("other-dim" if lunit == "s" and unit else "no-unit" if not (unit and lunit) else "same-unit" if unit == lunit else "other-unit"))
        ctx.count("impl.accepted" if imp else "impl.rejected")
        ctx.case(["scond", text], True, {"text": text, "accepted": imp})
        replay = {"stream": "simple-cond", "text": text, "impl_accepts": imp, "spec_py": spec}
        if "ok" not in r:
            ctx.disagreement("simple-cond", replay, "driver error %s" % r)
            continue
        model, dspec = r["ok"]["model"], r["ok"]["spec"]
        replay.update({"model": model, "spec": dspec})
        if spec is None or dspec == "unknown":
            ctx.count("not_judged")
            continue
        if imp != spec:
            ctx.violation(("accepts-violating:" if imp else "rejects-satisfying:") + "simple-condition:" + op,
                          "DIP.parse %s a text whose final value %s the condition: %s" %
                          ("accepts" if imp else "rejects", "violates" if imp else "satisfies", text.replace("\n", " / ")[:300]), replay)
            continue
        if imp != model or dspec != spec:
            ctx.disagreement("simple-cond", replay, "impl accepts=%s model(condNum)=%s driver spec=%s" % (imp, model, dspec))


def _run(ctx, rng, tabs, drv18, count, tmpdir, DIP, Format):
    cases = []
    for i in range(count):
        mode = rng.choice(["plain", "plain", "plain", "plain", "local-group", "local-node", "remote", "local-decl"])
        custom = mode != "remote" and rng.random() < 0.3
        ctxt = ["$unit x = 2 m"] if custom else []
        ctxt += CONTEXT
        targets = [gen_target(rng, "q", custom, mode != "plain")]
        if rng.random() < 0.3:
            targets.append(gen_target(rng, "r", custom, mode != "plain"))
        if mode == "local-decl":
            # a group of bare declarations is imported; original and copy get their values afterwards - or never
            targets = []
            while not targets:
                t = gen_target(rng, "q", custom, True)
                if t.decl and not t.extra_ctx and not t.fn and t.kind in ("float", "int", "str", "bool"):
                    t.lines[0] = t.decl
                    t.declared = True
                    t.a_defs, t.a_run = rng.random() < 0.85, rng.random() < 0.7
                    targets = [t]
        if mode != "plain" and any(t.extra_ctx for t in targets):
            mode = "plain"      # sliced references stay local
            targets = [gen_target(rng, "q", custom, False)]
        cases.append((mode, custom, ctxt, targets))

    unit_rows_cache = {}

    def unit_rows(custom):
        if custom not in unit_rows_cache:
            with DIP() as d:
                d.add_string("$unit x = 2 m\na float = 1 m" if custom else "a float = 1 m")
                env = d.parse()
            unit_rows_cache[custom] = c18.unit_table(env, LUNITS + (["[x]"] if custom else []))
        return unit_rows_cache[custom]

    staged_stream(ctx, rng, tabs, drv18, count // 5, DIP, unit_rows)

    # the node records of a case: (target, full name, value, shape)
    def records(mode, t):
        if mode == "plain":
            return [(t, t.name, t.final, t.shape)]
        if mode == "local-decl":
            return [(t, "defs." + t.name, t.initial if t.a_defs else None, []), (t, "run." + t.name, t.final if t.a_run else None, [])]
        return [(t, "defs." + t.name, t.initial, t.shape0), (t, "run." + t.name, t.final, t.shape)]

    # round 1: conditions through the C18 model/spec with {?} bound to the node
    reqs, where = [], []
    for mode, custom, ctxt, targets in cases:
        for t in targets:
            t.cond = {}
            if t.cond_ast is None:
                continue
            for _, full, val, _ in records(mode, t):
                if val is None:
                    continue
                nodes = [list(r) for r in CONTEXT_ROWS]
                nodes.append([full, {"float": "float", "int": "int", "str": "str", "bool": "bool"}[t.kind], val, t.unit])
                reqs.append({"p": "C18", "k": "log", "table": tabs["log"]["table"], "steps": tabs["log"]["steps"],
                             "units": unit_rows(custom), "nodes": nodes, "autoref": full, "ast": t.cond_ast, "blanks": []})
                where.append((t, full))
    res = drv18.ask_many(reqs)
    for (t, full), r in zip(where, res):
        if "ok" not in r:
            ctx.disagreement("cond", {"ast": t.cond_ast}, "C18 driver error %s" % r)
            t.cond[full] = ("true", True, True)
            continue
        t.cond[full] = (r["ok"]["text"], r["ok"]["model"], r["ok"]["spec"])
        t.cond_text = r["ok"]["text"]
    for mode, custom, ctxt, targets in cases:
        for t in targets:
            if t.cond_ast is not None and not hasattr(t, "cond_text"):
                t.cond_text = None     # no value anywhere: render through a dummy request is not needed, drop the condition
                t.cond_ast = None

    # real parse + round 2
    reqs, meta = [], []
    for ci, (mode, custom, ctxt, targets) in enumerate(cases):
        body = []
        for t in targets:
            body += t.lines
            if t.cond_ast is not None:
                body.append("  !condition (\"%s\")" % t.cond_text)
        extra = [ln for t in targets for ln in t.extra_ctx]
        if mode == "plain":
            lines = ctxt + extra + body + [mod_line(t.name, m) for t in targets for m in t.mods]
        else:
            group = ["defs"] + ["  " + ln for ln in body]
            mods = [mod_line("run." + t.name, m) for t in targets for m in t.mods]
            if mode == "remote":
                path = os.path.join(tmpdir, "defs_%d.dip" % ci)
                with open(path, "w") as f:
                    f.write("\n".join(group) + "\n")
                lines = ["$source src = %s" % path] + ctxt + ["run", "  {src?defs.*}"] + mods
            elif mode == "local-decl":
                t = targets[0]
                lines = ctxt + group + ["run", "  {?defs.*}"] + (["defs.%s = %s" % (t.name, t.rhs0)] if t.a_defs else []) + \
                    ((["run.%s = %s" % (t.name, t.rhs0)] + mods) if t.a_run else [])
            elif mode == "local-group":
                lines = ctxt + group + ["run", "  {?defs.*}"] + mods
            else:
                lines = ctxt + group + ["run"] + ["  {?defs.%s}" % t.name for t in targets] + mods
        text = "\n".join(lines)
        shown = text if mode != "remote" else text + "\n--- file %s ---\n%s" % (path, "\n".join(group))
        try:
            with warnings.catch_warnings():
                warnings.simplefilter("ignore")
                with DIP() as d:
                    for t in targets:
                        if t.fn:
                            d.add_function(t.fn[0], (lambda data, r=t.fn[1]: copy.deepcopy(r)))
                    d.add_string(text)
                    env = d.parse()
                data = {}
                for node in env.nodes:
                    v = node.value
                    if v is None:
                        data[node.name] = None
                    elif getattr(v, "unit", None) is not None and hasattr(v, "convert"):
                        data[node.name] = (v.value, v.unit)
                    else:
                        data[node.name] = v.value
            imp = True
        except Exception as e:
            imp, data = False, repr(e)[:200]
        judged = True
        nodes = []
        for t in targets:
            for _, full, val, shape in records(mode, t):
                nd = {"declared": t.declared, "value": value_json(t, val), "unit": t.unit,
                      "selectable": t.kind in ("float", "int", "str"), "options": t.options,
                      "isStr": t.kind == "str", "dims": t.dims, "shape": shape}
                if t.cond_ast is not None and val is not None:
                    _, cm, cs = t.cond[full]
                    if cm == "outside":
                        judged = False
                    nd["cond"] = cm if isinstance(cm, bool) else "err"
                    nd["cond_spec"] = cs if isinstance(cs, bool) else ("unknown" if cs == "unknown" else False)
                if t.fmt is not None:
                    # re.match on a missing value raises: no match
                    nd["fmt"] = (re.match(t.fmt, val) is not None) if val is not None else False
                nodes.append(nd)
        reqs.append({"p": "C16", "k": "env", "units": unit_rows(custom), "nodes": nodes})
        meta.append((mode, shown, targets, imp, data, judged))
    res = ctx.driver.ask_many(reqs)
    for (mode, text, targets, imp, data, judged), r in zip(meta, res):
        kinds = set()
        for t in targets:
            if t.options:
                kinds.add("options")
            if t.cond_ast is not None:
                kinds.add("condition")
            if t.fmt is not None:
                kinds.add("format")
            if t.dims:
                kinds.add("dims")
                ctx.count("array.rank_%s" % ("lower" if len(t.shape) < len(t.dims) else "higher" if len(t.shape) > len(t.dims) else "equal"))
            if t.declared:
                kinds.add("declared")
            if t.mods:
                kinds.add("mods")
            ctx.count("node." + t.kind + ("+unit" if t.kind == "int" and t.unit else ""))
        for k in kinds:
            ctx.count("constraint." + k)
        ctx.count("mode." + mode)
        ctx.count("impl.accepted" if imp else "impl.rejected")
        ctx.case([text], len(kinds) >= 2 or " cm" in text or "[x]" in text or mode != "plain", {"text": text, "accepted": imp})
        replay = {"stream": "parse", "mode": mode, "text": text, "impl_accepts": imp, "impl_data": str(data)[:300]}
        if "ok" not in r:
            ctx.disagreement("parse", replay, "driver error %s" % r)
            continue
        model, spec = r["ok"]["model"], r["ok"]["spec"]
        replay.update({"model": model, "spec": spec})
        if spec == "unknown" or not judged:
            ctx.count("not_judged")
            continue
        if imp != spec:
            kind = "+".join(sorted(kinds - {"mods"})) or "plain"
            sig = ("accepts-violating:" if imp else "rejects-satisfying:") + ("import:" if mode != "plain" else "") + kind
            ctx.violation(sig, "DIP.parse %s a text whose final values %s the attached constraints: %s" %
                          ("accepts" if imp else "rejects", "violate" if imp else "satisfy", text.replace("\n", " / ")[:400]), replay)
            continue
        if imp != model:
            ctx.disagreement("parse", replay, "impl accepts=%s model=%s" % (imp, model))
            continue
        if imp:
            # soundness oracle on the returned data: the values judged are the values returned
            for t in targets:
                for _, full, val, _ in [r_ for r_ in records(mode, t) if not (mode == "remote" and r_[1].startswith("defs."))]:
                    got = data.get(full)
                    if t.kind == "float":
                        ok = isinstance(got, tuple) and c18.close(got[0], val, None) and got[1] == t.unit
                    elif t.kind == "int":
                        ok = (got == (val, t.unit)) if t.unit else got == val
                    elif t.kind in ("str", "bool"):
                        ok = got == val and type(got) == type(val)
                    else:
                        g = got[0] if isinstance(got, tuple) else got
                        ok = deep_close(g, val) and (not isinstance(got, tuple) or got[1] == t.unit)
                    if not ok:
                        ctx.violation("returned-value:" + t.kind, "accepted environment returns %r for %s, the constraints were judged on the final value %r: %s" %
                                      (got, full, val, text.replace("\n", " / ")[:300]), replay)
                        break

    # conditions `{?} <op> literal [unit]` evaluated by the C16 model itself (runs last: the other streams keep their random sequence)
    simple_cond_stream(ctx, rng, count // 4, DIP)
