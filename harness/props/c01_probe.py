"""C01/C02 translator part: re-extracts the solver tables and the finite behaviour of the
operator classes from the LIVE objects of the repository (abstract probing with a recording
atom and a stub Tokens object) and renders them as Lean source.

Nothing here knows what the tables *should* contain: it only observes.
"""
import re

FN1 = ["neg", "log", "log10", "sqrt", "sin", "cos", "tan", "lnot"]
FN2 = ["add", "sub", "mul", "div", "pow", "eq", "ne", "le", "ge", "lt", "gt", "land", "lor"]


# ------------------------------------------------------------------ recording atom
class RecAtom:
    """Atom whose operations build a term tree (exactly the methods AtomBase exposes).
    Terms: ("num", text) | ("e",) | ("var", name) | ("un", f, t) | ("bin", f, a, b)."""
    accept_any = False
    marker = "BOOM"

    def __init__(self, value):
        if isinstance(value, tuple):
            self.value = value
        elif isinstance(value, str):
            text = value.strip()
            if self.marker in text:
                raise RuntimeError("marker")
            if not self.accept_any:
                float(text)                      # same acceptance as AtomBase
            self.value = ("num", text)
        else:
            import numpy as np
            if isinstance(value, float) and value == float(np.e):
                self.value = ("e",)
            else:
                raise TypeError("RecAtom: unsupported constructor argument %r" % (value,))

    def __repr__(self):
        return "Rec%r" % (self.value,)

    def _b(self, f, other):
        return type(self)(("bin", f, self.value, other.value))

    def _u(self, f):
        return type(self)(("un", f, self.value))

    def __add__(self, o): return self._b("add", o)
    def __sub__(self, o): return self._b("sub", o)
    def __mul__(self, o): return self._b("mul", o)
    def __truediv__(self, o): return self._b("div", o)
    def __pow__(self, o): return self._b("pow", o)
    def __neg__(self): return self._u("neg")
    def log(self): return self._u("log")
    def log10(self): return self._u("log10")
    def sqrt(self): return self._u("sqrt")
    def sin(self): return self._u("sin")
    def cos(self): return self._u("cos")
    def tan(self): return self._u("tan")
    def logical_and(self, o): return self._b("land", o)
    def logical_or(self, o): return self._b("lor", o)
    def logical_not(self): return self._u("lnot")
    def __eq__(self, o): return self._b("eq", o)
    def __ne__(self, o): return self._b("ne", o)
    def __le__(self, o): return self._b("le", o)
    def __ge__(self, o): return self._b("ge", o)
    def __lt__(self, o): return self._b("lt", o)
    def __gt__(self, o): return self._b("gt", o)
    __hash__ = None


class RecAtomAny(RecAtom):
    accept_any = True


# ------------------------------------------------------------------ stub Tokens
class StubTokens:
    """Records the get/put calls an operate_* method performs."""

    def __init__(self, atom, left, right):
        self.atom = atom
        self._l, self._r = left, right
        self.calls = []

    def get_left(self):
        self.calls.append(("getL",))
        return self._l

    def get_right(self):
        self.calls.append(("getR",))
        return self._r

    def put_left(self, t):
        self.calls.append(("putL", t))

    def put_right(self, t):
        self.calls.append(("putR", t))


def _mk(cls):
    """Instance of an operator class without running its parsing constructor."""
    o = cls.__new__(cls)
    return o


def tm_of(term):
    """Recorded term over the variables L, R, a0, a1 -> template (nested tuples)."""
    k = term[0]
    if k == "var":
        return ("var", term[1])
    if k == "e":
        return ("e",)
    if k == "un":
        return ("un", term[1], tm_of(term[2]))
    if k == "bin":
        return ("bin", term[1], tm_of(term[2]), tm_of(term[3]))
    raise ValueError("template contains a literal: %r" % (term,))


def probe_simple(cls, method, nargs=0):
    """Abstractly runs cls.<method> with symbolic operands.  Returns
    {"getL":bool,"getR":bool,"puts":[(side, template)]} or None when the method is absent,
    or "unsupported" when it does something the template language cannot express."""
    if not hasattr(cls, method):
        return None
    op = _mk(cls)
    op.args = [RecAtom(("var", "a%d" % i)) for i in range(nargs)]
    L, R = RecAtom(("var", "L")), RecAtom(("var", "R"))
    st = StubTokens(RecAtom, L, R)
    try:
        getattr(op, method)(st)
    except Exception:
        return "unsupported"
    gets = [c for c in st.calls if c[0] in ("getL", "getR")]
    puts = [c for c in st.calls if c[0] in ("putL", "putR")]
    if st.calls != gets + puts or len([g for g in gets if g[0] == "getL"]) > 1 \
            or len([g for g in gets if g[0] == "getR"]) > 1:
        return "unsupported"
    out = []
    for side, t in puts:
        if not isinstance(t, RecAtom):
            return "unsupported"
        try:
            out.append((side, tm_of(t.value)))
        except ValueError:
            return "unsupported"
    return {"getL": ("getL",) in gets, "getR": ("getR",) in gets, "puts": out}


KINDS = ["none", "atom", "add", "sub", "other"]


def probe_sign(cls, OperatorAdd, OperatorSub, OperatorMul):
    """Exhaustive abstract probing of a sign operator's operate_unary over the 5x5 token kinds.
    Returns 25 rows (kl, kr, actions|'err'); actions = [(side, item)], item in L R negR newAdd newSub."""
    rows = []
    for kl in KINDS:
        for kr in KINDS:
            def mk(kind, name):
                if kind == "none":
                    return None
                if kind == "atom":
                    return RecAtom(("var", name))
                if kind == "add":
                    return _mk(OperatorAdd)
                if kind == "sub":
                    return _mk(OperatorSub)
                return _mk(OperatorMul)
            L, R = mk(kl, "L"), mk(kr, "R")
            st = StubTokens(RecAtom, L, R)
            try:
                _mk(cls).operate_unary(st)
            except Exception:
                rows.append((kl, kr, "err"))
                continue
            if [c[0] for c in st.calls[:2]] != ["getL", "getR"] or any(c[0].startswith("get") for c in st.calls[2:]):
                raise ValueError("sign operator does not start with get_left, get_right")
            acts = []
            for side, t in st.calls[2:]:
                if t is None:
                    # None pushed: attribute it to the operand that is None (both None: same token either way)
                    if kl == "none" and kr != "none":
                        item = "L"
                    elif kr == "none" and kl != "none":
                        item = "R"
                    elif kl == "none" and kr == "none":
                        item = "L" if side == "putL" else "R"
                    else:
                        raise ValueError("sign operator pushes None")
                elif t is L:
                    item = "L"
                elif t is R:
                    item = "R"
                elif isinstance(t, RecAtom) and t.value == ("un", "neg", ("var", "R")):
                    item = "negR"
                elif type(t) is OperatorAdd and t is not L and t is not R:
                    item = "newAdd"
                elif type(t) is OperatorSub and t is not L and t is not R:
                    item = "newSub"
                else:
                    raise ValueError("sign operator pushes an unexpected token %r" % (t,))
                acts.append((side, item))
            rows.append((kl, kr, acts))
    return rows


def is_sign_like(cls, OperatorAdd, OperatorSub):
    return hasattr(cls, "operate_unary") and (issubclass(cls, OperatorAdd) or issubclass(cls, OperatorSub))


def extract_config(name, operators, steps):
    """operators: dict name->class (dict order kept); steps: list of dict(operators=[names], otype=Otype)."""
    from scinumtools.solver import OperatorAdd, OperatorSub, OperatorMul, OperatorPar
    names = list(operators.keys())
    classes = list(operators.values())
    rows = []
    for nm, cls in zip(names, classes):
        if not isinstance(cls.symbol, str) or cls.symbol == "":
            raise ValueError("operator %s has no symbol" % nm)
        par = None
        nargs = 0
        if issubclass(cls, OperatorPar):
            par = (cls.symbol_open, cls.symbol_separator, cls.symbol_close, int(cls.narg))
            nargs = int(cls.narg)
            if "" in par[:3]:
                raise ValueError("empty parenthesis symbol")
        elif cls.__init__ is not __import__("scinumtools.solver.operators", fromlist=["OperatorBase"]).OperatorBase.__init__:
            raise ValueError("operator %s has its own constructor" % nm)
        if is_sign_like(cls, OperatorAdd, OperatorSub) and cls.operate_unary in (
                OperatorAdd.operate_unary, OperatorSub.operate_unary):
            unary = ("sign", "sub" if issubclass(cls, OperatorSub) else "add")
        else:
            unary = probe_simple(cls, "operate_unary")
        rows.append({
            "name": nm, "symbol": cls.symbol, "par": par,
            "isAdd": issubclass(cls, OperatorAdd), "isSub": issubclass(cls, OperatorSub),
            "isa": [j for j, c in enumerate(classes) if issubclass(cls, c)],
            "unary": unary,
            "binary": probe_simple(cls, "operate_binary"),
            "args": probe_simple(cls, "operate_args", nargs) if par else
            (probe_simple(cls, "operate_args") if hasattr(cls, "operate_args") else None),
        })
    add_idx = next((i for i, c in enumerate(classes) if c is OperatorAdd), None)
    sub_idx = next((i for i, c in enumerate(classes) if c is OperatorSub), None)
    sign_rows = {"add": probe_sign(OperatorAdd, OperatorAdd, OperatorSub, OperatorMul),
                 "sub": probe_sign(OperatorSub, OperatorAdd, OperatorSub, OperatorMul)}
    st = [([str(o) for o in s["operators"]], s["otype"].name) for s in steps]
    return {"name": name, "rows": rows, "addIdx": add_idx, "subIdx": sub_idx, "sign": sign_rows, "steps": st}


def default_config():
    from scinumtools.solver import ExpressionSolver, AtomBase
    es = ExpressionSolver(AtomBase)
    return extract_config("default", es.operators, es.steps)


# ------------------------------------------------------------------ documentation table
DOC_TYPE = {"parenthesis": "ARGS", "unary": "UNARY", "binary": "BINARY", "ternary": "TERNARY"}


def doc_steps(rst_text):
    """Parses the csv-table 'Operation steps' of docs/source/solver/index.rst."""
    m = re.search(r"\.\. csv-table:: Operation steps\n((?:[ \t]+:[^\n]*\n)*)\s*\n((?:[ \t]+[^\n]*\n)+)", rst_text)
    if not m:
        raise ValueError("csv-table 'Operation steps' not found in the documentation")
    rows = [l.strip() for l in m.group(2).splitlines() if l.strip()]
    if [c.strip() for c in rows[0].split(",")] != ["Type", "Operators"]:
        raise ValueError("unexpected header of the step table: %r" % rows[0])
    out = []
    for r in rows[1:]:
        typ, ops = r.split(",", 1)
        ops = ops.strip().strip('"')
        out.append(([o.strip() for o in ops.split(",") if o.strip()], DOC_TYPE[typ.strip()]))
    return out


# ------------------------------------------------------------------ Lean rendering
def lchars(s):
    return "[" + ", ".join(lchar(c) for c in s) + "]"


def lchar(c):
    if c == "'":
        return "'\\''"
    if c == "\\":
        return "'\\\\'"
    if c == "\n":
        return "'\\n'"
    if c == "\t":
        return "'\\t'"
    return "'%s'" % c


def lstr(s):
    return '"' + s.replace("\\", "\\\\").replace('"', '\\"') + '"'


def ltm(t):
    k = t[0]
    if k == "var":
        v = t[1]
        if v == "L":
            return "Tm.L"
        if v == "R":
            return "Tm.R"
        return "(Tm.arg %d)" % int(v[1:])
    if k == "e":
        return "Tm.constE"
    if k == "un":
        return "(Tm.un Fn1.%s %s)" % (t[1], ltm(t[2]))
    return "(Tm.bin Fn2.%s %s %s)" % (t[1], ltm(t[2]), ltm(t[3]))


def lsimple(s):
    if s is None:
        return "none"
    if s == "unsupported":
        raise ValueError("operator behaviour outside the template language")
    puts = ", ".join("(Side.%s, %s)" % ("left" if side == "putL" else "right", ltm(t)) for side, t in s["puts"])
    return "(some ⟨%s, %s, [%s]⟩)" % (str(s["getL"]).lower(), str(s["getR"]).lower(), puts)


def lunary(u):
    if u is None:
        return "none"
    if isinstance(u, tuple) and u[0] == "sign":
        return "(some (UBeh.sign SignK.%s))" % u[1]
    if u == "unsupported":
        raise ValueError("unary behaviour outside the template language")
    return "(some (UBeh.simple %s))" % lsimple(u)[6:-1]


def lrow(r):
    par = "none" if r["par"] is None else "(some ⟨%s, %s, %s, %d⟩)" % (
        lchars(r["par"][0]), lchars(r["par"][1]), lchars(r["par"][2]), r["par"][3])
    return "  { name := %s, symbol := %s, par := %s,\n    isAdd := %s, isSub := %s, isa := %s,\n    unary := %s,\n    binary := %s,\n    args := %s }" % (
        lstr(r["name"]), lchars(r["symbol"]), par, str(r["isAdd"]).lower(), str(r["isSub"]).lower(),
        "[" + ", ".join(str(j) for j in r["isa"]) + "]", lunary(r["unary"]), lsimple(r["binary"]), lsimple(r["args"]))


def lsteps(st):
    return "[" + ",\n   ".join("([%s], Otype.%s)" % (", ".join(lstr(o) for o in ops), ot.lower()) for ops, ot in st) + "]"


def lsign(sign):
    lines = []
    for k in ("add", "sub"):
        for kl, kr, acts in sign[k]:
            if acts == "err":
                a = "none"
            else:
                a = "(some [%s])" % ", ".join("(Side.%s, Item.%s)" % ("left" if s == "putL" else "right", it) for s, it in acts)
            lines.append("  (SignK.%s, Kind.%s, Kind.%s, %s)" % (k, kl, kr, a))
    return "[\n" + ",\n".join(lines) + "]"


def lconfig(cfg, ident):
    opt = lambda v: "none" if v is None else "(some %d)" % v
    return ("def %sRows : List OpRow := [\n%s]\n\n"
            "def %sSign : List (SignK × Kind × Kind × Option (List (Side × Item))) := %s\n\n"
            "def %sSteps : List (List String × Otype) :=\n  %s\n\n"
            "def %s : Table := ⟨%sRows, %s, %s, %sSign⟩\n") % (
        ident, ",\n".join(lrow(r) for r in cfg["rows"]), ident, lsign(cfg["sign"]), ident, lsteps(cfg["steps"]),
        ident, ident, opt(cfg["addIdx"]), opt(cfg["subIdx"]), ident)


# ------------------------------------------------------------------ configurations of C02
def custom_configs():
    """The two customised solvers of tests/solver/test_customisation.py and the documentation."""
    from scinumtools.solver import OperatorBase, OperatorAdd, OperatorGt, OperatorPar, Otype

    class OperatorSquare(OperatorBase):   # operate from left side
        symbol: str = '~'

        def operate_unary(self, tokens):
            right = tokens.get_right()
            tokens.put_left(right * right)

    class OperatorCube(OperatorBase):     # operate from right side
        symbol: str = '^'

        def operate_unary(self, tokens):
            left = tokens.get_left()
            tokens.put_left(left * left * left)

    ops_str = {'add': OperatorAdd, 'gt': OperatorGt, 'par': OperatorPar}
    steps_str = [
        dict(operators=['par'], otype=Otype.ARGS),
        dict(operators=['add'], otype=Otype.BINARY),
        dict(operators=['gt'], otype=Otype.BINARY),
    ]
    ops_un = {'square': OperatorSquare, 'cube': OperatorCube, 'add': OperatorAdd}
    steps_un = [
        dict(operators=['square', 'cube'], otype=Otype.UNARY),
        dict(operators=['add'], otype=Otype.BINARY),
    ]
    # a custom table in which symbols share their leading characters and one is a prefix of the other
    # (the longer one first, as the tokeniser requires)
    from scinumtools.solver import OperatorGe, OperatorAnd, OperatorOr, OperatorPar

    class OperatorShiftEq(OperatorGe):
        symbol: str = '>>='

    class OperatorShift(OperatorGt):
        symbol: str = '>>'

    class OperatorAndNot(OperatorOr):
        symbol: str = 'andnot'

    class OperatorAndWord(OperatorAnd):
        symbol: str = 'and'

    ops_px = {'shifteq': OperatorShiftEq, 'shift': OperatorShift, 'andnot': OperatorAndNot, 'and': OperatorAndWord,
              'add': OperatorAdd, 'par': OperatorPar}
    steps_px = [
        dict(operators=['par'], otype=Otype.ARGS),
        dict(operators=['add'], otype=Otype.BINARY),
        dict(operators=['shifteq', 'shift'], otype=Otype.BINARY),
        dict(operators=['andnot', 'and'], otype=Otype.BINARY),
    ]
    return {"strcfg": (ops_str, steps_str), "unarycfg": (ops_un, steps_un), "prefixcfg": (ops_px, steps_px)}


HEADER = """/- GENERATED by harness/props/%s from the live classes of the repository. DO NOT EDIT. -/
import SciVerif.Model.C01
namespace SciVerif.%s.Gen
open SciVerif.C01

"""


def render_c01(cfg, doc, atom_rows=None):
    atom = ""
    if atom_rows is not None:
        atom = ("\n/-- what each method of the stock AtomBase computes from the operand values L and R\n"
                "    (abstract probing with symbolic scalars that are floats) -/\n"
                "def atomBaseOps : List (String × String) := [\n"
                + ",\n".join("  (%s, %s)" % (lstr(m), lstr(d)) for m, d in atom_rows) + "]\n")
    return (HEADER % ("c01.py (gen_tables)", "C01") + lconfig(cfg, "dflt")
            + "\n/-- the table 'Operation steps' of docs/source/solver/index.rst -/\n"
            + "def docSteps : List (List String × Otype) :=\n  " + lsteps(doc) + "\n" + atom + "\nend SciVerif.C01.Gen\n")


def render_c02(cfgs):
    body = HEADER % ("c02.py (gen_tables)", "C02")
    for ident, cfg in cfgs:
        body += lconfig(cfg, ident) + "\n"
    return body + "end SciVerif.C02.Gen\n"


# ------------------------------------------------------------------ the stock atom: which Python operation each method applies
ATOM_METHODS = ["__add__", "__sub__", "__mul__", "__truediv__", "__pow__", "__neg__", "log", "log10", "sqrt", "sin",
                "cos", "tan", "logical_and", "logical_or", "logical_not", "__eq__", "__ne__", "__le__", "__ge__",
                "__lt__", "__gt__"]


class _Rec:
    """result of a Python operator applied to symbolic scalars"""

    def __init__(self, text):
        self.text = text


class SymF(float):
    """symbolic scalar that IS a float (isinstance checks and numpy conversions see a float) and records the
    Python operators applied to it"""

    def __new__(cls, name, v):
        o = float.__new__(cls, v)
        o.name = name
        return o

    def _b(self, sym, o):
        return _Rec("%s %s %s" % (self.name, sym, getattr(o, "name", "?")))

    def __add__(self, o): return self._b("+", o)
    def __sub__(self, o): return self._b("-", o)
    def __mul__(self, o): return self._b("*", o)
    def __truediv__(self, o): return self._b("/", o)
    def __pow__(self, o): return self._b("**", o)
    def __eq__(self, o): return self._b("==", o)
    def __ne__(self, o): return self._b("!=", o)
    def __le__(self, o): return self._b("<=", o)
    def __ge__(self, o): return self._b(">=", o)
    def __lt__(self, o): return self._b("<", o)
    def __gt__(self, o): return self._b(">", o)
    def __neg__(self): return _Rec("-%s" % self.name)
    __hash__ = float.__hash__


def probe_atombase():
    """[(method, description of what it computes from the operand values L and R)] for the live AtomBase"""
    import warnings
    import numpy as np
    from scinumtools.solver import AtomBase
    npf = {"np.log": np.log, "np.log10": np.log10, "np.sqrt": np.sqrt, "np.sin": np.sin, "np.cos": np.cos,
           "np.tan": np.tan, "np.exp": np.exp}
    rows = []
    for m in ATOM_METHODS:
        descs = []
        for lv, rv in ((1.5, 0.75), (0.0, 2.5), (2.0, 0.0)):
            L, R = SymF("L", lv), SymF("R", rv)
            f = getattr(AtomBase, m, None)
            if f is None:
                descs.append("absent")
                continue
            try:
                with warnings.catch_warnings():
                    warnings.simplefilter("ignore")
                    res = f(AtomBase(L)) if f.__code__.co_argcount == 1 else f(AtomBase(L), AtomBase(R))
            except Exception as ex:
                descs.append("raises " + type(ex).__name__)
                continue
            if not isinstance(res, AtomBase):
                descs.append("returns " + type(res).__name__)
                continue
            v = res.value
            if isinstance(v, _Rec):
                d = v.text
            elif v is L:
                d = "L"
            elif v is R:
                d = "R"
            elif isinstance(v, (bool, np.bool_)):
                d = "bool:%s" % bool(v)
            else:
                hit = [n for n, g in npf.items() if lv > 0 and repr(g(lv)) == repr(v)]
                d = "%s(L)" % hit[0] if len(hit) == 1 else ("value" if lv > 0 else "value0")
            descs.append(d)
        # summarise the three probes
        if len(set(descs)) == 1:
            desc = descs[0]
        elif descs == ["R", "L", "R"]:
            desc = "L and R"
        elif descs == ["L", "R", "L"]:
            desc = "L or R"
        elif descs == ["bool:False", "bool:True", "bool:False"]:
            desc = "not bool(L)"
        elif descs[0].startswith("np.") and descs[0] == descs[2]:
            desc = descs[0]
        else:
            desc = " | ".join(descs)
        rows.append((m, desc))
    return rows
