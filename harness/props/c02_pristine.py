"""C02 — pristine-process oracle.

Run as a script it is a small server: for every request line {"s": text} it FORKS a child that solves the text with
a fresh stock solver (ExpressionSolver(AtomBase)) and prints the canonical outcome.  The server process itself never
runs the solver, so every child starts from the process-wide state of a freshly started interpreter (numpy error
mode, warnings, locale, ...): the outcome "before any history".
"""
import json
import os
import sys


def canon_value(v):
    try:
        if v != v:
            return "nan"
    except Exception:
        pass
    return "%s:%r" % (type(v).__name__, v)


def stock_outcome(text):
    import warnings
    from scinumtools.solver import ExpressionSolver, AtomBase
    with warnings.catch_warnings():
        warnings.simplefilter("ignore")
        try:
            r = ExpressionSolver(AtomBase).solve(text)
        except Exception:
            return "err"
    if r is None:
        return "none"
    if isinstance(r, AtomBase):
        return {"atom": canon_value(r.value)}
    return {"unknown": type(r).__name__}


def process_state():
    """process-wide state a solver could touch"""
    import decimal
    import locale
    import warnings
    import numpy as np
    return {
        "np.geterr": dict(np.geterr()),
        "np.geterrcall": repr(np.geterrcall()),
        "np.printoptions": repr(sorted(np.get_printoptions().items(), key=lambda kv: kv[0])),
        "recursionlimit": sys.getrecursionlimit(),
        "decimal.context": repr(decimal.getcontext()),
        "locale": repr(locale.getlocale()),
        "cwd": os.getcwd(),
        "environ": hash(tuple(sorted(os.environ.items()))),
        "warnings.filters": len(warnings.filters),
        "float_repr_style": sys.float_repr_style,
    }


def main():
    src = os.path.join(os.environ.get("VERIF_REPO", "/repo"), "src")
    sys.path.insert(0, src)
    import scinumtools.solver  # noqa: F401  (imported once; importing runs no solver code)
    for line in sys.stdin:
        line = line.strip()
        if not line:
            continue
        text = json.loads(line)["s"]
        r, w = os.pipe()
        pid = os.fork()
        if pid == 0:
            os.close(r)
            try:
                out = json.dumps(stock_outcome(text))
            except BaseException:
                out = json.dumps("err")
            os.write(w, out.encode())
            os._exit(0)
        os.close(w)
        data = b""
        while True:
            chunk = os.read(r, 65536)
            if not chunk:
                break
            data += chunk
        os.close(r)
        os.waitpid(pid, 0)
        sys.stdout.write((data.decode() or json.dumps("err")) + "\n")
        sys.stdout.flush()


if __name__ == "__main__":
    main()
