"""C02 — pristine-process oracle.

Run as a script it is a small server: for every request line {"s": text} it FORKS a child that solves the text with
a fresh stock solver (ExpressionSolver(AtomBase)) and prints the canonical outcome.  The server process itself never
runs the solver, so every child starts from the process-wide state of a freshly started interpreter (numpy error
mode, warnings, locale, ...): the outcome "before any history".
"""
import json
import os
import sys


def canon_value(v):
    try:
        if v != v:
            return "nan"
    except Exception:
        pass
    return "%s:%r" % (type(v).__name__, v)


def stock_outcome(text):
    import warnings
    from scinumtools.solver import ExpressionSolver, AtomBase
    with warnings.catch_warnings():
        warnings.simplefilter("ignore")
        try:
            r = ExpressionSolver(AtomBase).solve(text)
        except Exception:
            return "err"
    if r is None:
        return "none"
    if isinstance(r, AtomBase):
        return {"atom": canon_value(r.value)}
    return {"unknown": type(r).__name__}


def process_state():
    """process-wide state a solver could touch"""
    import decimal
    import locale
    import numpy as np
    mod_globals = {}
    for mn, mod in list(sys.modules.items()):
        if mod is None or not mn.startswith("scinumtools.solver"):
            continue
        for k, v in vars(mod).items():
            if k.startswith("__") or isinstance(v, type) or callable(v) or type(v).__name__ == "module":
                continue
            # module-level data and module-level objects of the solver (e.g. shared atoms)
            mod_globals[mn + "." + k] = repr(vars(v)) if hasattr(v, "__dict__") else repr(v)
    return {
        "solver module globals": mod_globals,
        "np.geterr": dict(np.geterr()),
        "np.geterrcall": repr(np.geterrcall()),
        "np.printoptions": repr(sorted(np.get_printoptions().items(), key=lambda kv: kv[0])),
        "recursionlimit": sys.getrecursionlimit(),
        "decimal.context": repr(decimal.getcontext()),
        "locale": repr(locale.getlocale()),
        "cwd": os.getcwd(),
        "environ": hash(tuple(sorted(os.environ.items()))),
    }


def main():
    src = os.path.join(os.environ.get("VERIF_REPO", "/repo"), "src")
    sys.path.insert(0, src)
    import scinumtools.solver  # noqa: F401  (imported once; importing runs no solver code)
    for line in sys.stdin:
        line = line.strip()
        if not line:
            continue
        text = json.loads(line)["s"]
        r, w = os.pipe()
        pid = os.fork()
        if pid == 0:
            os.close(r)
            try:
                out = json.dumps(stock_outcome(text))     # an exception of the SOLVER is the outcome "err"
                os.write(w, out.encode())
                os._exit(0)
            except BaseException:
                os._exit(1)                               # trouble of the child itself: no baseline (null)
        os.close(w)
        data = b""
        while True:
            chunk = os.read(r, 65536)
            if not chunk:
                break
            data += chunk
        os.close(r)
        _, status = os.waitpid(pid, 0)
        ok = os.WIFEXITED(status) and os.WEXITSTATUS(status) == 0 and data
        sys.stdout.write((data.decode() if ok else "null") + "\n")
        sys.stdout.flush()


if __name__ == "__main__":
    main()
