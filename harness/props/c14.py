"""C14 — the last assignment wins, in the units and type of the definition.

Generated programs: a few parameters placed at depth 0-3 of a group hierarchy, each a definition or
declaration followed by 0-6 typed/untyped modifications (re-entering the groups or using dotted
paths), interleaved with each other, with blank/comment lines, `!constant`, and the four error
classes.  Real code vs Lean model (text) and vs Lean specification (abstract lines), the latter
cross-checked against an independent computation in Python.
"""
import json
from fractions import Fraction

from harness.props import c13 as H

RULE = ("1-3 parameters (bool/int/float/str with every width/sign suffix: [u]int[16|32|64], float[32|64|128]; the "
        "final parameter must keep class, width and sign of the first occurrence; scalar or array) at depth 0-3, each a definition or "
        "declaration followed by 0-6 typed/untyped modifications, interleaved; values from a boundary grid (0, -0.0, +-1, "
        "large, false, '', none); modification units absent / identical / same dimension (prefixed, compound, custom $unit) "
        "/ other dimension / a unit on a unit-less definition; injected: type change, assignment after !constant, assignment to an undefined path, declared "
        "but never assigned, a float-form literal (point or exponent, integral or not, scalar or array element) for an int "
        "parameter. Further streams: (clauses) the modifications sit inside `@case true/false ... [@else ...] @end` "
        "clauses (which may also contain first definitions/declarations, optionally protected by !constant) after 0-150 "
        "earlier clause keywords (half of the conditions compare two parameters written in different units of one dimension, "
        "`@case (\"{?a} < {?b}\")`, which must leave both untouched), followed by assignments after the clauses, optionally cut into a chain of parses on one environment, judged "
        "against the specification on the effective lines (selected bodies count at the clause's indentation); "
        "(chain-of-parses) programs cut into 2-3 texts parsed with DIP(env), model and specification evaluated on every "
        "prefix; (imports) a group with assignment chains is imported locally (`{?g.*}` / `{?g.a}`) below a fresh group, then "
        "originals and copies are assigned independently: an import line counts as the typed lines it stands for (type, "
        "width/sign, dimension, unit, CURRENT value or declaration, !constant carried over); (functions) a parameter with an "
        "assignment chain is read by a registered function (handed on, or converted in place on the way) that delivers the "
        "value of another parameter, after which both are compared. The custom unit [len] is defined differently from program "
        "to program (other magnitude, sometimes another dimension). A returned environment that cannot be read counts as 'envbroken', not as a failed parse. non-trivial = at least two modifications of one parameter or a unit conversion or an "
        "injected error; distinct = the text")
ASSUMPTIONS = H.ASSUMPTIONS + [
    "a numeric definition without unit is dimensionless: a later assignment with a unit is an assignment in another "
    "dimension and must fail (repaired in f02572d; generated as the injected error class unit-on-unitless)",
    "`none` is assigned without a unit (the code and the specification both ignore a unit behind none); every "
    "modification line has a value; a unit behind a bool/str value is an error (repaired in 7e9dc17, injected class "
    "unit-on-nonnumeric)",
    "`!constant` is written directly below the first occurrence of the parameter it protects",
    "clause conditions are the literals true/false, every clause is closed by @end at the indentation of its @case and "
    "its body is one level of lines; what a clause means in general is the subject of C15 and not part of the Lean model "
    "here (the model is not asked in the clause stream)",
    "imports are local and onto fresh paths (imports onto existing nodes, remote sources and references in values are "
    "C17's subject); imported int parameters carry no unit (an int copy is written back with int()); what an import "
    "means is taken from the documentation, the Lean model does not describe it and is not asked in that stream",
    "functions are registered with DIP.add_function, read one parameter and use built-in units only (conversions inside a "
    "function do not know custom units); what a function call means is C18's subject, the Lean model is not asked",
    "clause conditions that compare parameters use < or > on two scalar parameters of the same type whose values differ "
    "by more than 0.1% (the unit magnitudes are floats: a comparison of mathematically equal values is not judged)",
    "in a chain of parses every DIP object is kept alive: DIP names its sources by id(self), a reused id collides",
    "unit conversion itself (magnitudes, dimension test) is the subject of C04 and enters as a parameter read from the "
    "live registry; an int parameter converted into its unit is compared numerically (the code stores a float)",
]
EXPLANATION = ("theorem C14_parse_refines_spec: for every program (all chain lengths, any hierarchy) the model's parse "
               "and the declarative specification both succeed with the same parameters or both fail: type/width/"
               "unit of the first occurrence, value of the last assignment converted into the definition's unit; "
               "type change, other dimension, unit on a unit-less or non-numeric parameter, constant, undefined and "
               "never-assigned all fail")

COMP = ["g", "h", "box", "sim", "p-1", "out_2", "K"]
LEAF = ["a", "b", "size", "energy", "flag", "name", "n", "t0", "w.x"]

GRID = {
    "float": ["0", "-0.0", "0.0", "1", "-1", "70", "2.2", "1e20", "-2.5e-7", "123456789.125", "+1.0", ".5", "1E-3", "100"],
    "int": ["0", "1", "-1", "+0", "34", "-34", "1099511627776", "100", "3000", "-200", "007", "-0012", "010", "+00"],
    "bool": ["true", "false", "false"],
    "str": ["''", '""', "x", "false", "0", "'a b'", '"x # y"', "none-such", "'0.0'"],
}


CUSTOM_UNIT_DEFS = ["$unit len = 2.5 m", "$unit len = 4 cm", "$unit len = 0.5 km", "$unit len = 2.54 mm", "$unit len = 10 s", "$unit len = 8 h", "$unit len = 3 kg"]
CUR = {"preamble": H.UNIT_PREAMBLE}


def lit_value(ty, lit):
    if lit == "none":
        return None
    if ty == "float":
        return H.frac_of(lit)
    if ty == "int":
        return int(lit)
    if ty == "bool":
        return lit == "true"
    if lit[0] in "'\"":
        return lit[1:-1]
    return lit


def gen_value(rng, ty, shape):
    """(literal text, abstract value); arrays in tight JSON."""
    if rng.random() < 0.1:
        return "none", None
    if shape is None:
        lit = rng.choice(GRID[ty])
        return lit, lit_value(ty, lit)

    def build(sh):
        if not sh:
            if ty == "float":
                t = rng.choice(["0", "-0.0", "1", "-1", "2.5", "1e3", "0.0"])
                return t, H.frac_of(t)
            if ty == "int":
                i = rng.choice([0, 0, 1, -1, 100, -300, 7])
                return str(i), i
            if ty == "bool":
                b = rng.random() < 0.4
                return ("true" if b else "false"), b
            s = rng.choice(["", "x", "p", "0"])
            return '"%s"' % s, s
        parts = [build(sh[1:]) for _ in range(sh[0])]
        return "[" + ",".join(p[0] for p in parts) + "]", [p[1] for p in parts]
    return build(shape)


def flatten(v):
    if isinstance(v, list):
        for x in v:
            yield from flatten(x)
    else:
        yield v


def zero_value(rng, ty, shape):
    """a zero literal (all-zero array) of a numeric type"""
    def build(sh):
        if not sh:
            t = rng.choice(["0", "-0.0", "0.0", "0e0"] if ty == "float" else ["0", "0", "-0"])
            return t, (H.frac_of(t) if ty == "float" else 0)
        parts = [build(sh[1:]) for _ in range(sh[0])]
        return "[" + ",".join(q[0] for q in parts) + "]", [q[1] for q in parts]
    if ty not in ("float", "int"):
        return gen_value(rng, ty, shape)
    return build(shape or [])


class Param:
    def __init__(self, rng, path):
        self.path = path
        self.ty = rng.choice(["float", "float", "float", "int", "int", "bool", "str"])
        self.kw, self.prec, self.uns = H.gen_type(rng, self.ty)
        self.shape = rng.choice([None] * 6 + [[2], [2, 2], [1], [0]])
        self.dims_text, self.dims = ("", None)
        if self.shape is not None:
            self.dims_text, self.dims = H.gen_dims(rng, self.shape)
        self.unit, self.fam = H.pick_unit(rng, self.ty, 0.75)
        self.declared = rng.random() < 0.25
        self.constant = rng.random() < 0.08
        self.nmods = rng.choice([0, 1, 1, 2, 2, 3, 4, 5, 6])
        self.inject = None


FLOAT_FORMS_FOR_INT = ["25e-1", "-1.5e0", "1e-3", "1e3", "2E2", "1.0", "2.5", "1e0", "-3e1", "7.", "0.0", "-0e0", "1E+2"]


def float_form_value(rng, shape):
    """a literal that is not an integer literal (point or exponent), integral or not, scalar or inside an array;
    its abstract value is the text itself: not a value of type int"""
    def build(sh, bad):
        if not sh:
            if bad[0]:
                bad[0] = False
                t = rng.choice(FLOAT_FORMS_FOR_INT)
                if t in ("7.", "1.0") and sh is not None:
                    pass
                return t, t
            i = rng.choice([0, 1, -1, 7])
            return str(i), i
        n = sh[0]
        k = rng.randrange(n) if n else 0
        parts = []
        for j in range(n):
            parts.append(build(sh[1:], bad if j == k else [False]))
        return "[" + ",".join(q[0] for q in parts) + "]", [q[1] for q in parts]
    if shape is not None:
        # JSON has no `7.` / `1E+2`-free restrictions except: digits on both sides of the point
        t, v = build(shape, [True])
        return t.replace("7.,", "7.0,").replace("7.]", "7.0]"), v
    t = rng.choice(FLOAT_FORMS_FOR_INT)
    return t, t


def gen_program(rng):
    nparams = rng.choice([1, 1, 2, 2, 3])
    params, used = [], set()
    for _ in range(nparams):
        for _ in range(20):
            depth = rng.choice([0, 0, 1, 1, 2, 3])
            path = [rng.choice(COMP) for _ in range(depth)] + [rng.choice(LEAF)]
            full = ".".join(path)
            if full not in used and not any(u.startswith(full + ".") or full.startswith(u + ".") for u in used):
                used.add(full)
                params.append(Param(rng, full.split(".")))
                break
    # occurrences per parameter
    events = []
    for pi, p in enumerate(params):
        occ = [("first", pi)]
        if p.constant:
            occ.append(("const", pi))
        occ += [("mod", pi)] * p.nmods
        events.append(occ)
    # injected errors
    inj = None
    r = rng.random()
    if r < 0.06:
        inj = "type"
    elif r < 0.14:
        inj = "dimension"
    elif r < 0.19:
        inj = "undefined"
    elif r < 0.26:
        inj = "unitless"
    elif r < 0.31:
        inj = "nonnumeric"
    elif r < 0.38:
        inj = "floatlit"
    # interleave, keeping each parameter's own order
    order = []
    heads = [0] * len(events)
    while any(h < len(e) for h, e in zip(heads, events)):
        cand = [i for i in range(len(events)) if heads[i] < len(events[i])]
        i = rng.choice(cand)
        ev = events[i][heads[i]]
        heads[i] += 1
        order.append(ev)
        # `!constant` must directly follow the first occurrence
        if ev[0] == "first" and heads[i] < len(events[i]) and events[i][heads[i]][0] == "const":
            order.append(events[i][heads[i]])
            heads[i] += 1
    return params, order, inj


def render_program(rng, params, order, inj):
    """Returns (text, abstract lines, python expectation)."""
    text, lines = [CUR["preamble"]], [[0, "", ["skip"]]]
    state = {}            # path -> dict(value, frozen)
    error = False
    features = set()
    mods_seen = {}
    n_mod_total = sum(1 for e in order if e[0] == "mod")
    inj_at = rng.randrange(n_mod_total) if (inj in ("type", "dimension", "unitless", "nonnumeric", "floatlit") and n_mod_total) else -1
    floatlit_first = inj == "floatlit" and (n_mod_total == 0 or rng.random() < 0.35)
    if inj == "undefined":
        inj_pos = rng.randrange(len(order) + 1)
    mod_idx = 0
    last_indent = [0]
    base = rng.choice([0, 0, 0, 3])     # indentation of root-level lines, fixed for the program

    def emit(path, body_after_name, payload, noise=True):
        comps = list(path)
        s = rng.randint(0, len(comps) - 1)
        ind = base
        for c in comps[:s]:
            text.append(" " * ind + c + H.comment(rng, 0.2, tight_ok=False))
            lines.append([ind, c, ["group"]])
            ind += rng.randint(1, 7)
        nm = ".".join(comps[s:])
        text.append(" " * ind + nm + body_after_name)
        lines.append([ind, nm, payload])
        last_indent[0] = ind
        while noise and rng.random() < 0.2:
            text.append(H.noise_line(rng))
            lines.append([0, "", ["skip"]])

    def convert(p, unit, val):
        """value given in `unit` -> the definition's unit (exact)"""
        if val is None or unit is None or p.unit is None or unit == p.unit:
            return val
        rows = {r[0]: r for r in H.unit_rows([unit, p.unit], CUR["preamble"])}
        if unit not in rows or p.unit not in rows or rows[unit][3] != rows[p.unit][3]:
            return "err"
        f = Fraction(int(rows[unit][1]), int(rows[unit][2])) / Fraction(int(rows[p.unit][1]), int(rows[p.unit][2]))

        def m(x):
            return [m(y) for y in x] if isinstance(x, list) else x * f
        return m(val)

    for pos, ev in enumerate(order):
        if inj == "undefined" and pos == inj_pos:
            emit(["nowhere", "zz"], " = 3", ["assign", None, None, H.to_json_val(3)])
            error = True
            features.add("undefined")
        kind, pi = ev
        p = params[pi]
        key = ".".join(p.path)
        if kind == "first":
            head = H.sp(rng) + p.kw + p.dims_text
            if p.declared:
                if p.unit:
                    head += H.sp(rng) + p.unit
                head += H.comment(rng, 0.3, tight_ok=False)
                emit(p.path, head, ["decl", p.ty, p.prec, p.uns, p.dims, p.unit], noise=not p.constant)
                state[key] = {"value": "undef", "frozen": False}
            else:
                lit, val = gen_value(rng, p.ty, p.shape)
                if floatlit_first and p.ty == "int" and (p.shape is None or 0 not in p.shape) and "float-literal-to-int" not in features:
                    lit, val = float_form_value(rng, p.shape)
                    features.add("float-literal-to-int")
                    error = True
                head += rng.choice([" = ", "=", "  =  "]) + lit
                if p.unit:
                    head += H.sp(rng) + p.unit
                head += H.comment(rng, 0.3)
                emit(p.path, head, ["defn", p.ty, p.prec, p.uns, p.dims, p.unit, H.to_json_val(val)], noise=not p.constant)
                state[key] = {"value": val, "frozen": False}
        elif kind == "const":
            ind = last_indent[0] + rng.randint(1, 4)
            text.append(" " * ind + "!constant" + H.comment(rng, 0.2))
            lines.append([ind, "", ["const"]])
            state[key]["frozen"] = True
        else:
            lit, val = gen_value(rng, p.ty, p.shape)
            typed = rng.random() < 0.3
            mty = p.ty
            unit = None
            if p.unit and val is not None:
                r = rng.random()
                if r < 0.3:
                    unit = None
                elif r < 0.45:
                    unit = p.unit
                else:
                    unit = rng.choice(H.LIN_UNITS[p.fam])
                    if unit != p.unit:
                        features.add("conversion")
            this = mod_idx
            mod_idx += 1
            if this == inj_at and inj == "type":
                typed = True
                mty = rng.choice([t for t in ["float", "int", "bool", "str"] if t != p.ty])
                lit, val = gen_value(rng, mty, p.shape)
                unit = None
                features.add("type-change")
            if this == inj_at and inj == "dimension" and p.unit:
                # boundary values matter most here: zero in a unit of another dimension must still fail
                if rng.random() < 0.5:
                    lit, val = zero_value(rng, mty, p.shape)
                if val is not None:
                    fam = rng.choice([f for f in sorted(H.LIN_UNITS) if f != p.fam])
                    unit = rng.choice(H.LIN_UNITS[fam])
                    features.add("other-dimension")
                    if val == 0 or (isinstance(val, list) and not any(flatten(val))):
                        features.add("other-dimension:zero")
            unitless_err = False
            if this == inj_at and inj == "floatlit" and not floatlit_first and p.ty == "int" and (p.shape is None or 0 not in p.shape):
                lit, val = float_form_value(rng, p.shape)
                if unit is not None and rng.random() < 0.5:
                    unit = None
                unitless_err = True
                features.add("float-literal-to-int")
            if this == inj_at and inj == "unitless" and p.unit is None and p.ty in ("int", "float") and val is not None:
                unit = rng.choice(H.LIN_UNITS[rng.choice(sorted(H.LIN_UNITS))])
                unitless_err = True
                features.add("unit-on-unitless")
            if this == inj_at and inj == "nonnumeric" and p.ty in ("bool", "str") and val is not None and not typed:
                unit = rng.choice(H.LIN_UNITS[rng.choice(sorted(H.LIN_UNITS))])
                unitless_err = True
                features.add("unit-on-nonnumeric")
            head = ""
            mprec = muns = None
            if typed:
                kw, mprec, muns = H.gen_type(rng, mty)
                head += H.sp(rng) + kw + p.dims_text + rng.choice([" = ", "=", " ="]) + lit
            else:
                head += rng.choice([" = ", " =", "  =  "]) + lit
            if unit:
                head += H.sp(rng) + unit
            head += H.comment(rng, 0.3)
            emit(p.path, head, ["assign", mty if typed else None, unit, H.to_json_val(val), mprec, muns, p.dims])
            st = state[key]
            mods_seen[key] = mods_seen.get(key, 0) + 1
            if st["frozen"]:
                error = True
                features.add("constant")
            elif typed and mty != p.ty:
                error = True
            elif unitless_err:
                error = True
            else:
                nv = convert(p, unit, val)
                if nv == "err":
                    error = True
                else:
                    st["value"] = nv
    if inj == "undefined" and inj_pos == len(order):
        emit(["nowhere", "zz"], " = 3", ["assign", None, None, H.to_json_val(3)])
        error = True
        features.add("undefined")
    for p in params:
        if state[".".join(p.path)]["value"] == "undef":
            error = True
            features.add("never-assigned")
    if any(v >= 2 for v in mods_seen.values()):
        features.add("chain>=2")
    if error:
        expected = "err"
    else:
        first_order = []
        for ev in order:
            if ev[0] == "first":
                p = params[ev[1]]
                first_order.append([".".join(p.path), p.ty, p.prec, p.uns, p.unit, state[".".join(p.path)]["value"]])
        expected = first_order
    render_program.last_text_lines = text
    return "\n".join(text), lines, expected, features


def last_literal_class(v):
    if v is None:
        return "none"
    if isinstance(v, list):
        return "array"
    if isinstance(v, bool):
        return "false" if not v else "true"
    if isinstance(v, str):
        return "empty-string" if v == "" else "string"
    return "zero" if v == 0 else ("negative" if v < 0 else "number")


def signature(c, impl, spec):
    feats = c.get("features", set())
    if impl == "envbroken":
        return "c14:%s:returned-environment-without-value" % c.get("stream", "chain")
    if isinstance(spec, str) and not isinstance(impl, str):
        for f in ("type-change", "float-literal-to-int", "other-dimension", "unit-on-unitless", "unit-on-nonnumeric", "constant",
                  "constant-in-clause", "undefined", "never-assigned"):
            if f in feats:
                return "c14:accepted:" + f
        return "c14:accepted"
    if isinstance(impl, str):
        return "c14:rejected" + (":conversion" if "conversion" in feats else "")
    if [a[0] for a in impl] != [b[0] for b in spec]:
        return "c14:paths"
    for a, b in zip(impl, spec):
        if a[1:4] != b[1:4]:
            return "c14:type"
        if a[4] != b[4]:
            return "c14:unit"
        if not H.val_eq(a[5], b[5]):
            return "c14:value:" + last_literal_class(b[5])
    return "c14"


CORPUS = [
    ("a float = 1 m\na = 0", [["a", "float", 64, None, "m", 0]]),
    ("a float = 1 m\na = -0.0 cm", [["a", "float", 64, None, "m", 0]]),
    ("a int = 5\na = 0", [["a", "int", 32, False, None, 0]]),
    ("a int\na = 0", [["a", "int", 32, False, None, 0]]),
    ("a str = 'x'\na = ''", [["a", "str", None, None, None, ""]]),
    ("a str = 'x'\na = none", [["a", "str", None, None, None, None]]),
    ("a float = 1 m\na = 5\na = none", [["a", "float", 64, None, "m", None]]),
    ("a bool = true\na = none", [["a", "bool", None, None, None, None]]),
    ("a bool = true\na = false", [["a", "bool", None, None, None, False]]),
    ("a float[2] = [1,2] m\na = [3,4] cm", [["a", "float", 64, None, "m", [Fraction(3, 100), Fraction(4, 100)]]]),
    ("a int[2] = [1,2]\na = [0,0]", [["a", "int", 32, False, None, [0, 0]]]),
    ("size float = 70 cm\nsize float = 80 cm\nsize = 90 cm\nsize = 100\nsize = 1 m", [["size", "float", 64, None, "cm", 100]]),
    ("energy float = 1.23 J\nenergy = 2.2 erg\nenergy = 2.2 g*cm2/s2", [["energy", "float", 64, None, "J", Fraction(22, 10) / 10 ** 7]]),
    ("weight float kg\nweight = 77", [["weight", "float", 64, None, "kg", 77]]),
    ("age int = 34 yr\nage float = 55", "err"),
    ("weight = 23 kg", "err"),
    ("a float = 1 m\na = 3 s", "err"),
    ("a float = 1 m\n  !constant\na = 3", "err"),
    ("counts int", "err"),
    ("a float = 1\na = 3 m", "err"),
    ("a float = 1\na = 50 %", "err"),
    ("a int\na int = 3 s", "err"),
    ("a float = 1\na = 3", [["a", "float", 64, None, None, 3]]),
    ("a str = x\na = y m", "err"),
    ("steps int = 3\nsteps = 25e-1", "err"),
    ("steps int = 3\nsteps = 1e3", "err"),
    ("a int = 1e3", "err"),
    ("a int[2] = [1,2.5]", "err"),
    ("a int[2] = [1,2]\na = [1,2e0]", "err"),
    ("a float[0:] = [] mg\na = [] m", "err"),
    ("a float[0:] = [] mg\na = [] g", [["a", "float", 64, None, "mg", []]]),
    ("a bool = true\na = false s", "err"),
    ("g\n  a float = 1 km\ng.a = 0 mm\ng\n     a = -1 m", [["g.a", "float", 64, None, "km", Fraction(-1, 1000)]]),
]


# ---------------------------------------------------------------- clauses and chains of parses
def conv_exact(p_unit, unit, val):
    """value written in `unit` -> the definition's unit (exact); 'err' for another dimension / no unit to convert into"""
    if val is None:
        return val
    if unit is None or unit == p_unit:
        return val
    if p_unit is None:
        return "err"
    rows = {r[0]: r for r in H.unit_rows([unit, p_unit])}
    if unit not in rows or p_unit not in rows or rows[unit][3] != rows[p_unit][3]:
        return "err"
    f = Fraction(int(rows[unit][1]), int(rows[unit][2])) / Fraction(int(rows[p_unit][1]), int(rows[p_unit][2]))

    def m(x):
        return [m(y) for y in x] if isinstance(x, list) else x * f
    return m(val)


def gen_clause_program(rng):
    """Definitions/declarations, then modifications that sit inside `@case true/false … [@else …] @end` clauses, after
    0…150 earlier clause keywords (the clause counter is never reset: it also runs on through a chain of parses on
    one environment).  Returns (stages, lines per stage, expected, features)."""
    depth = rng.choice([0, 0, 1, 2])
    groups = [rng.choice(COMP) for _ in range(depth)]
    text, lines = [H.UNIT_PREAMBLE], [[0, "", ["skip"]]]
    ind = 0
    for g in groups:
        text.append(" " * ind + g)
        lines.append([ind, g, ["group"]])
        ind += rng.randint(1, 5)
    staged = depth == 0 and rng.random() < 0.5
    cuts = []
    feats = set()
    params, state, used = [], {}, set()
    plan = [None] * rng.choice([1, 1, 2, 3])
    if rng.random() < 0.5:
        # two scalar parameters of one type in different units of one dimension (compared by a clause condition below)
        fam = rng.choice(sorted(H.LIN_UNITS))
        ty = rng.choice(["float", "float", "int"])
        plan = [(ty, fam), (ty, fam)] + plan[:1]
    for spec_ in plan:
        nm = rng.choice(["a", "b", "size", "flag", "name", "n", "t0", "width", "limit"])
        if nm in used:
            continue
        used.add(nm)
        p = Param(rng, groups + [nm])
        p.leaf = nm
        if spec_ is not None:
            p.ty, p.fam = spec_
            p.kw, p.prec, p.uns = H.gen_type(rng, p.ty)
            p.shape, p.dims, p.dims_text = None, None, ""
            p.unit = rng.choice(H.LIN_UNITS[p.fam])
            p.declared = False
        if staged:
            p.declared = False
        params.append(p)
        head = H.sp(rng) + p.kw + p.dims_text
        if p.declared:
            if p.unit:
                head += H.sp(rng) + p.unit
            text.append(" " * ind + nm + head)
            lines.append([ind, nm, ["decl", p.ty, p.prec, p.uns, p.dims, p.unit]])
            state[nm] = "undef"
        else:
            lit, val = gen_value(rng, p.ty, p.shape)
            head += rng.choice([" = ", "=", "  =  "]) + lit + ((H.sp(rng) + p.unit) if p.unit else "")
            text.append(" " * ind + nm + head + H.comment(rng, 0.2))
            lines.append([ind, nm, ["defn", p.ty, p.prec, p.uns, p.dims, p.unit, H.to_json_val(val)]])
            state[nm] = val
    error = [False]

    padno = [0]

    def pad(n):
        for _ in range(n):
            i = padno[0]
            padno[0] += 1
            w = rng.randint(1, 4)
            text.append(" " * ind + "@case false")
            lines.append([ind, "", ["skip"]])
            text.append(" " * (ind + w) + "dummy%d int = %d" % (i, i))
            lines.append([ind, "", ["skip"]])
            if rng.random() < 0.2:
                text.append(" " * ind + "@else")
                lines.append([ind, "", ["skip"]])
                text.append(" " * (ind + w) + "other%d bool = false" % i)
                lines.append([ind, "other%d" % i, ["defn", "bool", None, None, None, None, H.to_json_val(False)]])
                state["other%d" % i] = False
                order.append("other%d" % i)
            text.append(" " * ind + "@end")
            lines.append([ind, "", ["skip"]])

    order = [p.leaf for p in params]

    frozen = set()

    def define_in_clause(applied, w):
        """a parameter first written INSIDE a clause (definition or declaration), optionally protected by !constant"""
        nm = rng.choice(["c1", "c2", "depth", "inner", "lim"])
        if nm in used:
            return
        used.add(nm)
        p = Param(rng, groups + [nm])
        p.leaf = nm
        head = H.sp(rng) + p.kw + p.dims_text
        const = rng.random() < 0.5
        if p.declared and not const and not staged:
            if p.unit:
                head += H.sp(rng) + p.unit
            text.append(" " * (ind + w) + nm + head)
            payload = ["decl", p.ty, p.prec, p.uns, p.dims, p.unit]
            val = "undef"
        else:
            lit, val = gen_value(rng, p.ty, p.shape)
            head += rng.choice([" = ", "=", "  =  "]) + lit + ((H.sp(rng) + p.unit) if p.unit else "")
            text.append(" " * (ind + w) + nm + head + H.comment(rng, 0.2))
            payload = ["defn", p.ty, p.prec, p.uns, p.dims, p.unit, H.to_json_val(val)]
        lines.append([ind, nm, payload] if applied else [ind, "", ["skip"]])
        if const:
            text.append(" " * (ind + w + rng.randint(1, 4)) + "!constant" + H.comment(rng, 0.2))
            lines.append([ind, "", ["const"]] if applied else [ind, "", ["skip"]])
        if applied:
            params.append(p)
            order.append(nm)
            state[nm] = val
            feats.add("definition-in-selected-clause")
            if const:
                frozen.add(nm)
                feats.add("constant-in-clause")

    def assign(p, at, applied):
        """one typed/untyped assignment to p written at indentation `at`"""
        lit, val = gen_value(rng, p.ty, p.shape)
        typed = rng.random() < 0.35
        unit = None
        if p.unit and val is not None and rng.random() < 0.7:
            unit = rng.choice(H.LIN_UNITS[p.fam])
            if rng.random() < 0.08:
                unit = rng.choice(H.LIN_UNITS[rng.choice([f for f in sorted(H.LIN_UNITS) if f != p.fam])])
                feats.add("other-dimension-in-clause")
        mprec = muns = None
        if typed:
            kw, mprec, muns = H.gen_type(rng, p.ty)
            head = H.sp(rng) + kw + p.dims_text + rng.choice([" = ", "="]) + lit
        else:
            head = rng.choice([" = ", " =", "  =  "]) + lit
        if unit:
            head += H.sp(rng) + unit
        text.append(" " * at + p.leaf + head + H.comment(rng, 0.2))
        if applied:
            lines.append([ind, p.leaf, ["assign", p.ty if typed else None, unit, H.to_json_val(val), mprec, muns, p.dims]])
            if p.leaf in frozen:
                error[0] = True
                feats.add("assignment-to-constant-defined-in-clause")
            nv = conv_exact(p.unit, unit, val)
            if nv == "err":
                error[0] = True
            else:
                state[p.leaf] = nv
        else:
            lines.append([ind, "", ["skip"]])

    def body(applied, w):
        for _ in range(rng.choice([1, 1, 2, 3])):
            if rng.random() < 0.3:
                define_in_clause(applied, w)
                continue
            assign(rng.choice(params), ind + w, applied)
        return

    def body_old(applied, w):
        for _ in range(rng.choice([1, 1, 2, 3])):
            p = rng.choice(params)
            lit, val = gen_value(rng, p.ty, p.shape)
            typed = rng.random() < 0.35
            unit = None
            if p.unit and val is not None and rng.random() < 0.7:
                unit = rng.choice(H.LIN_UNITS[p.fam])
                if rng.random() < 0.08:
                    unit = rng.choice(H.LIN_UNITS[rng.choice([f for f in sorted(H.LIN_UNITS) if f != p.fam])])
                    feats.add("other-dimension-in-clause")
            mprec = muns = None
            if typed:
                kw, mprec, muns = H.gen_type(rng, p.ty)
                head = H.sp(rng) + kw + p.dims_text + rng.choice([" = ", "="]) + lit
            else:
                head = rng.choice([" = ", " =", "  =  "]) + lit
            if unit:
                head += H.sp(rng) + unit
            text.append(" " * (ind + w) + p.leaf + head + H.comment(rng, 0.2))
            if applied:
                lines.append([ind, p.leaf, ["assign", p.ty if typed else None, unit, H.to_json_val(val), mprec, muns, p.dims]])
                nv = conv_exact(p.unit, unit, val)
                if nv == "err":
                    error[0] = True
                else:
                    state[p.leaf] = nv
            else:
                lines.append([ind, "", ["skip"]])

    npad = rng.choice([0, 1, 3, 4, 5, 6, 12, 40])
    pad(npad)
    if npad >= 5:
        feats.add("clause-number>=10")
    if npad >= 40:
        feats.add("clause-number>=100")
    if staged:
        cuts.append(len(text))
        pad(rng.choice([0, 2, 5]))
    for _ in range(rng.choice([1, 1, 2, 3])):
        w = rng.randint(1, 5)
        sel = rng.random() < 0.6
        cond = "true" if sel else "false"
        if rng.random() < 0.5:
            # a comparison of two parameters written in different units of one dimension: it must not disturb them
            cands = [q for q in params if q.ty in ("float", "int") and q.shape is None
                     and isinstance(state.get(q.leaf), (int, Fraction)) and not isinstance(state.get(q.leaf), bool)]
            pairs = [(x, y) for x in cands for y in cands if x is not y and x.fam == y.fam and x.ty == y.ty]
            if pairs:
                x, y = rng.choice(pairs)
                yv = conv_exact(x.unit, y.unit, state[y.leaf]) if (x.unit and y.unit) else state[y.leaf]
                if yv != "err" and abs(yv - state[x.leaf]) > Fraction(1, 1000) * max(abs(yv), abs(state[x.leaf])):
                    op = rng.choice(["<", ">"])
                    sel = (state[x.leaf] < yv) if op == "<" else (state[x.leaf] > yv)
                    cond = '("{?%s} %s {?%s}")' % (".".join(x.path), op, ".".join(y.path))
                    feats.add("clause-condition-compares-parameters")
                    if x.unit != y.unit:
                        feats.add("clause-condition-compares-different-units")
        text.append(" " * ind + "@case " + cond + H.comment(rng, 0.15 if cond in ("true", "false") else 0.0))
        lines.append([ind, "", ["skip"]])
        body(sel, w)
        if rng.random() < 0.4:
            text.append(" " * ind + "@else")
            lines.append([ind, "", ["skip"]])
            body(not sel, w)
        text.append(" " * ind + "@end")
        lines.append([ind, "", ["skip"]])
        feats.add("assignment-in-selected-clause" if sel else "assignment-in-unselected-clause")
        if staged and rng.random() < 0.4:
            cuts.append(len(text))
    # assignments written after the clauses, at the clauses' own indentation
    for _ in range(rng.choice([0, 1, 1, 2])):
        assign(rng.choice(params), ind, True)
        feats.add("assignment-after-clauses")
        if staged and rng.random() < 0.3:
            cuts.append(len(text) - 1)
    if any(state[p.leaf] == "undef" for p in params):
        error[0] = True
        feats.add("declared-never-effectively-assigned")
    if error[0]:
        expected = "err"
    else:
        expected = []
        for nm in order:
            q = next((x for x in params if x.leaf == nm), None)
            if q is None:
                expected.append([".".join(groups + [nm]), "bool", None, None, None, False])
            else:
                expected.append([".".join(q.path), q.ty, q.prec, q.uns, q.unit, state[nm]])
    # cut into stages (a chain of parses on one environment)
    bounds = [0] + sorted(set(c for c in cuts if 0 < c < len(text))) + [len(text)]
    stages = [("\n".join(text[a:b]), lines[a:b]) for a, b in zip(bounds, bounds[1:])]
    if len(stages) > 1:
        feats.add("chain-of-parses")
    return stages, expected, feats


def gen_import_program(rng):
    """A group of definitions/declarations with assignment chains, then a local import of the group (`{?g.*}`) or of
    single nodes (`{?g.a}`) below a fresh group, then assignments to originals and copies.  An import line counts as
    the typed lines it stands for: every selected parameter with its type, width/sign, dimension, unit and its CURRENT
    value (a declaration when it has none), `!constant` carried over.  Returns (text, abstract lines, expected, features)."""
    text, lines = [H.UNIT_PREAMBLE], [[0, "", ["skip"]]]
    feats = set()
    g, h = rng.sample(COMP, 2)
    w = rng.randint(1, 5)
    text.append(g)
    lines.append([0, g, ["group"]])
    params, state, frozen, order = [], {}, set(), []
    error = [False]
    for nm in rng.sample(["a", "b", "size", "flag", "name", "n", "t0"], rng.choice([1, 2, 2, 3])):
        p = Param(rng, [g, nm])
        p.leaf = nm
        if p.ty == "int":
            p.unit, p.fam = None, None      # an int copy is written back with int(): keep integer values integral
        params.append(p)
        key = g + "." + nm
        order.append(key)
        head = H.sp(rng) + p.kw + p.dims_text
        if p.declared:
            if p.unit:
                head += H.sp(rng) + p.unit
            text.append(" " * w + nm + head)
            lines.append([w, nm, ["decl", p.ty, p.prec, p.uns, p.dims, p.unit]])
            state[key] = "undef"
        else:
            lit, val = gen_value(rng, p.ty, p.shape)
            head += rng.choice([" = ", "=", "  =  "]) + lit + ((H.sp(rng) + p.unit) if p.unit else "")
            text.append(" " * w + nm + head + H.comment(rng, 0.2))
            lines.append([w, nm, ["defn", p.ty, p.prec, p.uns, p.dims, p.unit, H.to_json_val(val)]])
            state[key] = val
            if rng.random() < 0.12:
                text.append(" " * (w + 2) + "!constant")
                lines.append([w + 2, "", ["const"]])
                frozen.add(key)

    def assign(key, p):
        lit, val = gen_value(rng, p.ty, p.shape)
        typed = rng.random() < 0.3
        unit = None
        if p.unit and val is not None and rng.random() < 0.7:
            unit = rng.choice(H.LIN_UNITS[p.fam])
        mprec = muns = None
        if typed:
            kw, mprec, muns = H.gen_type(rng, p.ty)
            head = H.sp(rng) + kw + p.dims_text + rng.choice([" = ", "="]) + lit
        else:
            head = rng.choice([" = ", " =", "  =  "]) + lit
        if unit:
            head += H.sp(rng) + unit
        text.append(key + head + H.comment(rng, 0.2))
        lines.append([0, key, ["assign", p.ty if typed else None, unit, H.to_json_val(val), mprec, muns, p.dims]])
        if key in frozen:
            error[0] = True
            feats.add("assignment-to-constant")
        nv = conv_exact(p.unit, unit, val)
        if nv == "err":
            error[0] = True
        else:
            state[key] = nv

    for _ in range(rng.choice([0, 1, 2, 3, 4])):
        p = rng.choice(params)
        assign(g + "." + p.leaf, p)
        feats.add("reassigned-before-import")
    # the import
    text.append(h + H.comment(rng, 0.2, tight_ok=False))
    lines.append([0, h, ["group"]])
    w2 = rng.randint(1, 5)
    if rng.random() < 0.5:
        selected = list(params)
        text.append(" " * w2 + "{?%s.*}" % g)
        lines.append([w2, "", ["skip"]])
        feats.add("import-group")
    else:
        selected = rng.sample(params, rng.choice([1, min(2, len(params))]))
        for p in selected:
            text.append(" " * w2 + "{?%s.%s}" % (g, p.leaf))
            lines.append([w2, "", ["skip"]])
        feats.add("import-single-node")
    copies = []
    for p in selected:
        src, key = g + "." + p.leaf, h + "." + p.leaf
        cur = state[src]
        if cur == "undef":
            lines.append([w2, p.leaf, ["decl", p.ty, p.prec, p.uns, p.dims, p.unit]])
            feats.add("import-of-declared-node")
        else:
            lines.append([w2, p.leaf, ["defn", p.ty, p.prec, p.uns, p.dims, p.unit, H.to_json_val(cur)]])
        text.append("")           # keeps text and abstract lines parallel
        if src in frozen:
            lines.append([w2, "", ["const"]])
            text.append("")
            frozen.add(key)
        state[key] = cur
        order.append(key)
        copies.append((key, p))
    # afterwards: originals and copies go their own ways
    for _ in range(rng.choice([0, 1, 2, 3])):
        if rng.random() < 0.5:
            key, p = rng.choice(copies)
            feats.add("copy-assigned-after-import")
        else:
            p = rng.choice(params)
            key = g + "." + p.leaf
        assign(key, p)
    # declared parameters that are not constant get their value with probability 0.8
    for key in list(order):
        if state[key] == "undef" and key not in frozen and rng.random() < 0.8:
            p = next(q for q in params if key.endswith("." + q.leaf))
            assign(key, p)
    if any(state[k] == "undef" for k in order):
        error[0] = True
        feats.add("declared-never-effectively-assigned")
    if error[0]:
        expected = "err"
    else:
        expected = []
        for key in order:
            p = next(q for q in params if key.endswith("." + q.leaf))
            expected.append([key, p.ty, p.prec, p.uns, p.unit, state[key]])
    return "\n".join(text), lines, expected, feats


def import_stream(ctx, n):
    """real code vs the Lean specification on the effective lines of programs with local imports (the Lean model
    does not describe imports — C17 — and is not asked)"""
    progs = [gen_import_program(ctx.rng) for _ in range(n)]
    reqs = [{"lines": [[l[0], l[1], H.driver_payload(l[2])] for l in lines],
             "units": H.unit_rows(H.units_in(lines) | {"m"}, H.UNIT_PREAMBLE)} for _, lines, _, _ in progs]
    res = ctx.driver.ask_many(reqs)
    for (text, lines, expected, feats), r in zip(progs, res):
        impl = H.impl_run(text)
        ctx.count("stream.imports")
        for f in feats:
            ctx.count("feature." + f)
        ctx.count("impl.err" if isinstance(impl, str) else "impl.ok")
        ctx.case(text, True, None)
        replay = {"stream": "imports", "text": text}
        spec = H.decode_result(r["ok"]["spec"]) if "ok" in r else "driver-error"
        if spec in ("driver-error", "unsupported"):
            ctx.disagreement("imports", replay, "specification not available: %s" % (r,))
            continue
        if not H.res_eq_exact(expected, spec):
            ctx.disagreement("imports:spec-vs-generator", replay,
                             "Lean spec %s vs generator %s" % (H.short(H.jsonable(spec)), H.short(H.jsonable(expected))))
        elif not H.res_eq(impl, spec):
            c = {"stream": "imports", "features": feats}
            ctx.violation(signature(c, impl, spec) + ":import",
                          "C14: %s | text=%r" % (H.first_diff(impl, spec), text[:400]),
                          dict(replay, impl=H.jsonable(impl), spec=H.jsonable(spec)))


def gen_function_program(rng):
    """A parameter `a` with an assignment chain, then a parameter `r` whose value is delivered by a registered function
    (`r float = (fn) unit`, as definition or typed re-definition) that reads `a` — handing it on, or converting it on
    the way (`data['a'].convert('mm')`) — and afterwards `a` must still have the unit of its first occurrence and
    its last assigned value.  Returns (text, functions, abstract lines, expected, features)."""
    feats = set()
    fam = rng.choice(sorted(H.LIN_UNITS))
    pool = [u for u in H.LIN_UNITS[fam] if not u.startswith("[")]   # conversions inside a function know no custom units
    ua, um, ur = (rng.choice(pool) for _ in range(3))
    text, lines = [H.UNIT_PREAMBLE], [[0, "", ["skip"]]]
    ty = rng.choice(["float", "float", "int"])
    kw, prec, uns = H.gen_type(rng, ty)
    grid = [q for q in GRID[ty] if q not in ("+0",)]
    lit = rng.choice(grid)
    va = lit_value(ty, lit)
    text.append("a " + kw + " = " + lit + " " + ua)
    lines.append([0, "a", ["defn", ty, prec, uns, None, ua, H.to_json_val(va)]])
    for _ in range(rng.choice([0, 1, 2])):
        lit = rng.choice(grid)
        u = rng.choice(pool)
        v = lit_value(ty, lit)
        text.append("a = " + lit + " " + u)
        lines.append([0, "a", ["assign", None, u, H.to_json_val(v), None, None, None]])
        va = conv_exact(ua, u, v)
        feats.add("reassigned-before-function")
    kwr, precr, unsr = H.gen_type(rng, "float")
    redefinition = rng.random() < 0.5
    if redefinition:
        text.append("r " + kwr + " = 1 " + ur)
        lines.append([0, "r", ["defn", "float", precr, unsr, None, ur, H.to_json_val(1)]])
    mode = rng.choice(["hand-on", "convert-in-place"])
    k = rng.choice([1, 2, -3])
    if mode == "hand-on":
        fn = lambda data: data["a"]
        vr = conv_exact(ur, ua, va)
    else:
        fn = (lambda um_, k_: (lambda data: k_ * data["a"].convert(um_).value))(um, k)
        vr = k * conv_exact(um, ua, va)
    feats.add("function:" + mode)
    if ua != um or ua != ur:
        feats.add("function-reads-parameter-in-another-unit")
    kw2 = H.gen_type(rng, "float")
    text.append("r " + kw2[0] + " = (fn) " + ur)
    if redefinition:
        lines.append([0, "r", ["assign", "float", ur, H.to_json_val(vr), kw2[1], kw2[2], None]])
    else:
        precr, unsr = kw2[1], kw2[2]
        lines.append([0, "r", ["defn", "float", precr, unsr, None, ur, H.to_json_val(vr)]])
    if rng.random() < 0.4:
        lit = rng.choice(grid)
        u = rng.choice(pool)
        v = lit_value(ty, lit)
        text.append("a = " + lit + " " + u)
        lines.append([0, "a", ["assign", None, u, H.to_json_val(v), None, None, None]])
        va = conv_exact(ua, u, v)
    expected = [["a", ty, prec, uns, ua, va], ["r", "float", precr, unsr, ur, vr]]
    return "\n".join(text), {"fn": fn}, lines, expected, feats


def function_stream(ctx, n):
    """real code (with the functions registered through DIP.add_function) vs the Lean specification on the effective
    lines; what a function call means is C18's subject and not part of the Lean model, which is not asked"""
    from scinumtools.dip import DIP
    progs = [gen_function_program(ctx.rng) for _ in range(n)]
    reqs = [{"lines": [[l[0], l[1], H.driver_payload(l[2])] for l in lines],
             "units": H.unit_rows(H.units_in(lines) | {"m"}, H.UNIT_PREAMBLE)} for _, _, lines, _, _ in progs]
    res = ctx.driver.ask_many(reqs)
    for (text, fns, lines, expected, feats), r in zip(progs, res):
        try:
            p = DIP()
            for name, fn in fns.items():
                p.add_function(name, fn)
            p.add_string(text)
            impl = H.read_env(p.parse())
        except Exception:
            impl = "err"
        ctx.count("stream.functions")
        for f in feats:
            ctx.count("feature." + f)
        ctx.case(text, True, None)
        replay = {"stream": "functions", "text": text, "function": sorted(feats)}
        spec = H.decode_result(r["ok"]["spec"]) if "ok" in r else "driver-error"
        if spec in ("driver-error", "unsupported"):
            ctx.disagreement("functions", replay, "specification not available: %s" % (r,))
        elif not H.res_eq_exact(expected, spec):
            ctx.disagreement("functions:spec-vs-generator", replay,
                             "Lean spec %s vs generator %s" % (H.short(H.jsonable(spec)), H.short(H.jsonable(expected))))
        elif not H.res_eq(impl, spec):
            ctx.violation(signature({"stream": "functions", "features": feats}, impl, spec) + ":function",
                          "C14: %s | text=%r" % (H.first_diff(impl, spec), text[:300]),
                          dict(replay, impl=H.jsonable(impl), spec=H.jsonable(spec)))


def impl_run_staged(stage_texts):
    from scinumtools.dip import DIP
    env = None
    keep = []      # DIP names itself by id(self): keep every parser of the chain alive so that no id is reused
    try:
        for t in stage_texts:
            p = DIP(env) if env is not None else DIP()
            keep.append(p)
            p.add_string(t)
            env = p.parse()
    except Exception:
        return "err"
    return H.read_env(env)


def clause_stream(ctx, n):
    """real code vs the Lean specification on the effective line sequence (selected clause bodies count as lines at
    the clause's own indentation, unselected ones and the clause keywords as nothing); every stage of a chain of
    parses must succeed for the chain to succeed.  The Lean *model* does not describe @case (C15): it is not asked."""
    progs = [gen_clause_program(ctx.rng) for _ in range(n)]
    reqs, owner = [], []
    for i, (stages, expected, feats) in enumerate(progs):
        acc = []
        for k, (t, ls) in enumerate(stages):
            acc += ls
            reqs.append({"lines": [[l[0], l[1], H.driver_payload(l[2])] for l in acc],
                         "units": H.unit_rows(H.units_in(acc) | {"m"}, H.UNIT_PREAMBLE)})
            owner.append(i)
    res = ctx.driver.ask_many(reqs)
    per = {}
    for o, r in zip(owner, res):
        per.setdefault(o, []).append(r)
    for i, (stages, expected, feats) in enumerate(progs):
        texts = [t for t, _ in stages]
        impl = impl_run_staged(texts)
        ctx.count("stream.clauses")
        for f in feats:
            ctx.count("feature." + f)
        ctx.count("impl.err" if isinstance(impl, str) else "impl.ok")
        ctx.case("\n<<next parse>>\n".join(texts), True, None)
        replay = {"stream": "clauses", "stages": texts, "text": "\n".join(texts)}
        specs = []
        for r in per[i]:
            specs.append(H.decode_result(r["ok"]["spec"]) if "ok" in r else "driver-error")
        if "driver-error" in specs or "unsupported" in specs:
            ctx.disagreement("clauses", replay, "specification not available: %s" % specs[:3])
            continue
        spec = "err" if any(isinstance(x, str) for x in specs) else specs[-1]
        if not H.res_eq_exact(expected, spec):
            ctx.disagreement("clauses:spec-vs-generator", replay,
                             "Lean spec %s vs generator %s" % (H.short(H.jsonable(spec)), H.short(H.jsonable(expected))))
        elif not H.res_eq(impl, spec):
            c = {"stream": "clauses", "features": feats}
            ctx.violation(signature(c, impl, spec) + (":clause>=10" if "clause-number>=10" in feats else ""),
                          "C14: %s | stages=%r" % (H.first_diff(impl, spec), [t[-300:] for t in texts][:3]),
                          dict(replay, impl=H.jsonable(impl), spec=H.jsonable(spec)))


def chain_of_parses_stream(ctx, n):
    """the programs of the chain stream cut into 2-3 texts parsed one after the other on one environment
    (`DIP(env)`): parent stack, parameters, units and flags carry over, every stage is validated.  Real code vs
    Lean model and Lean specification, both evaluated on every prefix of the chain."""
    progs = []
    for _ in range(n):
        params, order, inj = gen_program(ctx.rng)
        text, lines, expected, feats = render_program(ctx.rng, params, order, inj)
        tl = list(render_program.last_text_lines)
        k = len(tl)
        cuts = sorted(set(ctx.rng.randrange(1, k) for _ in range(ctx.rng.choice([1, 1, 2])))) if k > 1 else []
        bounds = [0] + cuts + [k]
        progs.append(([("\n".join(tl[a:b]), lines[a:b]) for a, b in zip(bounds, bounds[1:])], feats))
    reqs, owner = [], []
    for i, (stages, feats) in enumerate(progs):
        acc, acct = [], []
        for t, ls in stages:
            acc += ls
            acct.append(t)
            reqs.append({"text": "\n".join(acct), "lines": [[l[0], l[1], H.driver_payload(l[2])] for l in acc],
                         "units": H.unit_rows(H.units_in(acc) | {"m"}, H.UNIT_PREAMBLE)})
            owner.append(i)
    res = ctx.driver.ask_many(reqs)
    per = {}
    for o, r in zip(owner, res):
        per.setdefault(o, []).append(r)
    for i, (stages, feats) in enumerate(progs):
        texts = [t for t, _ in stages]
        impl = impl_run_staged(texts)
        ctx.count("stream.chain-of-parses")
        ctx.count("impl.err" if isinstance(impl, str) else "impl.ok")
        ctx.case("\n<<next parse>>\n".join(texts), True, None)
        replay = {"stream": "chain-of-parses", "stages": texts, "text": "\n".join(texts)}
        if any("ok" not in r for r in per[i]):
            ctx.disagreement("chain-of-parses", replay, "driver error")
            continue
        specs = [H.decode_result(r["ok"]["spec"]) for r in per[i]]
        models = [H.decode_result(r["ok"]["model"]) for r in per[i]]
        spec = "err" if any(isinstance(x, str) for x in specs) else specs[-1]
        model = "err" if any(isinstance(x, str) for x in models) else models[-1]
        if "unsupported" in specs or "unsupported" in models:
            ctx.disagreement("chain-of-parses", replay, "model/spec does not cover a generated input")
            continue
        if not H.res_eq(impl, spec):
            c = {"stream": "chain-of-parses", "features": feats}
            ctx.violation(signature(c, impl, spec) + ":chain-of-parses",
                          "C14: %s | stages=%r" % (H.first_diff(impl, spec), [t[-300:] for t in texts][:3]),
                          dict(replay, impl=H.jsonable(impl), spec=H.jsonable(spec)))
        if not H.res_eq("err" if impl == "envbroken" else impl, model):
            ctx.disagreement("chain-of-parses", dict(replay, impl=H.jsonable(impl), model=H.jsonable(model)),
                             H.first_diff(impl, model))


def correspond(ctx):
    thorough = ctx.tier == "thorough"
    rng = ctx.rng
    # recon inputs first
    reqs = [{"text": t, "units": H.unit_rows(H.unit_tokens(t), None)} for t, _ in CORPUS]
    res = ctx.driver.ask_many(reqs)
    for (text, exp), r in zip(CORPUS, res):
        impl = H.impl_run(text)
        ctx.case(text, True, {"text": text})
        ctx.count("stream.corpus")
        if not H.res_eq(impl, exp):
            cls = "accepted" if exp == "err" else ("rejected" if isinstance(impl, str) else
                                                   "value:" + last_literal_class(exp[0][5]))
            ctx.violation("c14:corpus:" + cls, "C14: %s | text=%r" % (H.first_diff(impl, exp), text),
                          {"stream": "corpus", "text": text, "impl": H.jsonable(impl), "spec": H.jsonable(exp)})
        model = H.decode_result(r["ok"]["model"]) if "ok" in r else "driver-error"
        if not H.res_eq(impl, model):
            ctx.disagreement("corpus", {"text": text, "impl": H.jsonable(impl), "model": H.jsonable(model)}, H.first_diff(impl, model))
    n = 5000 if thorough else 900
    cases = []
    for _ in range(n):
        params, order, inj = gen_program(rng)
        # the custom unit [len] is defined differently from program to program (another magnitude, sometimes
        # another dimension): every parse must use the definition of ITS text
        CUR["preamble"] = rng.choice(CUSTOM_UNIT_DEFS)
        ctx.count("custom-unit." + CUR["preamble"].split("=")[1].strip().replace(" ", ""))
        text, lines, expected, feats = render_program(rng, params, order, inj)
        nontriv = bool(feats)
        for f in feats:
            ctx.count("feature." + f)
        ctx.count("params.%d" % len(params))
        for q in params:
            if q.nmods:
                ctx.count("modified.kw." + q.kw)
        ctx.count("expect." + ("err" if expected == "err" else "ok"))
        c = H.run_case(ctx, "chain", text, lines, expected, H.units_in(lines) | {"m"}, nontriv, preamble=CUR["preamble"])
        c["features"] = feats
        cases.append(c)
    H.flush(ctx, cases, prop="C14", sig_fn=signature)
    CUR["preamble"] = H.UNIT_PREAMBLE
    clause_stream(ctx, 1200 if thorough else 300)
    chain_of_parses_stream(ctx, 800 if thorough else 200)
    import_stream(ctx, 1000 if thorough else 250)
    function_stream(ctx, 400 if thorough else 100)


def replay(ctx, payload):
    return H.replay(ctx, payload)
