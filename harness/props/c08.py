"""C08 — measurement uncertainties propagate consistently and stay non-negative.

correspondence: real `Magnitude` / `Quantity`  vs  Lean model (`Model/C08.lean`, `Model/C06.lean`)
oracle:         the clause of the property that applies to the case (non-negative, sum rule, scaling by |k| / 1/|k|,
                first-order lower bound, conversion scales error like the value, exact stays exact), with its bound
                computed by the Lean specification formulas, checked on the real result
"""
import json
import math

from harness.core import Ctx
from harness.props import c06 as U

RULE = ("(1) pairs of Magnitudes from a value grid (either sign, arrays, zero where the formula is defined) with/without "
        "absolute or relative errors (1%-30%), a plain number on either side, under + - * / neg and ** (n/d, d<=6, negative "
        "and fractional); (2) quantities with errors converted to a same-dimension unit expression drawn from all linear "
        "table units (every dimension class), to the reciprocal dimension, number->rad and to an unrelated unit; (3) the C06 "
        "operation generator with errors on both operands, including a op a with the SAME object on both sides (also on "
        "Magnitude level) and constructors whose units cancel with a factor != 1; judged per clause on the error in base "
        "dimensions and by 'relative uncertainty = that of the same operation on the bare magnitudes'; (4) histories: each "
        "Magnitude/Quantity is created once and reused in 3-7 operations (arrays and scalars, every operator, a op a), model "
        "and oracle always get the creation-time state, operands re-read at the end; conversions include zero readings and "
        "targets given as BaseUnits/dict/text/Unit().x/reference Quantity of magnitude != 1; (5) Decimal magnitudes with Decimal/"
        "float/int exact factors of either sign; constructors with the unit given as an exact or uncertain Quantity; q.rebase() on "
        "compound units mixing units of one dimension; augmented assignments (+= -= *= /=) on Magnitude and Quantity; operands "
        "whose error exceeds the value (quotients judged for db<b and b<db<=2b); (6) sums/differences of logarithmic levels in "
        "one unit (sum clause + non-negativity only); after every + - * / neg ** on fresh quantities the RESULT is given an "
        "uncertainty (abse()/rele()) and the operands' uncertainties are re-read; exactly 0 on the left of + and -; constructors "
        "with abse/rele and a unit string carrying an explicit number ('2*m', '1e3*g', 'km*h-1*0.5'). non-trivial = at least one operand carries an error and (a negative "
        "value/factor/exponent, an array, or different units) ; distinct = canonical JSON of the input")
ASSUMPTIONS = [
    "operand errors are non-negative (abse >= 0, rele >= 0) as the property presupposes; magnitudes are floats, float "
    "arrays, and (Magnitude stream) scalar decimal.Decimal values with Decimal errors: the code's Decimal branches only wrap "
    "the operands in Decimal(), so the same model applies and results are compared through float() (1e-9); a Decimal combined "
    "with a float where the library raises TypeError today (Decimal error x float factor) is counted and not judged",
    "first-order lower bounds of quotients are judged for positive values with db < b (interval of the divisor excludes zero) "
    "or b < db <= 2b (C08_first_order_div, ..._wide); for db > 2b the bound is false for the code and for any end-point rule "
    "(C08_first_order_div_needs_interval) and at db = b the code divides by zero: there only non-negativity and impl = model "
    "are checked",
    "rebase(): judged for unit lists in which units sharing the NAMES of their dimensions have the same dimension vector "
    "(rebase() keys on the names: 'm*l' or 'J*W-1' are merged as if they had one dimension - an issue of rebase itself that "
    "the properties C06/C08 do not speak about; reported to the coordinator, not judged)",
    "logarithmic levels: both operands in the same unit and prefix, minuend above subtrahend; values are not judged (C05), "
    "only the uncertainty clauses",
    "** with an error attached is judged for non-zero values (the code divides by |value|; 0 gives nan) and fractional "
    "exponents for positive values",
    "a result that is NaN/inf (or a ZeroDivision/Overflow exception) is a violation when the model's result is an ordinary "
    "number well inside the float range, and not judged otherwise (overflow is an acknowledged float effect)",
    "the error of a product/quotient is a difference of two numbers of the size of the value: lower bounds are judged up "
    "to 1e-12 x |value| (only matters for relative errors below 1e-7)",
    "only linear conversions are covered by the conversion clause (reciprocal / temperature / logarithmic conversions carry "
    "the error over unchanged; the property does not speak about them)",
    "floats compared with relative tolerance 1e-9; np.abs/np.max/np.full_like taken as the real functions; for arrays "
    "np.max([maxerror,minerror]) is the maximum over all elements, as written",
    "histories: model and oracle get the state the operands were created with; operations on Magnitude/Quantity are pure in "
    "the model (Quantity.to, the only in-place method, is not part of histories)",
    "fold-relative oracle: the relative uncertainty of * / ** neg and constructors equals that of the same operation on bare "
    "Magnitudes up to 1e-7 (unit factors are exact positive floats; both sides evaluate the same formula)",
] + U.ASSUMPTIONS[:1] + U.ASSUMPTIONS[-4:]
EXPLANATION = ("theorems over any linearly ordered field: non-negativity of every operation's error, sum rule, scaling, "
               "first-order lower bounds, linear conversion keeps the relative error, exactness; model run against the real "
               "classes on every run")


def check_rule(ctx, name, case, e_imp, spec, what, vscale=0.0):
    """the property's clause on the real result; returns True if a violation was reported.
    `vscale` = size of the result value: the code obtains the error of a product/quotient as a difference of two
    numbers of that size, so it is only defined up to a few ulp of the value (matters when error/value < 1e-7)."""
    def viol(kind, text):
        ctx.violation("%s:%s" % (kind, name), "%s: %s (%s)" % (name, text, what), {"case": case, "impl_error": e_imp, "spec": spec})
        return True
    if e_imp is not None:
        es = e_imp if isinstance(e_imp, list) else [e_imp]
        if any(isinstance(x, str) for x in es):
            return False
        if any(x < 0 for x in es):
            return viol("negative", "absolute error %s is negative" % (e_imp,))
    rule = spec.get("rule")
    if not U.finite(spec.get("bound")):
        return False
    if rule == "exact":
        if e_imp is not None:
            return viol("exact", "exact operands gave an error %s" % (e_imp,))
    elif rule == "eq":
        if e_imp is None or not U.close(e_imp, spec["bound"]):
            return viol("rule", "absolute error is %s, the property prescribes %s" % (e_imp, spec["bound"]))
    elif rule == "ge":
        b = spec["bound"]
        if e_imp is None:
            return viol("rule", "error lost")
        ei = e_imp if isinstance(e_imp, list) else [e_imp] * (len(b) if isinstance(b, list) else 1)
        bb = b if isinstance(b, list) else [b] * len(ei)
        if any(x < y * (1 - 1e-9) - 1e-12 * vscale for x, y in zip(ei, bb)):
            return viol("firstorder", "absolute error %s is below the first-order uncertainty %s" % (e_imp, b))
    return False


# ---------------------------------------------------------------- stream 1: Magnitude
def gen_mag(rng, positive=False, nonzero=False, err_p=0.75, arrays=True):
    v = U.gen_value(rng, positive=positive, nonzero=nonzero, arrays=arrays)
    k = rng.random()
    lo = min(abs(x) for x in v) if isinstance(v, list) else abs(v)
    if k > err_p:
        return {"v": v}
    if k < err_p * 0.3 and lo > 0:
        return {"v": v, "rele": rng.choice([1.0, 5.0, 10.0, 30.0])}
    return {"v": v, "abse": U.gen_err(rng, v, p=1.0)}


def gen_mag_case(rng):
    r = rng.random()
    if r < 0.07:
        # poorly determined operands: the absolute error exceeds the value (interval reaches across zero)
        op = rng.choice(["div", "div", "mul", "div"])
        pos = rng.random() < 0.7
        lv = U.gen_value(rng, positive=pos, nonzero=True)
        rv = U.gen_value(rng, positive=pos, nonzero=True, arrays=not isinstance(lv, list))
        lo = lambda v: min(abs(x) for x in v) if isinstance(v, list) else abs(v)
        l = {"v": lv} if rng.random() < 0.25 else {"v": lv, "abse": lo(lv) * rng.choice([0.1, 0.3, 1.5])}
        rr = {"v": rv, "abse": lo(rv) * rng.choice([1.2, 1.5, 2.0, 2.5, 4.0])}
        return {"op": op, "l": l, "r": rr}
    if r < 0.6:
        op = rng.choice(["add", "sub", "mul", "div", "mul", "div"])
        pos = rng.random() < 0.4
        l = gen_mag(rng, positive=pos)
        rr = gen_mag(rng, positive=pos, nonzero=(op == "div"))
        if op == "div" and isinstance(rr["v"], list):
            rr["v"] = [x if x != 0 else 2.0 for x in rr["v"]]
        if isinstance(l["v"], list) and isinstance(rr["v"], list) and len(l["v"]) != len(rr["v"]):
            rr = gen_mag(rng, positive=pos, nonzero=True, arrays=False)
        c = {"op": op, "l": l, "r": rr}
        if rng.random() < 0.12:
            c["aug"] = True           # l += r etc.
        return c
    if r < 0.8:
        op = rng.choice(["add", "sub", "mul", "div", "mul", "div"])
        m = gen_mag(rng, nonzero=True, err_p=0.9)
        x = U.gen_value(rng, nonzero=True, arrays=False)
        if rng.random() < 0.6:
            x = -abs(x)
        return {"op": op, "l": m, "r": {"num": x}} if rng.random() < 0.5 else {"op": op, "l": {"num": x}, "r": m}
    if r < 0.85:
        return {"op": "neg", "l": gen_mag(rng, err_p=0.9)}
    d = rng.choice([1, 1, 1, 2, 3, 4, 6])
    n = rng.choice([-3, -2, -1, 1, 2, 3, 5])
    frac = n % d != 0
    m = gen_mag(rng, positive=frac or rng.random() < 0.3, nonzero=True, err_p=0.9)
    return {"op": "pow", "l": m, "p": [n, d], "float": frac or rng.random() < 0.5}


def gen_same_case(rng):
    """a op a : the SAME Magnitude object on both sides"""
    op = rng.choice(["add", "sub", "mul", "mul", "div"])
    m = gen_mag(rng, positive=rng.random() < 0.6, nonzero=(op == "div"), err_p=0.9)
    if op == "div" and isinstance(m["v"], list):
        m["v"] = [x if x != 0 else 2.0 for x in m["v"]]
    return {"op": op, "l": m, "same": True}


def mk_mag(spec):
    from scinumtools.units import Magnitude
    if "num" in spec:
        return spec["num"]
    v = list(spec["v"]) if isinstance(spec["v"], list) else spec["v"]
    return Magnitude(v, abse=spec.get("abse"), rele=spec.get("rele"))


def mag_state(m):
    from scinumtools.units import Magnitude
    if not isinstance(m, Magnitude):
        return {"num": float(m)}
    return {"v": U.fl(m.value), "e": U.fl(m.error)}


MAG_CORPUS = [
    {"op": "mul", "l": {"v": 1.0, "abse": 0.1}, "r": {"num": -3.0}},          # recon: negative factor
    {"op": "mul", "l": {"num": -3.0}, "r": {"v": 1.0, "abse": 0.1}},
    {"op": "div", "l": {"v": 1.0, "abse": 0.1}, "r": {"num": -3.0}},
    {"op": "pow", "l": {"v": 1.0, "abse": 0.1}, "p": [-1, 1], "float": False},  # recon: negative exponent
    {"op": "pow", "l": {"v": -2.0, "abse": 0.2}, "p": [3, 1], "float": False},
    {"op": "pow", "l": {"v": 4.0, "rele": 10.0}, "p": [-1, 2], "float": True},
    {"op": "mul", "l": {"v": -2.0, "rele": 10.0}, "r": {"v": 4.0, "abse": 0.05}},
    {"op": "mul", "l": {"v": 4.0, "abse": 0.05}, "r": {"v": 7.0, "abse": 0.1}},
    {"op": "div", "l": {"v": 12.0, "abse": 0.2}, "r": {"v": 4.0, "abse": 0.1}},
    {"op": "div", "l": {"num": 6.0}, "r": {"v": 12.0, "abse": 0.2}},
    {"op": "sub", "l": {"v": 4.0, "abse": 0.01}, "r": {"v": 1.0, "abse": 0.005}},
    {"op": "mul", "l": {"v": [12.0, 3.0], "abse": 0.2}, "r": {"v": [2.0, 4.0], "abse": 0.1}},
    {"op": "div", "l": {"num": -2.0}, "r": {"v": [-2.0, 3.0], "rele": 10.0}},
    {"op": "add", "l": {"v": 1.0}, "r": {"v": 2.0}},
    {"op": "neg", "l": {"v": [1.0, -2.0], "abse": 0.5}},
    {"op": "div", "l": {"v": 10.0, "abse": 1.0}, "r": {"v": 0.5, "abse": 0.6}},   # divisor known worse than 100 %
    {"op": "div", "l": {"v": [10.0, 10.0], "abse": 1.0}, "r": {"v": [0.5, 5.0], "abse": 0.6}},
    {"op": "div", "l": {"num": 3.0}, "r": {"v": 2.0, "abse": 3.0}},
    {"op": "div", "l": {"v": 10.0, "abse": 1.0}, "r": {"v": 0.5, "abse": 2.0}},
    {"op": "add", "l": {"v": [2.0, 3.0], "abse": 0.01}, "r": {"v": 0.5, "abse": 0.05}, "aug": True},
    {"op": "mul", "l": {"v": 12.0, "abse": 0.2}, "same": True},              # a*a : product rule, not the ** rule
    {"op": "mul", "l": {"v": [12.0, 3.0], "abse": 0.2}, "same": True},
    {"op": "div", "l": {"v": 4.0, "abse": 0.1}, "same": True},
    {"op": "sub", "l": {"v": 4.0, "abse": 0.1}, "same": True},
    {"op": "add", "l": {"v": -4.0, "rele": 5.0}, "same": True},
]


def apply_mag_op(c, l, r, req):
    """the operation on the real objects; non-finite results are kept and marked"""
    try:
        if c.get("aug") and c["op"] in ("add", "sub", "mul", "div"):
            import operator
            res = {"add": operator.iadd, "sub": operator.isub, "mul": operator.imul, "div": operator.itruediv}[c["op"]](l, r)
        elif c["op"] == "add":
            res = l + r
        elif c["op"] == "sub":
            res = l - r
        elif c["op"] == "mul":
            res = l * r
        elif c["op"] == "div":
            res = l / r
        elif c["op"] == "neg":
            res = -l
        else:
            n, d = c["p"]
            x = n / d if c["float"] else n
            req["p"] = U.float_to_frac(x)
            res = l ** x
        return U.mark_nonfinite({"v": U.fl(res.value), "e": U.fl(res.error)})
    except (ZeroDivisionError, OverflowError):
        return "nonfinite"
    except Exception as ex:
        return "err:%s" % type(ex).__name__


def judge_mag(ctx, c, req, imp, ans, stream="mag"):
    op = c["op"]
    ctx.count(stream + "." + op)
    what = "Magnitude %s" % json.dumps(c)
    if "ok" not in ans:
        ctx.disagreement(stream, c, "impl %s driver %s" % (imp, ans))
        return
    mod, spec = ans["ok"]["model"], ans["ok"]["spec"]
    if U.is_nonfinite(imp):
        if U.finite(mod["v"]) and U.finite(mod["e"]) and U.mag(mod["v"]) < 1e250 and U.mag(mod["e"]) < 1e250:
            ctx.violation("notanumber:Magnitude." + op, "Magnitude.%s gives %s where value %s error %s are ordinary numbers (%s)" %
                          (op, imp if imp == "nonfinite" else {"v": imp["v"], "e": imp["e"]}, mod["v"], mod["e"], what),
                          {"case": c, "impl": imp})
        else:
            ctx.count(stream + ".nonfinite")
        return
    if not isinstance(imp, dict):
        ctx.disagreement(stream, c, "impl %s driver %s" % (imp, ans))
        return
    le = req["l"].get("e")
    re_ = req.get("r", {}).get("e")
    neg = any(U.mag(x) and (min(x) if isinstance(x, list) else x) < 0
              for x in [req["l"].get("v", req["l"].get("num")), req.get("r", {}).get("v", req.get("r", {}).get("num"))] if x is not None) \
        or (op == "pow" and c["p"][0] < 0)
    ctx.case(json.dumps(c, sort_keys=True), (le is not None or re_ is not None) and
             (neg or isinstance(imp["v"], list)), {"magnitude_case": c, "error": imp["e"]})
    if le is not None or re_ is not None:
        ctx.count(stream + ".with-error")
    if c.get("same"):
        ctx.count(stream + ".same-object")
    ctx.count(stream + ".rule." + spec.get("rule", "?"))
    check_rule(ctx, "Magnitude." + op, c, imp["e"], spec, what, U.mag(imp["v"]))
    if not U.close(imp["v"], mod["v"]):
        ctx.disagreement(stream, c, "value impl %s model %s" % (imp["v"], mod["v"]))
    elif not U.close(imp["e"], mod["e"], U.mag(imp["v"]) * 1e-3, 1e-7):
        ctx.disagreement(stream, c, "error impl %s model %s" % (imp["e"], mod["e"]))


def mag_stream(ctx, count):
    cases = [json.loads(json.dumps(c)) for c in MAG_CORPUS] + \
        [gen_same_case(ctx.rng) if ctx.rng.random() < 0.08 else gen_mag_case(ctx.rng) for _ in range(count)]
    reqs, imps = [], []
    for c in cases:
        l = mk_mag(c["l"])
        r = l if c.get("same") else (mk_mag(c["r"]) if "r" in c else None)
        req = {"k": "mag", "op": c["op"], "l": mag_state(l)}
        if r is not None:
            req["r"] = mag_state(r)
        imps.append(apply_mag_op(c, l, r, req))
        reqs.append(req)
    # the constructor itself (relative error -> absolute error) is a case of its own
    ctor = []
    for c in cases:
        for side in ("l", "r"):
            m = c.get(side)
            if m and "num" not in m and (m.get("rele") is not None or m.get("abse") is not None):
                ctor.append(m)
    creqs = []
    for m in ctor:
        if m.get("rele") is not None:
            creqs.append({"k": "mag", "op": "newrel", "v": m["v"], "rele": float(m["rele"])})
        else:
            creqs.append({"k": "mag", "op": "new", "v": m["v"], "abse": m["abse"]})
    answers = U.ask_many(ctx, reqs + creqs)
    for c, req, imp, ans in zip(cases, reqs, imps, answers):
        judge_mag(ctx, c, req, imp, ans)
    for m, ans in zip(ctor, answers[len(reqs):]):
        ctx.count("mag.ctor")
        real = mk_mag(m)
        imp = {"v": U.fl(real.value), "e": U.fl(real.error)}
        if "ok" not in ans:
            ctx.disagreement("mag.ctor", m, str(ans))
            continue
        check_rule(ctx, "Magnitude.init", m, imp["e"], ans["ok"]["spec"], "Magnitude(%s)" % json.dumps(m))
        mod = ans["ok"]["model"]
        if not (U.close(imp["v"], mod["v"]) and U.close(imp["e"], mod["e"])):
            ctx.disagreement("mag.ctor", m, "impl %s model %s" % (imp, mod))
        # rele() read back: relative error is 100*e/|v|
        if m.get("rele") is not None:
            back = U.fl(real.rele())
            if U.finite(back) and not U.close(back, float(m["rele"])):
                ctx.violation("rele-roundtrip", "Magnitude(%s).rele() returns %s" % (json.dumps(m), back),
                              {"case": m, "rele": back})


# ---------------------------------------------------------------- stream 2: conversions of uncertain quantities
def gen_to_case(rng):
    lu = U.gen_units(rng)
    k = rng.random()
    if k < 0.75:
        tu = U.variant(rng, lu) or lu
    elif k < 0.85:
        tu = [(f, (-e[0], e[1])) for f, e in (U.variant(rng, lu) or lu)]
    elif k < 0.9:
        lu, tu = [], [(("", "rad") if rng.random() < 0.7 else ("m", "rad"), rng.choice([(1, 1), (1, 1), (2, 2), (2, 1), (-1, 1)]))]
    else:
        tu = U.gen_units(rng)
    v = U.gen_value(rng) if k < 0.75 else U.gen_value(rng, nonzero=True)    # a zero reading with an uncertainty is ordinary
    if rng.random() < 0.08:
        v = 0.0
    if not (U.distinct_ids(lu) and U.distinct_ids(tu)):
        return gen_to_case(rng)
    c = {"op": "to", "lv": v, "lu": lu, "tu": tu, "le": U.gen_err(rng, v, p=0.85), "mode": "dict"}
    # how the target is handed over: BaseUnits / dict / text / a reference Quantity (magnitude != 1) / Unit().x
    f = rng.random()
    if f < 0.3:
        c["tform"] = "quantity"
        c["tm"] = rng.choice([2.0, 50.0, -4.0, 0.5, 1.0, -0.25, 1e3])
        if rng.random() < 0.2:
            c["te"] = abs(c["tm"]) * 0.1
    elif f < 0.4 and len(tu) == 1 and tu[0][1] == (1, 1):
        c["tform"] = "unit"
    elif f < 0.55:
        c["tform"] = "dict"
    elif f < 0.65:
        c["tform"] = "text"
    return c


TO_CORPUS = [
    {"op": "to", "lv": 1.0, "lu": U.U(("", "m", 1, 1)), "tu": U.U(("c", "m", 1, 1)), "le": 0.1},     # recon
    {"op": "to", "lv": [1.0, 2.0], "lu": U.U(("k", "m", 1, 1)), "tu": U.U(("", "m", 1, 1)), "le": 0.1},
    {"op": "to", "lv": -3.0, "lu": U.U(("", "J", 1, 1)), "tu": U.U(("k", "g", 1, 1), ("", "m", 2, 1), ("", "s", -2, 1)), "le": 0.3},
    {"op": "to", "lv": 2.0, "lu": [], "tu": U.U(("", "rad", 1, 1)), "le": 0.1},
    {"op": "to", "lv": 2.0, "lu": [], "tu": U.U(("", "rad", 2, 1)), "le": 0.1},
    {"op": "to", "lv": 2.0, "lu": [], "tu": U.U(("m", "rad", -1, 1))},
    {"op": "to", "lv": 2.0, "lu": U.U(("", "s", 1, 1)), "tu": U.U(("", "Hz", 1, 1)), "le": 0.1},
    {"op": "to", "lv": 2.0, "lu": U.U(("", "s", 1, 1)), "tu": U.U(("", "m", 1, 1)), "le": 0.1},
    {"op": "to", "lv": 2.0, "lu": U.U(("", "m", 1, 1)), "tu": U.U(("", "ft", 1, 1))},
    # a reading of exactly zero, scalar and inside an array
    {"op": "to", "lv": 0.0, "lu": U.U(("k", "m", 1, 1)), "tu": U.U(("", "m", 1, 1)), "le": 0.2},
    {"op": "to", "lv": [0.0, 1.0, -2.0], "lu": U.U(("", "h", 1, 1)), "tu": U.U(("", "min", 1, 1)), "le": 0.1, "tform": "text"},
    # targets that are quantities: the value in multiples of a reference
    {"op": "to", "lv": 10.0, "lu": U.U(("k", "m", 1, 1)), "tu": U.U(("", "m", 1, 1)), "le": 0.5, "tform": "quantity", "tm": 50.0},
    {"op": "to", "lv": [1.0, 3.0], "lu": U.U(("", "J", 1, 1)), "tu": U.U(("", "erg", 1, 1)), "le": 0.02, "tform": "quantity", "tm": -4.0},
    {"op": "to", "lv": 3.0, "lu": U.U(("k", "m", 1, 1)), "tu": U.U(("", "m", 1, 1)), "le": 0.1, "tform": "unit"},
    {"op": "to", "lv": 3.0, "lu": U.U(("k", "g", 1, 1)), "tu": U.U(("", "lb", 1, 1)), "le": 0.1, "tform": "quantity", "tm": 2.0, "te": 0.2},
    {"op": "to", "lv": 3.0, "lu": U.U(("k", "g", 1, 1)), "tu": U.U(("", "g", 1, 1)), "le": 0.1, "tform": "dict"},
]


def to_stream(ctx, count):
    cases = [dict(c) for c in TO_CORPUS] + [gen_to_case(ctx.rng) for _ in range(count)]
    reqs, imps = [], []
    for c in cases:
        req, imp = U.run_impl(c)
        reqs.append(req)
        imps.append(imp)
    answers = U.ask_many(ctx, reqs)
    for c, req, imp, ans in zip(cases, reqs, imps, answers):
        ctx.count("to")
        ctx.count("to.target." + c.get("tform", "baseunits"))
        if "ok" not in ans:
            ctx.disagreement("to", c, str(ans))
            continue
        mod, spec = ans["ok"]["model"], ans["ok"]["spec"]
        tgt = U.text_of(c["tu"])
        if c.get("tform") == "quantity":
            tgt = "Quantity(%r%s, '%s')" % (c["tm"], "" if c.get("te") is None else "±%g" % c["te"], tgt)
        elif c.get("tform") == "unit":
            tgt = "Unit().%s" % tgt
        what = "Quantity(%s).to(%s)" % (U.describe(c), tgt)
        if U.is_nonfinite(imp):
            if U.model_is_sane(mod, req["env"]):
                ctx.violation("notanumber:convert", "%s gives %s where value %s error %s are ordinary numbers" %
                              (what, imp if imp == "nonfinite" else {"v": imp["v"], "e": imp["e"]}, mod["v"], mod["e"]),
                              {"case": c, "impl": imp})
            else:
                ctx.count("to.nonfinite")
            continue
        if U.out_of_range(imp, mod, spec if isinstance(spec, dict) else None, req["env"]):
            ctx.count("to.out-of-float-range")
            continue
        if c["lv"] == 0 or (isinstance(c["lv"], list) and 0 in c["lv"]):
            ctx.count("to.zero-reading")
        linear = isinstance(spec, dict)
        ctx.count("to.linear" if linear else ("to.refused" if imp == "err" else "to.other-rule"))
        ctx.case(json.dumps(c, sort_keys=True, default=str), c.get("le") is not None and linear and
                 [f for f, _ in c["lu"]] != [f for f, _ in c["tu"]],
                 {"conversion": what, "abse": None if imp == "err" else imp["e"]})
        if linear:
            if imp == "err":
                ctx.violation("convert:refused", "%s refused although the dimensions agree" % what, {"case": c})
            else:
                rule = spec["err"] if "err" in spec else \
                    ({"rule": "exact"} if spec["e"] is None else {"rule": "eq", "bound": spec["e"]})
                vs = req["l"]["v"] if isinstance(req["l"]["v"], list) else [req["l"]["v"]]
                if not check_rule(ctx, "convert", c, imp["e"], rule, what) and rule.get("rule") == "eq" \
                        and 0 not in vs and imp["e"] is not None:
                    # the relative uncertainty is unchanged
                    r0 = rel(req["l"]["e"], req["l"]["v"])
                    r1 = rel(imp["e"], imp["v"])
                    if not U.close(r0, r1):
                        ctx.violation("convert:relative", "%s changes the relative uncertainty from %s to %s" % (what, r0, r1),
                                      {"case": c, "impl": imp})
                if not U.close(imp["v"], spec["v"]):
                    ctx.violation("convert:value", "%s gives %s, should be %s" % (what, imp["v"], spec["v"]), {"case": c})
        elif imp != "err":
            es = imp["e"] if isinstance(imp["e"], list) else [imp["e"]]
            if any(x is not None and x < 0 for x in es):
                ctx.violation("negative:convert", "%s gives a negative error %s" % (what, imp["e"]), {"case": c})
        d = U.compare_model(imp, mod)
        if d:
            ctx.disagreement("to", c, d)


def rel(e, v):
    if isinstance(v, list):
        e = e if isinstance(e, list) else [e] * len(v)
        return [abs(x / y) for x, y in zip(e, v)]
    if isinstance(e, list):
        return [abs(x / v) for x in e]
    return abs(e / v)


# ---------------------------------------------------------------- stream 3: quantity operations with errors
QTY_CORPUS = [
    # sums / differences in different units of one dimension, uncertain right operand
    {"op": "add", "lv": 3.0, "lu": U.U(("k", "m", 1, 1)), "le": 0.1, "rv": 20.0, "ru": U.U(("c", "m", 1, 1)), "re": 5.0},
    {"op": "sub", "lv": 3.0, "lu": U.U(("", "J", 1, 1)), "rv": 2.0, "ru": U.U(("", "N", 1, 1), ("c", "m", 1, 1)), "re": 0.5},
    {"op": "add", "lv": [1.0, 2.0], "lu": U.U(("", "h", 1, 1)), "le": 0.1, "rv": 30.0, "ru": U.U(("", "min", 1, 1)), "re": 3.0},
    # products / quotients / powers / constructors whose units cancel with a factor != 1
    {"op": "div", "lv": 6.0, "lu": U.U(("k", "m", 1, 1)), "le": 0.3, "rv": 2.0, "ru": U.U(("", "m", 1, 1))},
    {"op": "div", "lv": 6.0, "lu": U.U(("", "m", 1, 1)), "le": 0.3, "rv": 2.0, "ru": U.U(("m", "m", 1, 1)), "re": 0.1},
    {"op": "mul", "lv": 5.0, "lu": U.U(("k", "Hz", 1, 1)), "le": 0.5, "rv": 2.0, "ru": U.U(("", "s", 1, 1)), "re": 0.2},
    {"op": "pow_int", "lv": 2.0, "lu": U.U(("k", "m", 1, 1), ("", "m", -1, 1), ("", "%", 1, 1)), "le": 0.1, "p": [2, 1]},
    {"op": "new", "lv": 4.0, "lu": U.U(("k", "m", 1, 1), ("", "m", -1, 1)), "le": 0.2},
    {"op": "new", "lv": -4.0, "lu": U.U(("", "J", 1, 1), ("", "erg", -1, 1)), "le": 0.2},
    # rebase(): units of one dimension merged (a change of unit by a constant factor)
    {"op": "rebase", "lv": 10.0, "lu": U.U(("", "m", 1, 1), ("c", "m", 1, 1)), "le": 0.7},
    {"op": "rebase", "lv": [3.0, 6.0], "lu": U.U(("", "m", 2, 1), ("c", "m", -1, 1)), "le": 0.3},
    # augmented assignment with an uncertain right operand
    {"op": "add", "aug": True, "lv": [2.0, 3.0, 4.0], "lu": U.U(("", "m", 1, 1)), "le": 0.01, "rv": [10.0, 20.0, 30.0], "ru": U.U(("c", "m", 1, 1)), "re": 0.5},
    {"op": "sub", "aug": True, "lv": [2.0, 3.0], "lu": U.U(("", "m", 1, 1)), "rv": 1.0, "ru": U.U(("d", "m", 1, 1)), "re": 0.2},
    {"op": "add", "aug": True, "lv": 2.0, "lu": U.U(("", "s", 1, 1)), "le": 0.1, "rv": 3.0, "ru": U.U(("", "min", 1, 1)), "re": 0.5},
    # unit strings with an explicit numerical factor: an exact number scales value and error
    {"op": "new", "lv": 3.0, "lu": U.U(("", "m", 1, 1)), "le": 0.1, "k": 2},
    {"op": "new", "lv": [1.0, 2.0], "lu": U.U(("", "g", 1, 1)), "lrele": 10, "k": 1e3},
    {"op": "new", "lv": 12.0, "lu": U.U(("c", "m", 1, 1)), "le": 0.2, "k": 0.5, "klast": True},
    # the unit given as an uncertain quantity
    {"op": "newq", "lv": 4.0, "lu": [], "le": 0.2, "rv": 2.5, "ru": U.U(("c", "m", 1, 1)), "re": 0.1},
    {"op": "newq", "lv": -3.0, "lu": [], "rv": 2.5, "ru": U.U(("k", "m", 1, 1)), "re": 0.1},
    {"op": "newq", "lv": [1.0, 2.0], "lu": [], "le": 0.1, "rv": 2.0, "ru": U.U(("k", "m", 1, 1), ("", "m", -1, 1)), "re": 0.2},
    # the same object on both sides
    {"op": "mul", "lv": 12.0, "lu": U.U(("c", "m", 1, 1)), "le": 0.2, "same": True, "rv": 12.0, "ru": U.U(("c", "m", 1, 1)), "re": 0.2},
    {"op": "div", "lv": 12.0, "lu": U.U(("c", "m", 1, 1)), "le": 0.2, "same": True, "rv": 12.0, "ru": U.U(("c", "m", 1, 1)), "re": 0.2},
    {"op": "add", "lv": 12.0, "lu": U.U(("c", "m", 1, 1)), "le": 0.2, "same": True, "rv": 12.0, "ru": U.U(("c", "m", 1, 1)), "re": 0.2},
]


def qty_stream(ctx, count):
    cases = [dict(c, mode="dict") for c in QTY_CORPUS]
    while len(cases) < count + len(QTY_CORPUS):
        c = U.gen_case(ctx.rng)
        if c.get("lu") is not None and c["op"] != "pow_pair" or True:
            if c.get("lu") is not None and c.get("le") is None and c.get("lrele") is None:
                c["le"] = U.gen_err(ctx.rng, c["lv"], p=1.0)
            if c.get("ru") is not None and "rv" in c and c.get("re") is None and ctx.rng.random() < 0.7:
                c["re"] = U.gen_err(ctx.rng, c["rv"], p=1.0)
        if c["op"].startswith("pow") and (c["lv"] == 0 or (isinstance(c["lv"], list) and 0 in c["lv"])):
            continue
        cases.append(c)
    reqs, imps = [], []
    for c in cases:
        req, imp = U.run_impl(c)
        reqs.append(req)
        imps.append(imp)
    answers = U.ask_many(ctx, [{k: v for k, v in r.items() if k != "p_intended"} for r in reqs])
    for c, req, imp, ans in zip(cases, reqs, imps, answers):
        judge_qty(ctx, c, req, imp, ans)


def judge_qty(ctx, c, req, imp, ans, stream="qty"):
    ctx.count(stream + "." + c["op"])
    if "ok" not in ans:
        ctx.disagreement(stream, c, str(ans))
        return
    if imp == "skip":
        ctx.count(stream + ".unit-text-not-parsed-as-intended")
        return
    if not U.exponent_judgeable(ctx, c, req):
        return
    mod = ans["ok"]["model"]
    name = "Quantity." + c["op"].split("_")[0]
    what = "Quantity %s %s" % (c["op"], U.describe(c))
    if U.is_nonfinite(imp):
        if U.model_is_sane(mod, req["env"]):
            ctx.violation("notanumber:" + name, "%s gives %s where value %s error %s are ordinary numbers" %
                          (what, imp if imp == "nonfinite" else {"v": imp["v"], "e": imp["e"]}, mod["v"], mod["e"]),
                          {"case": c, "impl": imp})
        else:
            ctx.count(stream + ".nonfinite")
        return
    if U.out_of_range(imp, mod, None, req["env"]):
        ctx.count(stream + ".out-of-float-range")
        return
    has_err = c.get("le") is not None or c.get("re") is not None or c.get("lrele") is not None
    ctx.case(json.dumps(c, sort_keys=True, default=str), has_err and U.nontrivial(c),
             {"quantity_case": U.describe(c), "op": c["op"], "abse": None if imp == "err" else imp["e"]})
    spec = ans["ok"]["spec"]
    if imp != "err" and imp.get("operand_error_changed"):
        side, before, after = imp["operand_error_changed"][0]
        ctx.violation("result-shares-uncertainty:" + name,
                      "%s: giving the RESULT an uncertainty changed the %s operand's absolute error from %s to %s - the result "
                      "is not a new value; exact operands then yield uncertain results and sums the wrong total" %
                      (what, side, before, after), {"case": c, "changed": imp["operand_error_changed"]})
    if imp != "err":
        rule = {"rule": "nonneg"} if has_err else {"rule": "exact"}
        bad = check_rule(ctx, name, c, imp["e"], rule, what)
        if not bad and isinstance(spec, dict) and "err" in spec:
            # the clause of the property on the error re-expressed in base dimensions
            ctx.count(stream + ".rule." + spec["err"].get("rule", "?"))
            bad = check_rule(ctx, name, c, U.base_err_of(imp, req["env"]), spec["err"],
                             what + " [absolute error in base dimensions]", U.mag(U.base_of(imp, req["env"])))
        if not bad and c["op"] != "add" and c["op"] != "sub":
            fold_keeps_relative(ctx, name, c, req, imp, what)
    d = U.compare_model(imp, mod, U.scale_for(c, req))
    if d:
        ctx.disagreement(stream, c, d)


def fold_keeps_relative(ctx, name, c, req, imp, what):
    """unit factors are exact positive numbers: the relative uncertainty of a product / quotient / power /
    constructed quantity is the one of the same operation on the bare Magnitudes (no units, nothing folded)"""
    from scinumtools.units import Magnitude
    import numpy as np

    def bare(st):
        if "num" in st:
            v = st["num"]
            return np.array(v, dtype=float) if isinstance(v, list) else v
        v, e = st["v"], st.get("e")
        return Magnitude(list(v) if isinstance(v, list) else v,
                         abse=(np.array(e, dtype=float) if isinstance(e, list) else e))
    op = c["op"].split("_")[0]
    try:
        l = bare(req["l"])
        r = l if c.get("same") else (bare(req["r"]) if "r" in req else None)
        if op in ("mul", "newq"):
            m = l * r
        elif op == "div":
            m = l / r
        elif op == "neg":
            m = -l
        elif op == "pow":
            n, d = c["p"]
            m = l ** (int(n) if c["op"] == "pow_int" else n / d)
        elif op in ("new", "rebase"):
            m = l
        else:
            return
        mv, me = U.fl(m.value), U.fl(m.error)
    except Exception:
        return
    if me is None or imp["e"] is None or not (U.finite(mv) and U.finite(me)):
        if (me is None) != (imp["e"] is None) and U.finite(me):
            ctx.violation("fold-relative:" + name, "%s: error %s, the same operation on the bare magnitudes gives %s" %
                          (what, imp["e"], me), {"case": c, "impl": imp})
        return
    vs = mv if isinstance(mv, list) else [mv]
    iv = imp["v"] if isinstance(imp["v"], list) else [imp["v"]]
    if any(x == 0 for x in vs) or any(x == 0 for x in iv):
        return
    r0, r1 = rel(me, mv), rel(imp["e"], imp["v"])
    ctx.count("qty.relative-checked")
    if not U.close(r0, r1, None, 1e-7):
        ctx.violation("fold-relative:" + name,
                      "%s: relative uncertainty is %s, the same operation on the bare magnitudes gives %s "
                      "(unit factors are exact, they must scale error and value alike)" % (what, r1, r0),
                      {"case": c, "impl": imp, "bare": {"v": mv, "e": me}})


# ---------------------------------------------------------------- stream 6: sums and differences of logarithmic levels
LOG_UNITS = ["dB", "dBA", "dBm", "dBW", "dBV", "dBSPL", "Np", "B", "dNp", "dBuV"]


def log_stream(ctx, count):
    """Quantity + Quantity and Quantity - Quantity for levels in one logarithmic unit (both operands the same unit and
    prefix). The values are C05's business; judged here: the clause 'for sums and differences the uncertainty is the sum
    of the operands' uncertainties' (that is what the code does for levels) and non-negativity. No model of the level
    arithmetic: only the specification side of the driver (sum rule) is used."""
    from scinumtools.units import Quantity
    cases = [("sub", "dBA", 87.0, 0.5, 83.0, 0.7), ("add", "dB", 30.0, 0.7, 20.0, 0.5), ("sub", "dB", [30.0, 40.0], 0.2, [20.0, 20.0], 0.3),
             ("sub", "Np", 3.0, None, 2.0, 0.7), ("sub", "dBm", 30.0, 0.7, 20.0, None), ("add", "dBV", 3.0, None, 2.0, None)]
    for _ in range(count):
        u = ctx.rng.choice(LOG_UNITS)
        hi = ctx.rng.choice([30.0, 87.0, 12.5, 3.0, [30.0, 40.0]])
        lo_ = [x - ctx.rng.choice([1.0, 4.0, 10.0]) for x in hi] if isinstance(hi, list) else hi - ctx.rng.choice([1.0, 4.0, 10.0])
        op = ctx.rng.choice(["add", "sub", "sub"])
        l, r = (hi, lo_) if op == "sub" or ctx.rng.random() < 0.5 else (lo_, hi)
        le = None if ctx.rng.random() < 0.2 else ctx.rng.choice([0.1, 0.2, 0.5, 0.7])
        re_ = None if ctx.rng.random() < 0.2 else ctx.rng.choice([0.1, 0.3, 0.5, 0.7, 1.0])
        cases.append((op, u, l, le, r, re_))
    reqs, imps, kept = [], [], []
    for op, u, lv, le, rv, re_ in cases:
        try:
            a = Quantity(list(lv) if isinstance(lv, list) else lv, u, abse=le)
            b = Quantity(list(rv) if isinstance(rv, list) else rv, u, abse=re_)
            sa, sb = U.state(a), U.state(b)
            res = a + b if op == "add" else a - b
            imp = {"v": U.fl(res.magnitude.value), "e": U.fl(res.magnitude.error)}
        except Exception:
            ctx.count("log.raised")
            continue
        if not (U.finite(imp["v"]) and U.finite(imp["e"])):
            ctx.count("log.nonfinite")
            continue
        kept.append({"op": op, "unit": u, "lv": lv, "le": le, "rv": rv, "re": re_})
        reqs.append({"k": "mag", "op": op, "l": {"v": sa["v"], "e": sa["e"]}, "r": {"v": sb["v"], "e": sb["e"]}})
        imps.append(imp)
    answers = U.ask_many(ctx, reqs)
    for c, imp, ans in zip(kept, imps, answers):
        ctx.count("log." + c["op"])
        ctx.count("log.unit." + c["unit"])
        if "ok" not in ans:
            ctx.disagreement("log", c, str(ans))
            continue
        ctx.case(json.dumps(c, sort_keys=True), c["le"] is not None or c["re"] is not None, {"level_case": c, "abse": imp["e"]})
        what = "Quantity(%r%s '%s') %s Quantity(%r%s '%s')" % (
            c["lv"], "" if c["le"] is None else "±%g" % c["le"], c["unit"], "+" if c["op"] == "add" else "-",
            c["rv"], "" if c["re"] is None else "±%g" % c["re"], c["unit"])
        check_rule(ctx, "Quantity.%s(levels)" % c["op"], c, imp["e"], ans["ok"]["spec"], what)


# ---------------------------------------------------------------- stream 5: Decimal magnitudes
DVALS = ["4", "-2.5", "0.5", "12", "-3", "7", "1000", "0.125", "-40", "2.5"]
DFACTORS = [("D", "-2"), ("D", "2"), ("D", "-0.5"), ("D", "3"), ("D", "-4"), ("float", -2.0), ("float", 2.0), ("int", -3), ("int", 2)]


def gen_dec_mag(rng, err_p=0.85):
    from decimal import Decimal as D
    v = rng.choice(DVALS)
    m = {"dv": v}
    k = rng.random()
    if k < err_p * 0.15:
        m["rele"] = rng.choice([1, 5, 10])
    elif k < err_p:
        m["dabse"] = str(abs(D(v)) * D(rng.choice(["0.01", "0.05", "0.1", "0.3"])))
    return m


def mk_dec(spec):
    from decimal import Decimal as D
    from scinumtools.units import Magnitude
    if "num" in spec:
        kind, x = spec["num"]
        return D(x) if kind == "D" else x
    return Magnitude(D(spec["dv"]), abse=(D(spec["dabse"]) if "dabse" in spec else None), rele=spec.get("rele"))


def dec_state(m):
    from scinumtools.units import Magnitude
    if not isinstance(m, Magnitude):
        return {"num": float(m)}
    return {"v": float(m.value), "e": None if m.error is None else float(m.error)}


DEC_CORPUS = [
    {"op": "mul", "l": {"dv": "4", "dabse": "0.05"}, "r": {"num": ["D", "-2"]}},
    {"op": "mul", "l": {"num": ["D", "-0.5"]}, "r": {"dv": "4", "dabse": "0.05"}},
    {"op": "div", "l": {"dv": "4", "dabse": "0.05"}, "r": {"num": ["D", "-2"]}},
    {"op": "mul", "l": {"dv": "4", "dabse": "0.05"}, "r": {"dv": "-2"}},
    {"op": "add", "l": {"dv": "10", "dabse": "0.2"}, "r": {"dv": "-8", "dabse": "0.10"}},
    {"op": "sub", "l": {"dv": "4", "dabse": "0.05"}, "r": {"num": ["float", -2.0]}},
    {"op": "mul", "l": {"dv": "4", "dabse": "0.05"}, "r": {"dv": "7", "dabse": "0.1"}},
    {"op": "div", "l": {"dv": "12", "dabse": "0.2"}, "r": {"dv": "4", "dabse": "0.1"}},
    {"op": "pow", "l": {"dv": "-2.5", "dabse": "0.25"}, "p": [-1, 1], "float": False},
    {"op": "neg", "l": {"dv": "-2.5", "rele": 10}},
    {"op": "mul", "l": {"dv": "4", "dabse": "0.05"}, "r": {"num": ["float", -2.0]}},   # Decimal error x float: TypeError today
]


def gen_dec_case(rng):
    r = rng.random()
    if r < 0.45:
        op = rng.choice(["add", "sub", "mul", "div", "mul", "div"])
        m = gen_dec_mag(rng, 0.95)
        f = {"num": list(rng.choice(DFACTORS))}
        return {"op": op, "l": m, "r": f} if rng.random() < 0.5 else {"op": op, "l": f, "r": m}
    if r < 0.8:
        op = rng.choice(["add", "sub", "mul", "div"])
        return {"op": op, "l": gen_dec_mag(rng), "r": gen_dec_mag(rng)}
    if r < 0.88:
        return {"op": "neg", "l": gen_dec_mag(rng, 0.95)}
    return {"op": "pow", "l": gen_dec_mag(rng, 0.95), "p": [rng.choice([2, 3, -1, -2]), 1], "float": False}


def decimal_stream(ctx, count):
    """Magnitudes whose value and error are decimal.Decimal (a documented input type), with Decimal / float / int exact
    factors of either sign. The model is the same (the Decimal branches of the code only wrap the operands in Decimal());
    results are compared through float() with the usual tolerance."""
    cases = [json.loads(json.dumps(c)) for c in DEC_CORPUS] + [gen_dec_case(ctx.rng) for _ in range(count)]
    kept, reqs, imps = [], [], []
    for c in cases:
        try:
            l = mk_dec(c["l"])
            r = mk_dec(c["r"]) if "r" in c else None
        except Exception:
            ctx.count("decimal.construction-failed")
            continue
        req = {"k": "mag", "op": c["op"], "l": dec_state(l)}
        if r is not None:
            req["r"] = dec_state(r)
        try:
            if c["op"] == "add":
                res = l + r
            elif c["op"] == "sub":
                res = l - r
            elif c["op"] == "mul":
                res = l * r
            elif c["op"] == "div":
                res = l / r
            elif c["op"] == "neg":
                res = -l
            else:
                req["p"] = [c["p"][0], 1]
                res = l ** c["p"][0]
            imp = U.mark_nonfinite({"v": U.fl(float(res.value)), "e": None if res.error is None else U.fl(float(res.error))})
        except TypeError:
            # Decimal combined with a float (e.g. a Decimal error times a float factor) is not supported by the
            # library today: it raises instead of returning a number; nothing to judge
            ctx.count("decimal.unsupported-mix(TypeError)")
            continue
        except Exception as ex:
            ctx.count("decimal.raised." + type(ex).__name__)
            continue
        kept.append(c)
        reqs.append(req)
        imps.append(imp)
    answers = U.ask_many(ctx, reqs)
    for c, req, imp, ans in zip(kept, reqs, imps, answers):
        judge_mag(ctx, c, req, imp, ans, stream="decimal")


# ---------------------------------------------------------------- stream 4: histories that reuse the same objects
# (op, i, j, plain number or None, exponent): array-valued and scalar operands used again and again
HISTORY_CORPUS = [
    {"quantity": False, "vals": [([10.0, 20.0], 0.5), ([1.0, 2.0], 0.1), (3.0, 0.3)],
     "steps": [("sub", 0, 1, None, 2), ("sub", 0, 1, None, 2), ("mul", 0, 0, 2.0, 2), ("add", 0, 1, None, 2),
               ("div", 0, 2, None, 2), ("sub", 2, 0, None, 2), ("add", 1, 1, None, 2)]},
    {"quantity": True, "vals": [([10.0, 20.0], 0.5), ([100.0, 200.0], 10.0), (3.0, 0.3)],
     "units": [U.U(("", "m", 1, 1)), U.U(("c", "m", 1, 1)), U.U(("", "m", 1, 1))],
     "steps": [("sub", 0, 1, None, 2), ("sub", 0, 1, None, 2), ("add", 0, 2, None, 2), ("mul", 0, 1, None, 2),
               ("sub", 0, 2, None, 2), ("div", 1, 0, None, 2), ("pow", 0, 0, None, 2)]},
    {"quantity": False, "vals": [(4.0, 0.01), (1.0, 0.005), ([2.0, -3.0], None)],
     "steps": [("sub", 0, 1, None, 2), ("add", 0, 1, None, 2), ("sub", 2, 0, None, 2), ("sub", 2, 0, None, 2),
               ("mul", 1, 2, None, 2), ("neg", 2, 0, None, 2)]},
]


def history_stream(ctx, count):
    """Every operand object is created ONCE and then used in several operations. Model and specification always get the
    state the operands were created with: an operation that changes its operand makes a later result (and the operand's
    own abse) drift away from the propagation rules. Magnitude histories here, Quantity histories in c06.qty_history."""
    pending, finals = [], []
    presets = [h for h in HISTORY_CORPUS if not h["quantity"]]
    for h in range(count // 2 + len(presets)):
        n = 3
        preset = presets[h] if h < len(presets) else None
        vals = preset["vals"] if preset else U.gen_pool_values(ctx.rng, n)
        steps = preset["steps"] if preset else U.gen_steps(ctx.rng, n, False)
        specs = [{"v": v} if e is None else {"v": v, "abse": e} for v, e in vals]
        objs = [mk_mag(sp) for sp in specs]
        snaps = [mag_state(o) for o in objs]
        done = []
        for op, i, j, num, p in steps:
            c = {"op": op, "l": specs[i], "pool": specs, "history": list(done)}
            req = {"k": "mag", "op": op, "l": snaps[i]}
            l, r = objs[i], None
            if op in ("add", "sub", "mul", "div"):
                if num is not None:
                    c["r"], req["r"], r = {"num": num}, {"num": num}, num
                else:
                    c["r"], req["r"], r = specs[j], snaps[j], objs[j]
                    if i == j:
                        c["same"] = True
            elif op == "pow":
                c["p"], c["float"] = [p, 1], False
            imp = apply_mag_op(c, l, r, req)
            done.append(U.step_text(op, i, j, num, p))
            pending.append((c, req, imp))
        for k in range(n):
            finals.append(("x%d = Magnitude(%s)" % (k, json.dumps(specs[k])), snaps[k], mag_state(objs[k]), done, specs))
    answers = U.ask_many(ctx, [r for _, r, _ in pending])
    for (c, req, imp), ans in zip(pending, answers):
        judge_mag(ctx, c, req, imp, ans, stream="history.mag")
    for text, snap, now, done, specs in finals:
        ctx.count("history.operands-rechecked")
        if not U.same_state(snap, now):
            ctx.violation("history:operand-uncertainty-changed:Magnitude",
                          "%s carries value %s abse %s after the operations [%s]; it was created with value %s abse %s, so "
                          "every later result propagates a wrong uncertainty" %
                          (text, now.get("v"), now.get("e"), "; ".join(done), snap.get("v"), snap.get("e")),
                          {"pool": specs, "steps": done, "created": snap, "now": now})
    U.qty_history(ctx, count - count // 2, lambda ctx, c, req, imp, ans: judge_qty(ctx, c, req, imp, ans, stream="history.qty"),
                  [h for h in HISTORY_CORPUS if h["quantity"]], "history:operand-uncertainty-changed:Quantity")


def correspond(ctx: Ctx):
    import warnings
    warnings.simplefilter("ignore", RuntimeWarning)      # numpy's divide-by-zero / overflow notices (such cases are not judged)
    th = ctx.tier == "thorough"
    mag_stream(ctx, 12000 if th else 2500)
    to_stream(ctx, 6000 if th else 1200)
    qty_stream(ctx, 5000 if th else 1000)
    history_stream(ctx, 1500 if th else 300)
    decimal_stream(ctx, 2500 if th else 500)
    log_stream(ctx, 1000 if th else 200)


def replay(ctx, payload):
    print(json.dumps(payload, indent=1, default=str)[:3000])
    print("replay: re-running the full check")
    from harness import core
    import sys
    return core._check(ctx, sys.modules[__name__])
