"""C10 — molecular formula decomposition: translator (periodic table), correspondence (impl vs Lean model of
Element / preprocess / solver / Composite) and oracle (impl vs the expansion of the formula AST and the table)."""
import json
import warnings
warnings.filterwarnings("ignore", category=SyntaxWarning)
import math
from fractions import Fraction

from harness.core import Ctx, VERIF
from harness.util import rel_close
from harness.props import c10_tables
from harness.props import c11 as C11

RULE = ("(1) species: all 118 symbols bare (natural and most-abundant), every tabulated isotope X{A}, random charges "
        "X{+q}/X{-q}/X{A+q}, nucleons, D/T, plus malformed species strings; (2) formulas: random ASTs (species | count | "
        "group | juxtaposition with optional blanks | explicit ' + ' | trailing explicit ' * n'), nesting <= 5 quick / "
        "<= 10 thorough, biased to 'multiplied group directly followed by a group', rendered by the Lean model, both "
        "isotope modes; (3) preprocess scanners vs the real regexes on rendered and mutated / random strings; "
        "(4) Substance + Substance and Substance * n; (5) reads are pure (a table of selected components and str() before the full table); Element + / * / += / *= keep the per-atom data in both isotope modes; (6) histories: a parsed substance grown with add(), later parses of formulas with the same species, + Element of a present / new species, sums, products, add() on a sum — every live object re-read after every step (counts, count column, sum row, composite_mass / component_mass / proportion_norm against the count-weighted sums of its own per-species rows); corpus first. non-trivial = formula with a group and a repeated "
        "species, or species with isotope/charge; distinct = the rendered text + mode")
ASSUMPTIONS = [
    "documented notation = species (symbol, optional {A}, {+q}, {A+q}; D, T bare or with a full {A+q}; [p] [n] [e]), integer counts >= 1, "
    "parenthesised groups with optional count, juxtaposition with optional blanks, explicit ' + ' between terms, explicit ' * n' only at the end of a term",
    "natural mode is judged only for elements that have a natural abundance (the code raises otherwise, as the property presupposes the mean exists)",
    "isotope 0 / leading zeros / charge-only suffix on D,T / underscores in numbers are outside the domain (model mirrors the code where it can; only impl-vs-model is compared there)",
    "whitespace = ASCII blanks; floats compared with relative tolerance 1e-9 to exact rational arithmetic over the table values",
    "the regex -> scanner step of preprocess is validated by correspondence on every run, not proved; differences between code and model on malformed / mutated / random text (outside the documented notation) are counted and noted, they never fail the check",
    "relative tolerance 1e-9 everywhere: all compared quantities are sums/products/quotients of positive terms (no cancellation); exact zeros (e of a bare nucleus, N of H{1}) are exact in both",
]
EXPLANATION = ("theorems: Composite add/_add/_multiply evaluate every formula AST to exactly its expansion (all ASTs, any semiring); "
               "get_isotope returns N=A-Z, e=Z+q, mass=M+q*m_e for every well-formed table (well-formedness of the regenerated table by "
               "decide +kernel); natural = abundance-weighted mean, abundant = first maximum; totals = count-weighted sums; add/mul laws")
EXTRA_OBLIGATIONS = ["SciVerif.C10.Facts.table_wellformed", "SciVerif.C10.Facts.table_isotopes_found"]

gen_tables = c10_tables.gen_tables
close = C11.close
uf = C11.unfrac


# ------------------------------------------------------------------ live table: symbol / isotope lists for the generators only
# (the numerical specification is computed by the Lean driver: Model/C10Spec.lean)
class Table:
    def __init__(self):
        rows, me, nuc = c10_tables.extract()
        self.rows = {s: (z, isos) for s, z, isos in rows}
        self.order = [s for s, _, _ in rows]
        self.natural = [s for s in self.order if sum(i[2] for i in self.rows[s][1]) > 0]


def sp_text(sym, iso, q):
    if iso is None and q == 0:
        return sym
    s = "" if iso is None else str(iso)
    if q:
        s += ("+" if q > 0 else "-") + (str(abs(q)) if abs(q) != 1 or ((len(sym) + (iso or 0)) & 1) else "")
    return "%s{%s}" % (sym, s)


def desc_of_text(txt):
    """species text of the documented notation -> descriptor for the Lean specification"""
    if txt in ("[p]", "[n]", "[e]"):
        return ["nucleon", txt[1]]
    sym, _, suf = txt.partition("{")
    iso, q = None, 0
    if suf:
        suf = suf[:-1]
        i = 0
        while i < len(suf) and suf[i].isdigit():
            i += 1
        if i:
            iso = int(suf[:i])
        if i < len(suf):
            d = suf[i + 1:]
            q = (1 if suf[i] == '+' else -1) * (int(d) if d else 1)
    if sym in ("D", "T"):
        sym, iso = "H", (2 if sym == "D" else 3)
    return ["iso", sym, iso, q] if iso is not None else ["unspec", sym, q]


def species_in(ast):
    if ast[0] == "sp":
        return {ast[1]}
    out = set()
    for x in ast[1:]:
        if isinstance(x, list):
            out |= species_in(x)
    return out


# ------------------------------------------------------------------ real code
def impl_element(s, natural):
    from scinumtools.materials import Element
    try:
        e = Element(s, natural=natural)
        return {"element": e.element, "mass": float(e.mass.value('Da')), "Z": float(e.Z), "N": float(e.N),
                "e": float(e.e), "isotope": float(e.isotope), "ionisation": int(e.ionisation)}
    except Exception as ex:  # noqa
        return "err"


def impl_substance(s, natural, tables=True):
    from scinumtools.materials import Substance
    try:
        sub = Substance(s, natural=natural)
        comps = [[k, float(v.proportion)] for k, v in sub.components.items()]
    except Exception as ex:  # noqa
        return "err"
    out = {"components": comps}
    if comps and tables:
        try:
            if len(comps) >= 2:
                # reads are pure: a table of SELECTED components, str() and the component table first ...
                part = sub.data_composite(components=[comps[-1][0]], quantity=False)
                out["partial"] = {"keys": [k for k in part.keys() if k not in ("avg", "sum")],
                                  "mass": float(part[comps[-1][0]].mass), "sum_mass": float(part['sum'].mass)}
                str(sub)
            dc = sub.data_components(quantity=False)
            dd = sub.data_composite(quantity=False)          # ... then the full table
            out["rows"] = [{"element": dc[k].element, "mass": float(dc[k].mass), "Z": float(dc[k].Z), "N": float(dc[k].N),
                            "e": float(dc[k].e), "count": float(dc[k]['count']), "isotope": float(dc[k].isotope),
                            "ionisation": int(dc[k].ionisation)} for k, _ in comps]
            out["sum"] = {c: float(dd['sum'][c]) for c in ("mass", "Z", "N", "e")}
        except Exception as ex:  # noqa
            return "err"     # a parsed in-domain substance must be able to report its tables
    return out


def impl_preprocess(s):
    from scinumtools.materials import Substance, SubstanceSolver
    try:
        with SubstanceSolver(Substance().atom) as ms:
            return ms.preprocess(s)
    except Exception:  # noqa
        return "err"


# ------------------------------------------------------------------ generators
def gen_species(rng, tbl, natural):
    r = rng.random()
    if r < 0.04:
        return rng.choice(["[p]", "[n]", "[e]"])
    if r < 0.08:
        return rng.choice(["D", "T"])
    sym = rng.choice(tbl.natural if natural else tbl.order) if rng.random() < 0.6 else \
        rng.choice(["H", "C", "N", "O", "Na", "Cl", "S", "Ca", "Fe", "Cu", "Co", "Si", "Al"])
    iso, q = None, 0
    r = rng.random()
    if r < 0.2 or (natural and sym not in tbl.natural):
        iso = rng.choice(tbl.rows[sym][1])[0]
    if rng.random() < 0.2:
        q = rng.choice([1, -1, 2, -2, 3, -3, 12])
    return sp_text(sym, iso, q)


def gen_item(rng, tbl, natural, depth, pool):
    """species | species count | group | group count"""
    r = rng.random()
    if depth > 0 and r < 0.3:
        inner = gen_term(rng, tbl, natural, depth - 1, pool, inside=True)
        f = ["group", inner]
    else:
        s = rng.choice(pool) if pool and rng.random() < 0.5 else gen_species(rng, tbl, natural)
        pool.append(s)
        f = ["sp", s]
    if rng.random() < (0.55 if f[0] == "group" else 0.4):
        f = ["count", f, rng.choice([2, 2, 3, 3, 4, 5, 6, 10, 12])]
    return f


def gen_chain(rng, tbl, natural, depth, pool):
    n = rng.choice([1, 1, 2, 2, 3]) if depth > 1 else rng.choice([1, 2, 2, 3, 3, 4])
    items = [gen_item(rng, tbl, natural, depth if rng.random() < 0.5 else max(depth - 2, 0), pool) for _ in range(n)]
    if rng.random() < (0.35 if depth <= 2 else 0.15) and depth > 0:
        # the shape of the recon defect: multiplied group directly followed by a group
        a = ["count", ["group", gen_term(rng, tbl, natural, depth - 1, pool, inside=True)], rng.choice([2, 3])]
        b = ["group", gen_term(rng, tbl, natural, depth - 1, pool, inside=True)]
        if rng.random() < 0.6:
            b = ["count", b, rng.choice([2, 3, 4])]
        k = rng.randrange(len(items) + 1)
        items[k:k] = [a, b]
    if rng.random() < 0.08:
        last = items[-1]
        if last[0] == "count":
            last = last[1]
        items[-1] = ["mulx", last, rng.choice([2, 3, 7])]
    f = items[0]
    for it in items[1:]:
        ws = 0 if rng.random() < 0.7 else rng.choice([1, 1, 2])
        f = ["seq", ws, f, it]
    return f


def gen_term(rng, tbl, natural, depth, pool, inside=False):
    f = gen_chain(rng, tbl, natural, depth, pool)
    while rng.random() < 0.12:
        f = ["plus", f, gen_chain(rng, tbl, natural, depth, pool)]
    return f


def deep_ast(rng, tbl, natural, d, pool):
    """a narrow formula of nesting depth exactly d (every level: one or two items around a counted group)"""
    f = gen_item(rng, tbl, natural, 0, pool)
    for level in range(d):
        g = ["group", f if rng.random() < 0.4 else ["seq", rng.choice([0, 0, 1]), gen_item(rng, tbl, natural, 0, pool), f]]
        if rng.random() < 0.7:
            g = ["count", g, rng.choice([2, 3, 4, 12])]
        f = g if rng.random() < 0.4 else ["seq", rng.choice([0, 0, 1]), g, gen_item(rng, tbl, natural, 0, pool)] \
            if rng.random() < 0.6 else ["seq", 0, gen_item(rng, tbl, natural, 0, pool), g]
    return f


def size_of(f):
    return 1 + sum(size_of(x) for x in f[1:] if isinstance(x, list))


def depth_of(f):
    if f[0] == "sp":
        return 0
    if f[0] in ("count", "mulx"):
        return depth_of(f[1])
    if f[0] == "group":
        return 1 + depth_of(f[1])
    if f[0] == "seq":
        return max(depth_of(f[2]), depth_of(f[3]))
    return max(depth_of(f[1]), depth_of(f[2]))


def has_group(f):
    return f[0] == "group" or any(has_group(x) for x in f[1:] if isinstance(x, list))


ALPHABET = "ABCHNOaelr()[]{}+-*0123456789 pne, "


def mutate(rng, s):
    s = list(s)
    for _ in range(rng.choice([1, 1, 2, 3])):
        r = rng.random()
        i = rng.randrange(len(s) + 1)
        if r < 0.4 and s:
            del s[min(i, len(s) - 1)]
        elif r < 0.8:
            s.insert(i, rng.choice(ALPHABET))
        elif len(s) > 1:
            j = min(i, len(s) - 2)
            s[j], s[j + 1] = s[j + 1], s[j]
    return "".join(s)


# ------------------------------------------------------------------ streams
def out_of_domain(ctx, stream, text, detail):
    """impl != model on an input OUTSIDE the property's domain (malformed / random text): recorded, never a failure"""
    ctx.count("out_of_domain_difference.%s" % stream)
    if sum(1 for x in ctx.notes if x.startswith("out-of-domain")) < 5:
        ctx.notes.append("out-of-domain impl/model difference [%s] %r: %s" % (stream, text, detail[:200]))


def element_stream(ctx, tbl, n_random):
    cases = []
    for sym in tbl.order:
        cases.append((sym, False, True))
        cases.append((sym, True, sym in tbl.natural))
        for a, _, _ in tbl.rows[sym][1]:
            cases.append(("%s{%d}" % (sym, a), ctx.rng.random() < 0.5, True))
    for s in ["[p]", "[n]", "[e]", "D", "T", "D{2-2}", "T{3+1}", "H{1-1}", "C{12-}", "C{+}", "O{17-2}", "C{13+2}"]:
        cases.append((s, True, True))
        cases.append((s, False, True))
    for _ in range(n_random):
        natural = ctx.rng.random() < 0.5
        cases.append((gen_species(ctx.rng, tbl, natural), natural, True))
    # malformed / out-of-domain species: impl vs model only
    bad = ["", "c", "Xx", "Cax", "C{13", "C{0}", "C{012}", "C{99}", "C{+0}", "O{16-02}", "D{-}", "D{+2}", "T{3}", "[n]x", "[x]", "{12}",
           "1H", "C{1a}", "C{}", "C{+-}", "Tc", "Og", "H{3}", "He{3+}", "c{12}", "CO", "Cl2", " C"]
    for _ in range(n_random // 2):
        bad.append(mutate(ctx.rng, gen_species(ctx.rng, tbl, True)))
    for s in bad:
        cases.append((s, ctx.rng.random() < 0.5, False))
    res = ctx.driver.ask_many([{"k": "element", "s": s, "natural": nat, "sp": desc_of_text(s) if judged else None}
                               for s, nat, judged in cases])
    for (s, nat, judged), r in zip(cases, res):
        imp = impl_element(s, nat)
        ctx.case(["element", s, nat], judged and "{" in s, {"element": s, "natural": nat} if "{" in s and "+" in s else None)
        ctx.count("element.%s" % ("judged" if judged else "malformed"))
        m = r.get("ok", {}).get("model", "driver-error")
        sp = r.get("ok", {}).get("spec")
        if judged and not isinstance(sp, dict):
            ctx.disagreement("element-spec", {"s": s, "natural": nat}, "the Lean specification is undefined for an in-domain species: %s" % (sp,))
        if judged and isinstance(sp, dict):
            ctx.count("element.judged_by_lean_spec")
            if imp == "err":
                ctx.violation("species:error", "Element(%r, natural=%s) raises" % (s, nat), {"stream": "element", "s": s, "natural": nat})
                continue
            for name in ("mass", "Z", "N", "e"):
                v = uf(sp[name])
                if not close(imp[name], v):
                    ctx.violation("species:%s" % name,
                                  "Element(%r, natural=%s).%s = %r, table says %r" % (s, nat, name, imp[name], float(v)),
                                  {"stream": "element", "s": s, "natural": nat, "impl": imp})
                    break
        same = (imp == "err" and m == "err") or (
            isinstance(imp, dict) and isinstance(m, dict) and imp["element"] == m["element"] and
            imp["ionisation"] == m["ionisation"] and
            all(close(imp[k], uf(m[k])) for k in ("mass", "Z", "N", "e", "isotope")))
        if not same and judged:
            ctx.disagreement("element", {"s": s, "natural": nat}, "impl %s model %s" % (imp, json.dumps(m)[:300]))
        elif not same:
            out_of_domain(ctx, "element", s, "impl %s model %s" % (imp, json.dumps(m)[:120]))


def judge_formula(ctx, tbl, ast, natural, r, report=True):
    """returns (violation or None, disagreement or None)"""
    if "ok" not in r:
        return None, ("driver", "driver error %s" % r)
    r = r["ok"]
    txt = r["text"]
    imp = impl_substance(txt, natural)
    exp = {k: n for k, n in r["expand"]}
    replay = {"stream": "formula", "text": txt, "natural": natural, "ast": ast, "expand": exp, "impl": imp}
    viol = None
    if imp == "err":
        viol = ("formula:error:%s" % shape_of(txt), "Substance(%r) raises; the formula expands to %s" % (txt, exp))
    else:
        got = {k: v for k, v in imp["components"]}
        if set(got) != set(exp) or any(not close(got[k], exp[k]) for k in exp):
            viol = ("formula:counts:%s" % shape_of(txt), "Substance(%r) has counts %s, the formula expands to %s" % (txt, got, exp))
        else:
            # per-species data against the table, totals = count-weighted sums of the reported per-species data
            part = imp.get("partial")
            if part and (part["keys"] != [imp["components"][-1][0]] or not close(part["sum_mass"], part["mass"])):
                viol = ("formula:selection", "data_composite(components=[%r]) of Substance(%r) lists %s, row mass %r, sum row %r" %
                        (imp["components"][-1][0], txt, part["keys"], part["mass"], part["sum_mass"]))
            spec = r["spec"]
            if not isinstance(spec, dict):
                return None, ("formula-spec", "the Lean specification is undefined for %r" % txt, replay)
            if isinstance(spec, dict):
                ctx.count("formula.judged_by_lean_spec")
                srows = {row["expr"]: row for row in spec["rows"]}
                for (k, cnt), row in zip(imp["components"], imp["rows"]):
                    for name in ("mass", "Z", "N", "e"):
                        v = uf(srows[k]["data"][name])
                        if viol is None and not close(row[name], v):
                            viol = ("formula:species:%s" % name, "in Substance(%r) species %s has %s = %r, table says %r" % (txt, k, name, row[name], float(v)))
                    if viol is None and not close(row["count"], exp[k]):
                        viol = ("formula:count_column", "data_components count of %s in %r is %r, expected %r" % (k, txt, row["count"], exp[k]))
                for name in ("mass", "Z", "N", "e"):
                    tot = uf(spec["sum"][name])
                    if viol is None and not close(imp["sum"][name], tot):
                        viol = ("formula:totals:%s" % name, "Substance(%r) total %s = %r, count-weighted sum of the species data = %r" %
                                (txt, name, imp["sum"][name], float(tot)))
    # the same formula in the explicit documented notation (C10_counts_explicit_text_partial)
    if viol is None and r.get("wf") and (len(txt) % 5) < 2:
        ctx.count("formula.explicit_text_checked")
        imp2 = impl_substance(r["explicit"], natural, tables=False)
        got2 = None if imp2 == "err" else {k: v for k, v in imp2["components"]}
        if got2 is None or set(got2) != set(exp) or any(not close(got2[k], exp[k]) for k in exp):
            viol = ("formula:counts:explicit-notation", "Substance(%r) (explicit notation of %r) has counts %s, the formula expands to %s" %
                    (r["explicit"], txt, got2, exp))
    # correspondence with the model pipeline and with the AST-level evaluation
    m = r["model"]
    dis = None
    if r.get("wf") and not r.get("preprocess_ok"):
        dis = ("preprocess-statement", "C10_preprocess_statement fails in the model: preprocess(%r) != %r" % (txt, r.get("explicit")))
    elif r.get("wf") and impl_preprocess(txt) != r.get("explicit"):
        dis = ("preprocess-explicit", "real preprocess(%r) = %r, explicit text of the formula %r" % (txt, impl_preprocess(txt), r.get("explicit")))
    elif [[k, uf(v)] for k, v in r["evalF"]] != [[k, Fraction(n)] for k, n in r["expand"]]:
        dis = ("evalF", "AST evaluation %s differs from expansion %s" % (r["evalF"], r["expand"]))
    elif (imp == "err") != (m == "err"):
        dis = ("formula", "impl %s, model %s" % ("raises" if imp == "err" else imp["components"], json.dumps(m)[:200]))
    elif imp != "err":
        mc = [[c["expr"], uf(c["count"])] for c in m["components"]]
        if [k for k, _ in mc] != [k for k, _ in imp["components"]] or any(not close(a[1], b[1]) for a, b in zip(imp["components"], mc)):
            dis = ("formula", "impl components %s, model %s" % (imp["components"], [[k, float(v)] for k, v in mc]))
        elif imp["components"] and any(not close(imp["sum"][c], uf(m["sum"][c])) for c in ("mass", "Z", "N", "e")):
            dis = ("formula", "impl sum %s, model %s" % (imp["sum"], {c: float(uf(m["sum"][c])) for c in m["sum"]}))
    return (viol + (replay,) if viol else None), (dis + (replay,) if dis else None)


def formula_request(ast, natural):
    return {"k": "formula", "ast": ast, "natural": natural, "species": {t: desc_of_text(t) for t in species_in(ast)}}


def shape_of(txt):
    """coarse class of a failing formula text (stable signature)"""
    import re
    if re.search(r"\)[0-9]+\s*\(", txt):
        return "group-count-group"
    if re.search(r"\)\s*\(", txt):
        return "group-group"
    if " * " in txt:
        return "explicit-mul"
    if " + " in txt:
        return "explicit-add"
    if "(" in txt:
        return "group"
    return "flat"


def formula_stream(ctx, tbl, count, maxdepth):
    cases = []
    for c in corpus_asts():
        cases.append((c["ast"], c.get("natural", True)))
    for _ in range(count):
        natural = ctx.rng.random() < 0.5
        d = ctx.rng.randint(0, maxdepth)
        ast = gen_term(ctx.rng, tbl, natural, d, [])
        while ctx.tier != "thorough" and size_of(ast) > 70:      # quick tier: keep every depth, skip the giants
            ast = gen_term(ctx.rng, tbl, natural, d, [])
        cases.append((ast, natural))
    for d in range(3, maxdepth + 1):          # every nesting depth is represented in every run
        for _ in range(6):
            natural = ctx.rng.random() < 0.5
            cases.append((deep_ast(ctx.rng, tbl, natural, d, []), natural))
    res = ctx.driver.ask_many([formula_request(a, n) for a, n in cases])
    texts = []
    for (ast, natural), r in zip(cases, res):
        viol, dis = judge_formula(ctx, tbl, ast, natural, r)
        txt = r.get("ok", {}).get("text", "?")
        texts.append(txt)
        exp = r.get("ok", {}).get("expand", [])
        nontriv = has_group(ast) and any(n > 1 for _, n in exp)
        ctx.case(["formula", txt, natural], nontriv, {"formula": txt, "natural": natural} if nontriv else None)
        ctx.count("formula.depth.%d" % depth_of(ast))
        ctx.count("formula.shape.%s" % shape_of(txt))
        ctx.count("formula.wf.%s" % r.get("ok", {}).get("wf"))
        if viol:
            ctx.violation(viol[0], viol[1], viol[2])
        if dis:
            ctx.disagreement(dis[0], dis[2], dis[1])
    return texts


def preprocess_stream(ctx, texts, n_random):
    """scanners vs the real regexes. In-domain texts (rendered formulas, the documented examples) tie the model:
    a difference there is a disagreement. Mutated and random strings are outside the domain: a difference is noted only."""
    documented = ["C2B4", "C2 B4", "C{13+2}B{11}H{-}2", "(CB2)2", "((CB2)2Al)3", "C{13+2}(B{11}Li2)4 H{-}2 O{+3}",
                  "(C + B * 2) * 2", "C{13+2} + (B{11} + Li * 2)4", "(OH)2(CH3)3", "Cu(NO3)2(H2O)3", "(OH)2 (CH3)3",
                  "COHNaCl", "[p]2[n]", "[p] [e]3"]
    indomain = list(texts) + documented
    outside = ["", "()", "(", ")", "A)2(", "a1B2", "H 2", "(A) 2", "A(B)2 (C)3 D", ")2 3(", "A  (  B  )  2"]
    for t in texts[: max(50, n_random)]:
        outside.append(mutate(ctx.rng, t))
    for _ in range(n_random):
        outside.append("".join(ctx.rng.choice(ALPHABET) for _ in range(ctx.rng.randint(1, 14))))
    strs = indomain + outside
    res = ctx.driver.ask_many([{"k": "preprocess", "s": s} for s in strs])
    for k, (s, r) in enumerate(zip(strs, res)):
        imp = impl_preprocess(s)
        ctx.case(["preprocess", s], False)
        ctx.count("preprocess.%s" % ("in-domain" if k < len(indomain) else "out-of-domain"))
        if "ok" not in r or imp != r["ok"][3]:
            if k < len(indomain):
                ctx.disagreement("preprocess", {"s": s}, "regex %r, scanners %r" % (imp, r.get("ok", r)))
            else:
                out_of_domain(ctx, "preprocess", s, "regex %r, scanners %r" % (imp, r.get("ok", r)))


def malformed_stream(ctx, texts, n):
    strs = ["2", "2 * H", "H * 2.5", "H + 2", "H * O", "(H", "H)", "(H,O)", "H * 1e2", "H * 2 * 3", "(2 * 3)", "O * 2H", "O * 2 H", "()", "( )",
            "H  +  O", "H +O", " H2O ", "H2O + ", " + H", "H * ", "H{1}{2}", "Hx2", "(H)(O)(N)2", "((((H))))", "H,O"]
    for t in texts[:n]:
        strs.append(mutate(ctx.rng, t))
    res = ctx.driver.ask_many([{"k": "substance", "s": s, "natural": False} for s in strs])
    for s, r in zip(strs, res):
        imp = impl_substance(s, False, tables=False)
        ctx.case(["malformed", s], False)
        ctx.count("malformed.%s" % ("err" if imp == "err" else "ok"))
        m = r.get("ok", "driver-error")
        same = (imp == "err" and m == "err")
        if imp != "err" and isinstance(m, dict):
            mc = [[c["expr"], uf(c["count"])] for c in m["components"]]
            same = [k for k, _ in mc] == [k for k, _ in imp["components"]] and all(close(a[1], b[1]) for a, b in zip(imp["components"], mc))
        if not same:
            out_of_domain(ctx, "malformed", s, "impl %s model %s" % (imp if imp == "err" else imp["components"], json.dumps(m)[:200]))


def addmul_stream(ctx, tbl, n):
    from scinumtools.materials import Substance
    pool = ["H2O", "NaCl", "Ca(OH)2", "C2H5OH", "O{17-1}3", "(OH)2(CH3)3", "D2O", "[p]B{11}", "H", "CH4", "Fe2O3"]
    for _ in range(n):
        a, b = ctx.rng.choice(pool), ctx.rng.choice(pool)
        k = ctx.rng.choice([2, 3, 5, 10, 0.5, 2.5])
        ctx.case(["addmul", a, b, k], a != b)
        ctx.count("addmul")
        try:
            sa, sb = Substance(a, natural=False), Substance(b, natural=False)
            ca = {x: float(v.proportion) for x, v in sa.components.items()}
            cb = {x: float(v.proportion) for x, v in sb.components.items()}
            ssum = {x: float(v.proportion) for x, v in (sa + sb).components.items()}
            smul = {x: float(v.proportion) for x, v in (sa * k).components.items()}
            tot = (sa + sb).data_composite(quantity=False)['sum'].mass
            tots = sa.data_composite(quantity=False)['sum'].mass + sb.data_composite(quantity=False)['sum'].mass
        except Exception as e:  # noqa
            ctx.violation("addmul:error", "Substance(%r) + Substance(%r) or * %r raises %r" % (a, b, k, e), {"stream": "addmul", "a": a, "b": b, "k": k})
            continue
        want = dict(ca)
        for x, v in cb.items():
            want[x] = want.get(x, 0.0) + v
        if set(ssum) != set(want) or any(not close(ssum[x], want[x]) for x in want) or not close(tot, tots):
            ctx.violation("addmul:add", "Substance(%r) + Substance(%r) has counts %s, expected %s" % (a, b, ssum, want), {"stream": "addmul", "a": a, "b": b})
        wantm = {x: v * k for x, v in ca.items()}
        if set(smul) != set(wantm) or any(not close(smul[x], wantm[x]) for x in wantm):
            ctx.violation("addmul:mul", "Substance(%r) * %r has counts %s, expected %s" % (a, k, smul, wantm), {"stream": "addmul", "a": a, "k": k})


def counts_of(sub):
    return {k: float(v.proportion) for k, v in sub.components.items()}


def totals_of(sub):
    """(what the object says its totals are, the count-weighted sums of its own per-species data)"""
    dc = sub.data_components(quantity=False)
    dd = sub.data_composite(quantity=False)
    keys = list(sub.components.keys())
    want = {c: math.fsum(float(dc[k]['count']) * float(dc[k][c]) for k in keys) for c in ("mass", "Z", "N", "e")}
    got = {c: float(dd['sum'][c]) for c in ("mass", "Z", "N", "e")}
    got["composite_mass"] = float(sub.composite_mass.value('Da'))
    got["component_mass"] = float(sub.component_mass.value('Da'))
    got["proportion_norm"] = float(sub.proportion_norm)
    want["composite_mass"] = want["component_mass"] = want["mass"]
    want["proportion_norm"] = math.fsum(float(dc[k]['count']) for k in keys)
    cnt = {k: float(dc[k]['count']) for k in keys}
    return got, want, cnt


def same_counts(a, b):
    return set(a) == set(b) and all(close(a[k], b[k]) for k in b)


def history_steps(sym, other, natural, k1, k2):
    """(step name, driver op, action on the list of real objects) — own scope, no late binding"""
    from scinumtools.materials import Substance, Element
    f2 = "%s2%s" % (sym, other)
    one = C11.frac
    return [
        ("parse", ["new", [[sym, one(1)]]], lambda L: L.append(Substance(sym, natural=natural))),
        ("add", ["add", 0, sym, one(k1)], lambda L: L[0].add(sym, k1)),
        ("add", ["add", 0, other, one(k2)], lambda L: L[0].add(other, k2)),
        ("later-parse", ["new", [[sym, one(2)], [other, one(1)]]], lambda L: L.append(Substance(f2, natural=natural))),
        ("add-element", ["pluselem", 1, sym, one(k1)], lambda L: L.append(L[1] + Element(sym, k1, natural=natural))),
        ("add-element", ["pluselem", 1, "Xe", one(k2)], lambda L: L.append(L[1] + Element("Xe", k2, natural=natural))),
        ("sum", ["plus", 0, 1], lambda L: L.append(L[0] + L[1])),
        ("product", ["mul", 4, one(k2)], lambda L: L.append(L[4] * k2)),
        ("add-after-sum", ["add", 4, other, one(1)], lambda L: L[4].add(other, 1)),
        ("reparse", ["new", [[sym, one(2)], [other, one(1)]]], lambda L: L.append(Substance(f2, natural=natural))),
        # chained sums with overlapping and disjoint species, product of a sum
        ("chained-sum", ["plus", 4, 2], lambda L: L.append(L[4] + L[2])),
        ("chained-sum", ["plus", 7, 3], lambda L: L.append(L[7] + L[3])),
        ("product-of-sum", ["mul", 8, one(k1 + 0.5)], lambda L: L.append(L[8] * (k1 + 0.5))),
        ("add-after-chain", ["add", 8, "Xe", one(k2)], lambda L: L[8].add("Xe", k2)),
        # augmented assignment is the same addition / multiplication: a new value, operands untouched
        ("iadd", ["plus", 1, 0], lambda L: L.append(iadd(L[1], L[0]))),
        ("imul", ["mul", 1, one(k2)], lambda L: L.append(imul(L[1], k2))),
    ]


def iadd(a, b):
    a += b
    return a


def imul(a, k):
    a *= k
    return a


def element_ops(ctx, sym, natural, k1, k2):
    """Element + Element (same species) and Element * k act on the count"""
    from scinumtools.materials import Element
    try:
        e1, e2 = Element(sym, k1, natural=natural), Element(sym, k2, natural=natural)
        e3 = iadd(Element(sym, k1, natural=natural), e2)
        e4 = imul(Element(sym, k1, natural=natural), 3)
        got = [float((e1 + e2).proportion), float((e1 * 3).proportion), float(e1.proportion), float(e2.proportion),
               float(e3.proportion), float(e4.proportion)]
    except Exception as e:  # noqa
        ctx.violation("history:element-error", "Element(%r,%r) + Element(%r,%r) raises %r" % (sym, k1, sym, k2, e),
                      {"stream": "element-ops", "sym": sym, "natural": natural})
        return
    want = [float(k1 + k2), float(3 * k1), float(k1), float(k2), float(k1 + k2), float(3 * k1)]
    try:
        for name, r in (("e1 + e2", e1 + e2), ("e1 * 3", e1 * 3), ("e1 += e2", e3), ("e1 *= 3", e4)):
            for col in ("mass", "Z", "N", "e"):
                a = getattr(r, col)
                b = getattr(e1, col)
                a = float(a.value('Da')) if col == "mass" else float(a)
                b = float(b.value('Da')) if col == "mass" else float(b)
                if not close(a, b):
                    ctx.violation("history:element-data", "%s of Element(%r, natural=%s): per-atom %s is %r, the operand has %r" %
                                  (name, sym, natural, col, a, b),
                                  {"stream": "element-ops", "sym": sym, "natural": natural, "k1": k1, "k2": k2})
                    return
    except Exception as e:  # noqa
        ctx.violation("history:element-error", "reading the result of Element arithmetic on %r raises %r" % (sym, e),
                      {"stream": "element-ops", "sym": sym, "natural": natural})
        return
    if any(not close(a, b) for a, b in zip(got, want)):
        ctx.violation("history:element-ops", "Element(%r,%r)+Element(%r,%r), *3 and the operands have counts %s, expected %s" %
                      (sym, k1, sym, k2, got, want), {"stream": "element-ops", "sym": sym, "natural": natural, "k1": k1, "k2": k2})


def history_stream(ctx, tbl, n):
    """objects are built step by step and combined; every live object is re-read after every step and compared
    with the value semantics computed by the Lean driver (operands are never changed, earlier work never
    influences a later parse)"""
    from scinumtools.materials import Substance, Element
    common = ["H", "O", "C", "N", "Na", "Cl", "Ca", "Fe", "S", "Cu", "H{1}", "O{16}", "C{12}", "D", "[p]"]
    plans = []
    for i in range(n):
        natural = ctx.rng.random() < 0.5
        sym = common[i % len(common)] if i < 2 * len(common) else gen_species(ctx.rng, tbl, natural)
        other = ctx.rng.choice([c for c in common if c != sym])
        k1, k2 = ctx.rng.choice([1, 2, 3]), ctx.rng.choice([1, 2, 5])
        steps = history_steps(sym, other, natural, k1, k2)
        element_ops(ctx, sym, natural, k1, k2)
        plans.append((sym, other, natural, k1, k2, steps))
    res = ctx.driver.ask_many([{"k": "ops", "ops": [st[1] for st in pl[5]]} for pl in plans])
    for (sym, other, natural, k1, k2, steps), r in zip(plans, res):
        ctx.case(["history", sym, other, natural, k1, k2], True)
        ctx.count("history")
        if "ok" not in r:
            ctx.disagreement("history", {"sym": sym, "other": other}, "driver error %s" % r)
            continue
        live = []
        try:
            for (name, op, act), snap in zip(steps, r["ok"]):
                act(live)
                bad = None
                for idx, (obj, want) in enumerate(zip(live, snap)):
                    want = {k: uf(v) for k, v in want}
                    got = counts_of(obj)
                    if not same_counts(got, want):
                        bad = (idx, got, {k: float(v) for k, v in want.items()})
                        break
                    touched = {len(live) - 1} | ({op[1]} if op[0] == "add" else set())
                    if got and idx in touched:
                        # the totals the object carries / reports = count-weighted sums of its per-species data
                        tg, tw, cnt = totals_of(obj)
                        if not same_counts(cnt, want):
                            bad = (idx, {"count column": cnt}, {k: float(v) for k, v in want.items()})
                            break
                        wrong = [c for c in tw if not close(tg[c], tw[c])]
                        if wrong:
                            bad = (idx, {c: tg[c] for c in wrong}, {c: tw[c] for c in wrong})
                            break
                if bad:
                    ctx.violation("history:%s" % name, "after step %s %s object #%d has %s, expected %s (species %s, %s; natural=%s)" %
                                  (name, op, bad[0], bad[1], bad[2], sym, other, natural),
                                  {"stream": "history", "sym": sym, "other": other, "natural": natural, "step": name,
                                   "ops": [st[1] for st in steps]})
                    break
        except Exception as e:  # noqa
            ctx.violation("history:error", "building %s / %s2%s step by step raises %r" % (sym, sym, other, e),
                          {"stream": "history", "sym": sym, "other": other, "natural": natural})


def corpus_asts():
    out = []
    for f in sorted((VERIF / "corpus" / "C10").glob("*.json")):
        out += json.loads(f.read_text())
    return out


def correspond(ctx: Ctx):
    thorough = ctx.tier == "thorough"
    tbl = Table()
    element_stream(ctx, tbl, 600 if thorough else 120)
    history_stream(ctx, tbl, 150 if thorough else 30)     # before the formulas: leaked state would show there too
    texts = formula_stream(ctx, tbl, 3000 if thorough else 240, 10 if thorough else 5)
    preprocess_stream(ctx, texts, 3000 if thorough else 400)
    malformed_stream(ctx, texts, 600 if thorough else 80)
    addmul_stream(ctx, tbl, 150 if thorough else 25)


def replay(ctx, payload):
    rp = payload.get("replay", payload)
    tbl = Table()
    if rp.get("stream") == "formula":
        r = ctx.driver.ask(formula_request(rp["ast"], rp["natural"]))
        viol, dis = judge_formula(ctx, tbl, rp["ast"], rp["natural"], r)
        print("formula:", rp.get("text"))
        if viol:
            print("VIOLATION property=C10 [%s] %s" % (viol[0], viol[1]))
        if dis:
            print("impl!=model [%s] %s" % (dis[0], dis[1]))
        return 1 if viol or dis else 0
    if rp.get("stream") == "element":
        imp = impl_element(rp["s"], rp["natural"])
        r = ctx.driver.ask({"k": "element", "s": rp["s"], "natural": rp["natural"], "sp": desc_of_text(rp["s"])})["ok"]
        sp = r["spec"]
        print("Element(%r, natural=%s) -> %s ; specification %s" % (rp["s"], rp["natural"], imp,
              {k: float(uf(v)) for k, v in sp.items()} if isinstance(sp, dict) else sp))
        bad = isinstance(sp, dict) and (imp == "err" or any(not close(imp[n], uf(sp[n])) for n in ("mass", "Z", "N", "e")))
        if bad:
            print("VIOLATION property=C10 species data differ")
        return 1 if bad else 0
    print(json.dumps(payload, indent=1)[:3000])
    return 2
