"""C03 — a unit expression means the product of its table entries.

translator : UNIT_PREFIXES / UNIT_STANDARD / QUANTITY_UNITS / SYMBOL_* of the live package
             -> lean/SciVerif/Generated/C03Tables.lean (kernel-decided facts F1..F6 re-checked by lake)
correspond : real BaseUnits(text) / Quantity(1,text)  vs  Lean model (mirror of the code)  vs
             Lean specification (AST denotation / plain grammar)
"""
import json
import math
from decimal import Decimal
from fractions import Fraction as Q

from harness import core
from harness.core import Ctx

RULE = ("(a) exhaustive: every prefix (and none) x every table symbol (admissible or not) x a set of exponent "
        "texts; (b) compound expressions rendered from a random left-associative AST generator (products, "
        "quotients, parentheses, numeric factors, system units, blanks); (c) every single-character insertion "
        "of a foreign/confusable character into samples of (a),(b), plus deletions and random strings; "
        "observables BaseUnits(text).baseunits/.magnitude/.dimensions.value()/.expression, Quantity(1,text), "
        "error vs ok, and the render/parse round trip. non-trivial = prefixed atom, fractional exponent, "
        "compound expression or malformed text; distinct = the text")
ASSUMPTIONS = [
    "float() of a number literal and the float power x ** (n/d) are taken as the real functions: magnitudes "
    "are compared with relative tolerance 1e-9 against the exact/symbolic model value evaluated in Python",
    "table magnitudes enter the Lean table as the exact decimal value of repr(float) (round trip checked)",
    "texts are ASCII; exponent numerators/denominators stay below 2^53 (int(num/gcd) in Fraction.rebase)",
    "an exponent text with denominator 0 and numerator 0 (m0:0) is outside the domain (not judged)",
    "UNIT_STANDARD/UNIT_PREFIXES are the shipped tables: no UnitEnvironment is active while a text is judged; a "
    "short stream opens and closes environments (valid / refused) and then requires the live tables to equal the "
    "generated ones and a sample of the atom cross to keep its meaning; the tables are compared again at the end",
    "results are kept finite: a text whose factors (number and every (prefix*unit)^e, absolute decades summed) "
    "exceed 1e250 is not judged (float overflow raises / underflow gives 0 in CPython); absolute tolerance 1e-300",
    "an integer literal of 15 or more digits is not judged (2^53 limit above)",
    "the documentation tables docs/source/_static/tables/*.csv are the published statement of which prefixes a "
    "unit admits; symbols missing there, tables without a Prefixes column (constants) and rows the reader "
    "cannot attribute with certainty are judged against the regenerated table only (noted, never an alarm)",
]
EXPLANATION = ("theorems: atom parser soundness/completeness/unambiguity from kernel-decided table facts; TEXT-level "
               "expression theorem for every rendering (any blanks) of every unit AST: coefficient and exponents "
               "(character scan + parenthesis depth counter + passes), dimension vector = sum e*dim, Quantity(1,text) "
               "= coefficient x product (prefix*unit)^e over R, BaseUnits magnitude (numeric factor dropped: known "
               "finding with counterexample theorem), render/parse round trip of whole exponent maps, fuel sufficiency")
EXTRA_OBLIGATIONS = [
    "SciVerif.C03.Facts.C03_fact_F1",
    "SciVerif.C03.Facts.C03_fact_F2",
    "SciVerif.C03.Facts.C03_fact_F3",
    "SciVerif.C03.Facts.C03_fact_F4",
    "SciVerif.C03.Facts.C03_fact_F7",
    "SciVerif.C03.Facts.C03_fact_prefix_lists_wellformed",
    "SciVerif.C03.Facts.C03_fact_unique",
    "SciVerif.C03.Facts.C03_fact_positive",
    "SciVerif.C03.Facts.C03_fact_prefix_definitions",
]

GEN = core.LEAN / "SciVerif" / "Generated" / "C03Tables.lean"


# ---------------------------------------------------------------- translator
def _q(x):
    """exact rational the table entry is written as (repr round-trips floats)"""
    if isinstance(x, bool):
        raise TypeError("bool magnitude")
    if isinstance(x, int):
        return Q(x)
    x = float(x)
    if not math.isfinite(x):
        raise ValueError("non-finite magnitude")
    q = Q(Decimal(repr(x)))
    if float(q) != x:
        raise ValueError("repr round trip failed for %r" % x)
    return q


def _chars(s):
    out = []
    for c in s:
        if ord(c) < 32 or ord(c) > 126:
            raise ValueError("non-printable character in table symbol %r" % s)
        out.append("'\\''" if c == "'" else ("'\\\\'" if c == "\\" else "'%s'" % c))
    return "[" + ",".join(out) + "]"


def _rat(q):
    return "mkRat %s %d" % (("(%d)" % q.numerator) if q.numerator < 0 else str(q.numerator), q.denominator)


def _dims(d):
    if len(d) != 8:
        raise ValueError("dimension vector of length %d" % len(d))
    out = []
    for x in d:
        if isinstance(x, tuple):
            n, m = x
        else:
            n, m = x, 1
        if int(n) != n or int(m) != m:
            raise ValueError("non-integral dimension exponent %r" % (x,))
        out.append("⟨%d,%d⟩" % (int(n), int(m)))
    return "[" + ",".join(out) + "]"


def classify_prefixes(p):
    """meaning of a `prefixes` entry of UNIT_STANDARD as a table value: True -> all, False/None -> none,
    a list/tuple of strings -> exactly those prefixes; anything else (a bare string such as ('m'), a
    number, a list with non-strings) is not a value of the table format -> 'malformed' (fact
    C03_fact_prefix_lists_wellformed then fails; AtomParser's three tests pass such a value)"""
    if p is True:
        return "all"
    if p is False or p is None:
        return "none"
    if isinstance(p, (list, tuple)) and all(isinstance(x, str) for x in p):
        return [str(x) for x in p]
    return "malformed"


def extract_tables():
    """canonical python view of the live tables (also used by the dump round trip)"""
    from scinumtools.units import settings as S
    from scinumtools.units.unit_types import TemperatureUnitType, LogarithmicUnitType
    prefixes = []
    for sym, row in S.UNIT_PREFIXES.items():
        prefixes.append({"sym": sym, "mag": _q(row.magnitude), "defn": str(row.definition)})
    units = []
    for sym, row in S.UNIT_STANDARD.items():
        pref = classify_prefixes(row.prefixes)
        d = row.definition
        if d is None:
            kind = ["base"]
        elif isinstance(d, str):
            kind = ["expr", d]
        elif d is TemperatureUnitType:
            kind = ["temperature"]
        elif d is LogarithmicUnitType:
            kind = ["logarithmic"]
        else:
            raise TypeError("definition column %r" % (d,))
        dims = [[int(x[0]), int(x[1])] if isinstance(x, tuple) else [int(x), 1] for x in row.dimensions]
        _dims(row.dimensions)
        units.append({"sym": sym, "mag": _q(row.magnitude), "dims": dims, "pref": pref, "kind": kind})
    sysu = []
    for sym, row in S.QUANTITY_UNITS.items():
        _dims(row[1])
        sysu.append({"sym": sym, "mag": _q(row[0]),
                     "dims": [[int(x[0]), int(x[1])] if isinstance(x, tuple) else [int(x), 1] for x in row[1]]})
    symbols = [S.SYMBOL_UNITID, S.SYMBOL_FRACTION, S.SYMBOL_MULTIPLY, S.SYMBOL_SYSTEM_UNIT]
    for s in symbols:
        if len(s) != 1:
            raise ValueError("SYMBOL_* constant %r is not one character" % s)
    if list(S.DIMENSION_LIST) != ['m', 'g', 's', 'K', 'C', 'cd', 'mol', 'rad']:
        raise ValueError("DIMENSION_LIST changed: %r" % (S.DIMENSION_LIST,))
    return {"prefixes": prefixes, "units": units, "sys": sysu, "symbols": symbols}


def render_tables(t):
    L = ["import SciVerif.Model.C03Base",
         "/-! GENERATED by harness/props/c03.py (gen_tables) from the live scinumtools.units tables. Do not edit. -/",
         "namespace SciVerif.C03.Gen", "open SciVerif.C03", ""]
    L.append("def prefixes : List PrefixRow := [")
    L.append(",\n".join("  ⟨%s, %s, %s⟩" % (_chars(p["sym"]), _rat(p["mag"]), _chars(p["defn"])) for p in t["prefixes"]))
    L.append("]\n")
    L.append("def units : List UnitRow := [")
    rows = []
    for u in t["units"]:
        pref = {"all": ".all", "none": ".none", "malformed": ".malformed"}.get(u["pref"]) if isinstance(u["pref"], str) else \
            ".only [%s]" % ",".join(_chars(x) for x in u["pref"])
        k = u["kind"]
        kind = ".expr %s" % _chars(k[1]) if k[0] == "expr" else "." + k[0]
        dims = "[" + ",".join("⟨%d,%d⟩" % (a, b) for a, b in u["dims"]) + "]"
        rows.append("  ⟨%s, %s, %s, %s, %s⟩" % (_chars(u["sym"]), _rat(u["mag"]), dims, pref, kind))
    L.append(",\n".join(rows))
    L.append("]\n")
    L.append("def sysUnits : List SysRow := [")
    L.append(",\n".join("  ⟨%s, %s, %s⟩" % (_chars(u["sym"]), _rat(u["mag"]),
                                            "[" + ",".join("⟨%d,%d⟩" % (a, b) for a, b in u["dims"]) + "]")
                        for u in t["sys"]))
    L.append("]\n")
    L.append("def tables : Tables := ⟨prefixes, units, sysUnits, [%s]⟩" %
             ",".join(_chars(s)[1:-1] for s in t["symbols"]))
    L.append("\nend SciVerif.C03.Gen\n")
    return "\n".join(L)


def gen_tables(ctx):
    t = extract_tables()
    changed = []
    if core.write_if_changed(GEN, render_tables(t)):
        changed.append(str(GEN.relative_to(core.LEAN)))
    return changed


# ---------------------------------------------------------------- real code
def _impl_base(b):
    return {"entries": [[k, int(v.num), int(v.den)] for k, v in b.baseunits.items()],
            "magnitude": float(b.magnitude),
            "dims": [list(map(int, x)) if isinstance(x, tuple) else int(x) for x in b.dimensions.value()],
            "expression": b.expression}


def impl_obs(text):
    """BaseUnits(text) and Quantity(1,text) of the real package; any exception -> 'err'"""
    from scinumtools.units import Quantity
    from scinumtools.units.base_units import BaseUnits
    out = {}
    try:
        out["base"] = _impl_base(BaseUnits(text))
    except Exception as e:
        out["base"] = "err"
        out["base_exc"] = type(e).__name__
    try:
        q = Quantity(1, text)
        out["quantity"] = {"value": float(q.magnitude.value), "base": _impl_base(q.baseunits)}
    except Exception as e:
        out["quantity"] = "err"
        out["quantity_exc"] = type(e).__name__
    return out


def impl_roundtrip(text):
    """expression -> BaseUnits again: (ok?, detail)"""
    from scinumtools.units.base_units import BaseUnits
    b = BaseUnits(text)
    if b.expression is None:
        return True, ""
    try:
        b2 = BaseUnits(b.expression)
    except Exception as e:
        return False, "re-parsing %r raises %s" % (b.expression, type(e).__name__)
    e1 = {k: Q(int(v.num), int(v.den)) for k, v in b.baseunits.items()}
    e2 = {k: Q(int(v.num), int(v.den)) for k, v in b2.baseunits.items()}
    if e1 != e2 or list(e1) != list(e2):
        return False, "units %s -> %r -> %s" % (e1, b.expression, e2)
    if b2.expression != b.expression:
        return False, "expression %r -> %r" % (b.expression, b2.expression)
    if not _close(b.magnitude, b2.magnitude):
        return False, "magnitude %r -> %r" % (b.magnitude, b2.magnitude)
    return True, ""


# ---------------------------------------------------------------- numbers
def _close(a, b, rtol=1e-9):
    a, b = float(a), float(b)
    if a == b:
        return True
    if a != a or b != b or math.isinf(a) or math.isinf(b):
        return False
    return abs(a - b) <= 1e-300 + rtol * max(abs(a), abs(b))


def _pow(base_q, en, ed):
    x = float(base_q)
    if en == 0 or ed == 1:
        return x ** en
    return x ** (en / ed)


def factors_value(fs):
    """prod float(mag) ** (en/ed), evaluated the way the package does"""
    v = 1.0
    for mn, md, en, ed in fs:
        v *= _pow(Q(mn, md), en, ed)
    return v


def log_size(coef, fs):
    """sum of |log10| of the factors (to keep results finite)"""
    s = 0.0
    if coef is not None:
        c = Q(coef[0], coef[1])
        if c != 0:
            s += abs(math.log10(abs(c.numerator)) - math.log10(c.denominator))
    for mn, md, en, ed in fs:
        if mn <= 0 or ed == 0:
            continue
        s += abs(en / ed) * abs(math.log10(mn) - math.log10(md))
    return s


# ---------------------------------------------------------------- comparison
def cmp_model(imp, mod):
    """impl vs Lean model (mirror of the code): list of differences"""
    diffs = []
    for part in ("base", "quantity"):
        i, m = imp[part], mod[part]
        if i == "err" or "err" in m:
            if (i == "err") != ("err" in m):
                diffs.append("%s: impl %s model %s" % (part, "err" if i == "err" else "ok", m.get("err", "ok")))
            continue
        ib, mb = (i, m) if part == "base" else (i["base"], m["base"])
        if ib["entries"] != mb["entries"]:
            diffs.append("%s.entries: impl %s model %s" % (part, ib["entries"], mb["entries"]))
        if ib["dims"] != mb["dims"]:
            diffs.append("%s.dims: impl %s model %s" % (part, ib["dims"], mb["dims"]))
        if ib["expression"] != mb["expression"]:
            diffs.append("%s.expression: impl %r model %r" % (part, ib["expression"], mb["expression"]))
        mv = factors_value(mb["factors"])
        if not _close(ib["magnitude"], mv):
            diffs.append("%s.magnitude: impl %r model %r" % (part, ib["magnitude"], mv))
        if part == "quantity":
            qv = float(Q(m["coef"][0], m["coef"][1])) * factors_value(m["factors"])
            if not _close(i["value"], qv):
                diffs.append("quantity.value: impl %r model %r" % (i["value"], qv))
    return diffs


def cmp_spec(imp, spec):
    """impl vs specification: (kind, what) or None.  kind in accepts-invalid / rejects-valid / units / dims / factor"""
    s_err = "err" in spec
    i_err = imp["base"] == "err" or imp["quantity"] == "err"
    if s_err:
        if imp["base"] != "err" or imp["quantity"] != "err":
            acc = imp["base"] if imp["base"] != "err" else imp["quantity"]["base"]
            return "accepts-invalid", "not a unit expression over the tables, but accepted as %s" % (acc["entries"],)
        return None
    if i_err:
        return "rejects-valid", "valid expression (units %s) rejected with %s" % (
            spec["units"], imp.get("base_exc") or imp.get("quantity_exc"))
    su = {k: Q(n, d) for k, n, d in spec["units"]}
    iu = {k: Q(n, d) for k, n, d in imp["base"]["entries"] if d != 0}
    if su != iu:
        return "units", "exponents %s, table product gives %s" % (
            {k: str(v) for k, v in iu.items()}, {k: str(v) for k, v in su.items()})
    sd = [Q(n, d) for n, d in spec["dims"]]
    idm = [Q(x[0], x[1]) if isinstance(x, list) else Q(x) for x in imp["base"]["dims"]]
    if sd != idm:
        return "dims", "dimension vector %s, sum of e*dim gives %s" % ([str(x) for x in idm], [str(x) for x in sd])
    sv = factors_value(spec["factors"])
    tot = float(Q(spec["coef"][0], spec["coef"][1])) * sv
    dropped = None
    if not _close(imp["base"]["magnitude"], tot):
        if _close(imp["base"]["magnitude"], sv):
            # exactly the numeric factor is missing (known class, see known_findings.d/C03.json); keep
            # judging the other observables of this input before reporting it
            dropped = ("numeric-factor-dropped",
                       "BaseUnits(text).magnitude is %r: the numeric factor %s of the expression is discarded "
                       "(conversion factor by the tables: %r)" % (imp["base"]["magnitude"],
                                                                  Q(spec["coef"][0], spec["coef"][1]), tot))
        else:
            return "factor", "BaseUnits magnitude %r, product of table entries gives %r" % (imp["base"]["magnitude"], tot)
    q = imp["quantity"]
    if not _close(q["value"] * q["base"]["magnitude"], tot):
        return "factor", "Quantity(1,text) is %r x %r in base units, product of table entries gives %r" % (
            q["value"], q["base"]["magnitude"], tot)
    qd = [Q(x[0], x[1]) if isinstance(x, list) else Q(x) for x in q["base"]["dims"]]
    if qd != sd:
        return "dims", "Quantity dimension vector %s, sum of e*dim gives %s" % ([str(x) for x in qd], [str(x) for x in sd])
    return dropped


# ---------------------------------------------------------------- generators
EXPS_QUICK = ["", "2", "-1", "1:2", "-3:2"]
EXPS_MORE = ["3", "-2", "2:3", "+2", "4:2", "0", "-1:-2", "12", "1:3", "-5:2", "+1:+2", "03", "1"]
FOREIGN = list("xkmda 2-:+#.e()*/,[%_'G\tµ"[:-1])   # ASCII only
CORPUS = ["dam", "xkm", "xm", "mmm", "2m", "-m", "k m", "dag", "dam2", "daar", "dar", "mm", "km", "kkm", "dakm",
          "kau", "krad", "mrad", "min", "mmin", "min-1:-2*s", "Pam", "cd2", "nmi", "cd", "ccd", "mol", "mmol", "Pa", "hPa", "mPa", "Pam", "am", "a",
          "", " ", "()", "(m)", "((m))", "(m", "m)", "(m)(s)", "(m)s", "m(s)", "m**s", "m*", "*m", "m/", "/m",
          "m*s/kg2", "kg*m2/s2", "kg*m2/(s2*A)", "m/(s*(kg/mol))", " m * s ", "( m )", "m /s", "m\t*\ns",
          "2*m", "m*2", "60*s", "m/2", "2/m", "(2)*m", "(2*m)/(4*s)", "m*(1e3)", "1*m", "1e3*m", "1.5e-3*km", "-2*m", "+2*m", "2", "2.", ".5", ".", "1.2.3", "1e", "1e+-3", "1E3",
          "m/0", "0*m", "m/0.0", "2m", "m 2", "m2:3", "m2:3:4", "m:2", "m+-2", "m2:", "m2:0", "m0", "m0:5",
          "m4:2", "m1:2*m1:2", "m*m-1", "m/m", "m/cm", "%*m/cm", "ppth*km/m", "[pi]*rad/deg", "m/cm*%2",
          "dB*m/cm", "2*%*s/min", "[alpha]-1*kg/g*PR", "J/erg*ppth1:2", "rad", "deg/rad", "%", "ppth*%", "[pi]", "[pi]2", "k[pi]",
          "#SADO", "#SADO2", "#SADO0", "#CENE/#SENE", "#foo", "#foo0", "#Zbar0", "#[euler]0", "# SADO", "k#SADO", "#", "#2", "m*#ALEN-1",
          "''", "'", "''2", "k'", "Cel", "degF", "kCel", "dB", "dBm", "BmW", "kB", "dNp", "cNp", "mNp",
          "statC", "abA2", "[emu_mu_B]", "dyn1:2*cm", "cm-1:2*g1:2/s", "m,s", "(m,s)", "((m,s))", "(m,)", "m;s"]


def admissible_pairs(t):
    keys = [p["sym"] for p in t["prefixes"]]
    out = []
    for u in t["units"]:
        adm = keys if u["pref"] in ("all", "malformed") else ([] if u["pref"] == "none" else [p for p in u["pref"] if p in keys])
        out.append((u["sym"], adm))
    return out


def render_ast(a):
    k = a[0]
    if k == "atom":
        return a[1] + a[2] + a[3]
    if k == "sys":
        return a[1] + a[2]
    if k == "num":
        return a[1]
    if k == "mul":
        return render_ast(a[1]) + "*" + render_ast(a[2])
    if k == "div":
        return render_ast(a[1]) + "/" + render_ast(a[2])
    return "(" + render_ast(a[1]) + ")"


def gen_leaf(rng, t, pairs):
    r = rng.random()
    if r < 0.09:
        return ["num", rng.choice(["2", "10", "0.5", "1e3", "2.5e-2", "-3", "1.", ".25", "1e+2", "007", "4"])]
    if r < 0.12:
        return ["sys", rng.choice(t["sys"])["sym"], rng.choice(["", "", "2", "-1", "1:2"])]
    exp = rng.choice(EXPS_QUICK + EXPS_QUICK + EXPS_MORE) if rng.random() < 0.6 else ""
    if r < 0.16:   # invalid leaf: inadmissible prefix / unknown symbol / doubled prefix
        sym, adm = rng.choice(pairs)
        keys = [p["sym"] for p in t["prefixes"]]
        bad = [p for p in keys if p not in adm]
        c = rng.random()
        if c < 0.5 and bad:
            return ["atom", rng.choice(bad), sym, exp]
        if c < 0.75:
            return ["atom", "", rng.choice(["q", "xx", "foo", "M_sol", "[x]", "mm2m"]), exp]
        return ["atom", rng.choice(keys) + rng.choice(keys), sym, exp]
    sym, adm = rng.choice(pairs)
    pre = rng.choice(adm) if adm and rng.random() < 0.6 else ""
    return ["atom", pre, sym, exp]


def gen_ast(rng, t, pairs, depth):
    def term(d):
        if d > 0 and rng.random() < 0.25:
            return ["par", expr(d - 1)]
        return gen_leaf(rng, t, pairs)

    def expr(d):
        a = term(d)
        for _ in range(rng.choice([0, 1, 1, 2, 2, 3, 4])):
            a = [rng.choice(["mul", "mul", "div"]), a, term(d)]
        return a
    return expr(depth)


def gen_cancelling(rng, t, pairs):
    """an expression whose dimensions cancel: a^e / b^e with a, b of the same non-zero dimension (different
    symbols and/or prefixes), times 1-2 table units that are dimensionless on their own (%, ppth, [pi],
    [alpha], PR, dB ...), optionally a number - the input class of Quantity.__init__'s "rebase if
    dimensions are zero" block (units with dimensions are folded into the number, dimensionless ones kept)"""
    adm = dict(pairs)
    groups = {}
    nodim = []
    for u in t["units"]:
        key = tuple(map(tuple, u["dims"]))
        if all(n == 0 for n, _ in u["dims"]):
            nodim.append(u["sym"])
        else:
            groups.setdefault(key, []).append(u["sym"])
    g = rng.choice([v for v in groups.values()])

    def atom(sym, exp):
        pre = rng.choice(adm[sym]) if adm[sym] and rng.random() < 0.6 else ""
        return ["atom", pre, sym, exp]
    e = rng.choice(["", "", "2", "1:2", "3"])
    terms = [("mul", atom(rng.choice(g), e)), ("div", atom(rng.choice(g), e))]
    if rng.random() < 0.3:      # a second cancelling pair
        g2 = rng.choice([v for v in groups.values()])
        terms += [("mul", atom(rng.choice(g2), "")), ("div", atom(rng.choice(g2), ""))]
    for _ in range(rng.choice([1, 1, 2])):
        terms.append((rng.choice(["mul", "mul", "div"]), atom(rng.choice(nodim), rng.choice(["", "", "2", "-1", "1:2"]))))
    if rng.random() < 0.25:
        terms.append((rng.choice(["mul", "div"]), ["num", rng.choice(["2", "10", "0.5", "1e3"])]))
    rng.shuffle(terms)
    i = next(k for k, x in enumerate(terms) if x[0] == "mul")
    terms = [terms[i]] + terms[:i] + terms[i + 1:]
    a = terms[0][1]
    for op, x in terms[1:]:
        if rng.random() < 0.15:
            x = ["par", x]
        a = [op, a, x]
    return a


def with_blanks(rng, text):
    out = []
    for c in text:
        if c in "*/()" and rng.random() < 0.5:
            out.append(rng.choice([" ", "  ", "\t", "\n"]) * (rng.random() < 0.5) + c + " " * (rng.random() < 0.5))
        else:
            out.append(c)
    return rng.choice(["", " ", ""]) + "".join(out) + rng.choice(["", " ", ""])


import re as _re
_ZERO_DEN = _re.compile(r":[+-]?0+(?![0-9])")
_LONG_INT = _re.compile(r"[0-9]{15,}")


def out_of_domain(text, ans, spec_key="spec"):
    """inputs the property does not talk about (see ASSUMPTIONS)"""
    if any(ord(c) > 126 or (ord(c) < 32 and c not in "\t\n") for c in text):
        return "nonascii"
    if _ZERO_DEN.search(text):
        return "zero-denominator"
    if _LONG_INT.search(text):
        return "long-integer"
    size = 0.0
    m = ans["model"]
    for part in (m["base"], m["quantity"], m["quantity"].get("base", {}) if isinstance(m["quantity"], dict) else {}):
        if isinstance(part, dict) and "err" not in part:
            size = max(size, log_size(part.get("coef"), part.get("factors", [])))
    s = ans.get(spec_key, {})
    if "err" not in s:
        size = max(size, log_size(s.get("coef"), s.get("factors", [])))
    if size > 250:
        return "overflow"
    return None


# ---------------------------------------------------------------- judging
def _pieces(text):
    return [p.strip() for p in _re.split(r"[*/()]", text) if p.strip()]


def judge(ctx, stream, text, ans, spec_key="spec", nontrivial=True, ast=None):
    """one input: impl vs model (tie) and impl vs spec (property)"""
    imp = impl_obs(text)
    ood = out_of_domain(text, ans, spec_key)
    ctx.count("stream." + stream)
    if ood:
        ctx.count("ood." + ood)
        return imp
    spec = ans[spec_key]
    ctx.case(text, nontrivial, {"text": text, "impl": imp["base"] if imp["base"] == "err" else imp["base"]["entries"]})
    ctx.count("impl." + ("err" if imp["base"] == "err" else "ok"))
    d = cmp_model(imp, ans["model"])
    if d:
        ctx.disagreement(stream, {"text": text}, "; ".join(d)[:600])
    v = cmp_spec(imp, spec)
    if v is None and imp["base"] != "err":
        ok, detail = impl_roundtrip(text)
        if not ok:
            v = ("roundtrip", "rendering and re-parsing changes the units: " + detail)
    if v is not None:
        kind, what = v
        small = text
        if len(ctx.violations) < 40:
            small = minimize(ctx, text, kind)
        cls = "expr" if _re.search(r"[*/()]", small) else "atom"
        if kind == "numeric-factor-dropped":
            cls = "BaseUnits(text)"
        ctx.violation("%s:%s" % (kind, cls), "BaseUnits/Quantity(%r): %s" % (small, what if small == text else
                      explain(ctx, small, kind)), {"text": small, "from": text, "stream": stream})
    return imp


def _fails(ctx, text, kind):
    ans = ctx.driver.ask({"p": "C03", "k": "text", "text": text})
    if "ok" not in ans:
        return None
    ans = ans["ok"]
    if out_of_domain(text, ans):
        return None
    imp = impl_obs(text)
    v = cmp_spec(imp, ans["spec"])
    if v is None and imp["base"] != "err":
        ok, detail = impl_roundtrip(text)
        if not ok:
            v = ("roundtrip", "rendering and re-parsing changes the units: " + detail)
    return v


def minimize(ctx, text, kind):
    for p in sorted(set(_pieces(text)), key=len):
        if p != text:
            v = _fails(ctx, p, kind)
            if v is not None and v[0] == kind:
                return p
    return text


def explain(ctx, text, kind):
    v = _fails(ctx, text, kind)
    return v[1] if v else kind


def ask_texts(ctx, texts):
    res = ctx.driver.ask_many([{"p": "C03", "k": "text", "text": t} for t in texts])
    out = []
    for t, r in zip(texts, res):
        if "ok" not in r:
            raise RuntimeError("driver error on %r: %s" % (t, r))
        out.append(r["ok"])
    return out


# ---------------------------------------------------------------- streams
def dump_roundtrip(ctx, t):
    d = ctx.driver.ask({"p": "C03", "k": "dump"})["ok"]
    want = {
        "prefixes": [{"sym": p["sym"], "mag": [p["mag"].numerator, p["mag"].denominator], "defn": p["defn"]} for p in t["prefixes"]],
        "units": [{"sym": u["sym"], "mag": [u["mag"].numerator, u["mag"].denominator], "dims": u["dims"],
                   "pref": u["pref"], "kind": u["kind"]} for u in t["units"]],
        "sys": [{"sym": u["sym"], "mag": [u["mag"].numerator, u["mag"].denominator], "dims": u["dims"]} for u in t["sys"]],
        "symbols": t["symbols"],
    }
    for key in want:
        if d.get(key) != want[key]:
            rows = [(a, b) for a, b in zip(d.get(key, []), want[key]) if a != b][:2]
            ctx.disagreement("dump", {"table": key}, "driver table differs from the live package: %s" % (rows,))
    ctx.count("dump.rows", len(t["prefixes"]) + len(t["units"]) + len(t["sys"]))
    # live floats are exactly the rationals the table was written with
    from scinumtools.units import settings as S
    for p in t["prefixes"]:
        if float(p["mag"]) != float(S.UNIT_PREFIXES[p["sym"]].magnitude):
            ctx.disagreement("dump", {"prefix": p["sym"]}, "magnitude round trip")
    for u in t["units"]:
        if float(u["mag"]) != float(S.UNIT_STANDARD[u["sym"]].magnitude):
            ctx.disagreement("dump", {"unit": u["sym"]}, "magnitude round trip")


# ---------------------------------------------------------------- documentation table of admissible prefixes
def docs_prefix_table(keys):
    """({symbol: 'all' | frozenset(prefixes)}, notes) from the published tables
    docs/source/_static/tables/*.csv, column 'Prefixes': 'all', empty, or the prefixed symbols
    ('kly, Mly, Gly'); a row may group symbols ('"Bm, BmW"' with '"dBm, dBmW"', '"l, L"' with '"all, all"').
    Anything that cannot be read with certainty (missing file or column, a token that is not
    prefix-key ++ symbol-of-the-row, 'all' mixed with tokens, contradictory rows) makes the symbols
    concerned UNDOCUMENTED - they are then not judged against the documentation (note, never an alarm)."""
    import csv
    d = core.REPO / "docs" / "source" / "_static" / "tables"
    out, bad, notes = {}, set(), []
    for f in ["unit_base.csv", "unit_standard.csv", "unit_logarithmic.csv", "unit_temperature.csv", "constants.csv"]:
        try:
            with open(d / f, newline="") as fh:
                rows = list(csv.DictReader(fh))
        except Exception as e:
            notes.append("documentation table %s unreadable (%s): its symbols are not judged against it" % (f, type(e).__name__))
            continue
        if not rows or "Symbol" not in rows[0] or "Prefixes" not in rows[0]:
            if rows and "Symbol" in rows[0] and "Prefixes" not in rows[0]:
                ctx_note = "documentation table %s states no prefixes column: its symbols are not judged against it" % f
                notes.append(ctx_note)
            continue
        for row in rows:
            try:
                syms = [x.strip() for x in (row.get("Symbol") or "").split(",") if x.strip()]
                pre = [x.strip() for x in (row.get("Prefixes") or "").split(",") if x.strip()]
                stated = {}
                if pre and all(x == "all" for x in pre):
                    stated = {s2: "all" for s2 in syms}
                elif any(x == "all" for x in pre):
                    raise ValueError("'all' mixed with prefixed symbols")
                else:
                    stated = {s2: set() for s2 in syms}
                    for x in pre:
                        cands = [s2 for s2 in syms if x.endswith(s2) and x[:-len(s2)] in keys]
                        if not cands:
                            raise ValueError("token %r is not prefix ++ symbol of the row" % x)
                        s2 = max(cands, key=len)
                        stated[s2].add(x[:-len(s2)])
                    stated = {k: frozenset(v) for k, v in stated.items()}
            except Exception as e:
                notes.append("documentation row %r of %s not understood (%s): not judged" % (row.get("Symbol"), f, e))
                bad.update(x.strip() for x in (row.get("Symbol") or "").split(",") if x.strip())
                continue
            for s2, v in stated.items():
                if s2 in out and out[s2] != v:
                    notes.append("documentation states two different prefix sets for %r: not judged" % s2)
                    bad.add(s2)
                out[s2] = v
    for s2 in bad:
        out.pop(s2, None)
    return out, notes


def docs_valid(doc, keys, text):
    """is `text` prefix? ++ symbol for a pair the documentation admits"""
    for s, adm in doc.items():
        if text == s:
            return True
        if text.endswith(s):
            p = text[:-len(s)]
            if p in keys and (adm == "all" or p in adm):
                return True
    return False


def docs_stream(ctx, t, impl_accepts):
    """every prefix x every symbol: the real code accepts exactly what the published documentation
    table of units admits (the documentation is the published specification of admissibility)"""
    keys = [p["sym"] for p in t["prefixes"]]
    doc, notes = docs_prefix_table(set(keys))
    for n in notes[:6]:
        ctx.notes.append(n)
    if not doc:
        ctx.notes.append("no readable documentation table docs/source/_static/tables/*.csv: prefix admissibility "
                         "is judged against the regenerated table only")
        return
    syms = [u["sym"] for u in t["units"]]
    missing = [s for s in syms if s not in doc]
    ctx.count("docs.symbols_not_documented", len(missing))
    known = {s for s in syms if s in doc}
    for s in known:
        for p in [""] + keys:
            text = p + s
            if text not in impl_accepts:
                continue
            # only texts every reading of which is documented can be judged
            if any(text.endswith(m) and (text == m or text[:-len(m)] in keys) for m in missing):
                continue
            ctx.count("docs.judged")
            want = docs_valid(doc, keys, text)
            got = impl_accepts[text]
            if want != got:
                adm = doc[s]
                if got:
                    ctx.violation("accepts-invalid:prefix-not-in-documentation",
                                  "BaseUnits/Quantity(%r) is accepted, but the published table of units "
                                  "(docs/source/_static/tables) admits for %r only %s" % (
                                      text, s, "all prefixes" if adm == "all" else (sorted(p2 + s for p2 in adm) or "no prefix")),
                                  {"text": text, "stream": "docs"})
                else:
                    ctx.violation("rejects-valid:prefix-in-documentation",
                                  "BaseUnits/Quantity(%r) is rejected, but the published table of units admits it" % text,
                                  {"text": text, "stream": "docs"})


def atoms_stream(ctx, t, exps_all):
    keys = [""] + [p["sym"] for p in t["prefixes"]]
    texts = []
    for u in t["units"]:
        for p in keys:
            texts.append(p + u["sym"])
            if exps_all:
                texts += [p + u["sym"] + e for e in (EXPS_QUICK[1:] + EXPS_MORE)]
            else:
                texts.append(p + u["sym"] + ctx.rng.choice(EXPS_QUICK[1:] + EXPS_MORE))
    for u in t["sys"]:
        texts.append(u["sym"])
        texts.append(u["sym"] + ctx.rng.choice(EXPS_QUICK[1:]))
    answers = ask_texts(ctx, texts)
    keyset = set(keys[1:])
    accepts = {}
    for text, ans in zip(texts, answers):
        imp = judge(ctx, "atoms", text, ans, nontrivial=(text[:1] in keyset or text[:2] in keyset or ":" in text))
        accepts[text] = imp["base"] != "err"
    docs_stream(ctx, t, accepts)
    return texts


def ast_stream(ctx, t, count):
    pairs = admissible_pairs(t)
    asts = [gen_cancelling(ctx.rng, t, pairs) if ctx.rng.random() < 0.15 else
            gen_ast(ctx.rng, t, pairs, ctx.rng.choice([0, 1, 1, 2, 3])) for _ in range(count)]
    texts = [render_ast(a) for a in asts]
    res = ctx.driver.ask_many([{"p": "C03", "k": "ast", "text": s, "ast": a} for s, a in zip(texts, asts)])
    for a, text, r in zip(asts, texts, res):
        if "ok" not in r:
            raise RuntimeError("driver error on %r: %s" % (text, r))
        ans = r["ok"]
        if ans["render"] != text or not ans["leftassoc"]:
            ctx.disagreement("render", {"ast": a}, "python render %r, lean render %r" % (text, ans["render"]))
            continue
        # the two routes of the specification must agree: a valid AST denotes what the grammar reads from
        # its text.  (A deliberately invalid leaf can spell a valid text - prefix 'm' + 'in' is the unit
        # 'min' - so the TEXT is always judged by the grammar, never by the generating AST.)
        if "err" not in ans["spec"] and ans["spec"] != ans["spec_text"]:
            ctx.disagreement("spec-grammar", {"text": text, "ast": a}, "denote(ast) %s grammar %s" % (
                json.dumps(ans["spec"])[:200], json.dumps(ans["spec_text"])[:200]))
        if "err" in ans["spec"] and "err" not in ans["spec_text"]:
            ctx.count("ast.invalid_leaf_spells_valid_text")
        ctx.count("ast.ops", text.count("*") + text.count("/"))
        judge(ctx, "ast", text, ans, spec_key="spec_text", ast=a)
    blanks = [with_blanks(ctx.rng, s) for s in texts[: max(50, count // 4)]]
    for text, ans in zip(blanks, ask_texts(ctx, blanks)):
        judge(ctx, "blanks", text, ans)
    return texts


def mutation_stream(ctx, seeds, per_seed_positions, chars):
    texts = []
    for s in seeds:
        pos = list(range(len(s) + 1))
        if per_seed_positions is not None and len(pos) > per_seed_positions:
            pos = sorted(ctx.rng.sample(pos, per_seed_positions))
        for i in pos:
            for c in chars:
                texts.append(s[:i] + c + s[i:])
        for i in range(len(s)):
            texts.append(s[:i] + s[i + 1:])
    texts = list(dict.fromkeys(texts))
    for text, ans in zip(texts, ask_texts(ctx, texts)):
        judge(ctx, "foreign", text, ans)


def random_stream(ctx, t, count):
    syms = [u["sym"] for u in t["units"]] + [p["sym"] for p in t["prefixes"]]
    alpha = list("mgskKCdaclhu0123456789:-+.e*/() #[]_'%")
    texts = []
    for _ in range(count):
        n = ctx.rng.randint(1, 6)
        parts = [ctx.rng.choice(syms) if ctx.rng.random() < 0.6 else ctx.rng.choice(alpha) for _ in range(n)]
        texts.append("".join(parts))
    for text, ans in zip(texts, ask_texts(ctx, texts)):
        judge(ctx, "random", text, ans)


def _table_diff(t0, t1):
    """symbols whose table rows differ between two extractions"""
    out = []
    for part, key in (("prefixes", "sym"), ("units", "sym"), ("sys", "sym")):
        a = {r[key]: r for r in t0[part]}
        b = {r[key]: r for r in t1[part]}
        for k in list(a) + [k for k in b if k not in a]:
            if a.get(k) != b.get(k):
                out.append("%s %r %s" % (part, k, "added" if k not in a else ("removed" if k not in b else "changed")))
        if [r[key] for r in t0[part]] != [r[key] for r in t1[part]] and not out:
            out.append("%s reordered" % part)
    if t0["symbols"] != t1["symbols"]:
        out.append("SYMBOL_* constants changed")
    return out


def tables_still_as_generated(ctx, t0, where, replay):
    """the live tables are still the ones the Lean table was generated from ("exactly the table entries")"""
    try:
        t1 = extract_tables()
    except Exception as e:
        ctx.violation("tables:changed-during-run", "the unit tables can no longer be read %s: %r" % (where, e), replay)
        return False
    d = _table_diff(t0, t1)
    if d:
        ctx.violation("tables:changed-during-run",
                      "the published unit tables differ %s from the tables at the start of the run: %s" % (where, "; ".join(d[:6])),
                      replay)
        return False
    return True


def env_stream(ctx, t, atom_texts, count):
    """temporary unit environments must not change what strings over the PUBLISHED tables mean: open and
    close a few UnitEnvironments (valid ones, ones refused for a duplicate symbol, ones refused by the
    uniqueness check because a custom symbol spells prefix ++ symbol), then (1) the live tables must be the
    generated ones again, (2) the custom symbols are unknown again and a sample of the exhaustive atom cross
    still has its table meaning.  Nothing is judged while an environment is open."""
    from scinumtools.units import UnitEnvironment
    rng = ctx.rng
    pairs = [(u, p) for u, adm in admissible_pairs(t) for p in adm]
    known = {u["sym"] for u in t["units"]} | {p + u for u, p in pairs}
    letters = "qwzxjvy"
    history, customs = [], []

    def fresh():
        for _ in range(50):
            s = "".join(rng.choice(letters) for _ in range(rng.randint(3, 5)))
            if s not in known and s not in customs and not any(s.endswith(k) for k in known):
                return s
        return None
    for _ in range(count):
        a = fresh()
        if a is None:
            continue
        kind = rng.choice(["valid", "collide", "duplicate", "valid"])
        units = {a: {"magnitude": rng.choice([2.0, 0.5, 3.0]), "dimensions": [1, 0, 0, 0, 0, 0, 0, 0]}}
        extra = None
        if kind == "collide":      # a custom symbol that spells an admitted prefix ++ symbol ('Gs', 'km' ...)
            u, p = rng.choice(pairs)
            extra = p + u
            if extra in {x["sym"] for x in t["units"]}:
                continue
            units[extra] = {"magnitude": 0.1, "dimensions": [0, 1, 0, 0, 0, 0, 0, 0]}
        elif kind == "duplicate":  # a symbol of the table itself
            extra = rng.choice(t["units"])["sym"]
            units[extra] = {"magnitude": 0.1, "dimensions": [0, 1, 0, 0, 0, 0, 0, 0]}
        outcome = "ok"
        try:
            with UnitEnvironment(units):
                pass
        except Exception as e:
            outcome = "refused"
        history.append([kind, list(units), outcome])
        customs.append(a)
        if extra:
            customs.append(extra)
        ctx.count("env." + kind + "." + outcome)
    replay = {"stream": "env", "environments": history}
    ok = tables_still_as_generated(ctx, t, "after opening and closing unit environments", replay)
    # strings over the published tables mean what they meant; custom symbols are unknown again
    texts = list(dict.fromkeys(customs + [c + "2" for c in customs[:4]] + ["m/" + c for c in customs[:4]] +
                               rng.sample(atom_texts, min(len(atom_texts), 150))))
    for text, ans in zip(texts, ask_texts(ctx, texts)):
        judge(ctx, "env", text, ans)
    return ok


def correspond(ctx: Ctx):
    thorough = ctx.tier == "thorough"
    t = extract_tables()
    dump_roundtrip(ctx, t)
    for text, ans in zip(CORPUS, ask_texts(ctx, CORPUS)):
        judge(ctx, "corpus", text, ans)
    atom_texts = atoms_stream(ctx, t, exps_all=thorough)
    ast_texts = ast_stream(ctx, t, 6000 if thorough else 1200)
    seeds = CORPUS[:30] + ctx.rng.sample(atom_texts, 400 if thorough else 60) + \
        ctx.rng.sample(ast_texts, 400 if thorough else 60)
    mutation_stream(ctx, seeds, None if thorough else 6, FOREIGN)
    random_stream(ctx, t, 20000 if thorough else 3000)
    env_stream(ctx, t, atom_texts, 24 if thorough else 8)
    tables_still_as_generated(ctx, t, "at the end of the run", {"stream": "end-of-run"})
    ctx.extra["exhaustive_part"] = "atoms: (none + %d prefixes) x %d symbols x %s" % (
        len(t["prefixes"]), len(t["units"]),
        ("%d exponent texts" % (1 + len(EXPS_QUICK[1:] + EXPS_MORE))) if thorough else "(no exponent + 1 random exponent text)")


def search(ctx: Ctx):
    """an obligation or the tie broke and no failing input was seen yet: full cross + more expressions"""
    t = extract_tables()
    try:
        atoms_stream(ctx, t, exps_all=True)
        ast_stream(ctx, t, 4000)
    except Exception as e:   # driver unavailable
        ctx.notes.append("search: %r" % (e,))


def replay(ctx: Ctx, payload):
    text = payload.get("replay", payload).get("text")
    if text is None:
        print(json.dumps(payload, indent=1)[:3000])
        return 2
    imp = impl_obs(text)
    print("text   : %r" % text)
    print("impl   : %s" % json.dumps(imp)[:1500])
    try:
        ans = ctx.driver.ask({"p": "C03", "k": "text", "text": text})["ok"]
    except Exception as e:
        print("driver unavailable (%r): build with ./check C03 first" % (e,))
        return 2
    print("model  : %s" % json.dumps(ans["model"])[:1500])
    print("spec   : %s" % json.dumps(ans["spec"])[:1500])
    if out_of_domain(text, ans):
        print("outside the domain: %s" % out_of_domain(text, ans))
        return 0
    v = cmp_spec(imp, ans["spec"])
    if v is None and imp["base"] != "err":
        ok, detail = impl_roundtrip(text)
        if not ok:
            v = ("roundtrip", detail)
    if v:
        print("VIOLATION property=C03 (replay) %s: %s" % v)
        return 1
    print("property holds on this input")
    return 0
