"""C03 — a unit expression means the product of its table entries.

translator : UNIT_PREFIXES / UNIT_STANDARD / QUANTITY_UNITS / SYMBOL_* of the live package
             -> lean/SciVerif/Generated/C03Tables.lean (kernel-decided facts F1..F6 re-checked by lake)
correspond : real BaseUnits(text) / Quantity(1,text)  vs  Lean model (mirror of the code)  vs
             Lean specification (AST denotation / plain grammar)
"""
import json
import math
from decimal import Decimal
from fractions import Fraction as Q

from harness import core
from harness.core import Ctx

RULE = ("(a) exhaustive: every prefix (and none) x every table symbol (admissible or not) x a set of exponent "
        "texts; (b) compound expressions rendered from a random left-associative AST generator (products, "
        "quotients, parentheses, numeric factors, system units, blanks); (c) every single-character insertion "
        "of a foreign/confusable character into samples of (a),(b), plus deletions and random strings; "
        "observables BaseUnits(text).baseunits/.magnitude/.dimensions.value()/.expression, Quantity(1,text), "
        "error vs ok, and the render/parse round trip. non-trivial = prefixed atom, fractional exponent, "
        "compound expression or malformed text; distinct = the text")
ASSUMPTIONS = [
    "float() of a number literal and the float power x ** (n/d) are taken as the real functions: magnitudes "
    "are compared with relative tolerance 1e-9 against the exact/symbolic model value evaluated in Python",
    "table magnitudes enter the Lean table as the exact decimal value of repr(float) (round trip checked)",
    "texts are ASCII; exponent numerators/denominators stay below 2^53 (int(num/gcd) in Fraction.rebase)",
    "an exponent text with denominator 0 and numerator 0 (m0:0) is outside the domain (not judged)",
    "UNIT_STANDARD/UNIT_PREFIXES are the shipped tables (no UnitEnvironment active during the check)",
]
EXPLANATION = ("theorems: atom parser soundness for every string, completeness and unambiguity from kernel-decided "
               "table facts F1-F4, rejection corollaries, exponent bookkeeping of * and / equals multiset sums, "
               "dimension vector = sum e*dim, factor = product (prefix*unit)^e, binary pass = left fold")
EXTRA_OBLIGATIONS = [
    "SciVerif.C03.Facts.C03_fact_F1",
    "SciVerif.C03.Facts.C03_fact_F2",
    "SciVerif.C03.Facts.C03_fact_F3",
    "SciVerif.C03.Facts.C03_fact_F4",
    "SciVerif.C03.Facts.C03_fact_unique",
    "SciVerif.C03.Facts.C03_fact_positive",
    "SciVerif.C03.Facts.C03_fact_prefix_definitions",
]

GEN = core.LEAN / "SciVerif" / "Generated" / "C03Tables.lean"


# ---------------------------------------------------------------- translator
def _q(x):
    """exact rational the table entry is written as (repr round-trips floats)"""
    if isinstance(x, bool):
        raise TypeError("bool magnitude")
    if isinstance(x, int):
        return Q(x)
    x = float(x)
    if not math.isfinite(x):
        raise ValueError("non-finite magnitude")
    q = Q(Decimal(repr(x)))
    if float(q) != x:
        raise ValueError("repr round trip failed for %r" % x)
    return q


def _chars(s):
    out = []
    for c in s:
        if ord(c) < 32 or ord(c) > 126:
            raise ValueError("non-printable character in table symbol %r" % s)
        out.append("'\\''" if c == "'" else ("'\\\\'" if c == "\\" else "'%s'" % c))
    return "[" + ",".join(out) + "]"


def _rat(q):
    return "mkRat %s %d" % (("(%d)" % q.numerator) if q.numerator < 0 else str(q.numerator), q.denominator)


def _dims(d):
    if len(d) != 8:
        raise ValueError("dimension vector of length %d" % len(d))
    out = []
    for x in d:
        if isinstance(x, tuple):
            n, m = x
        else:
            n, m = x, 1
        if int(n) != n or int(m) != m:
            raise ValueError("non-integral dimension exponent %r" % (x,))
        out.append("⟨%d,%d⟩" % (int(n), int(m)))
    return "[" + ",".join(out) + "]"


def extract_tables():
    """canonical python view of the live tables (also used by the dump round trip)"""
    from scinumtools.units import settings as S
    from scinumtools.units.unit_types import TemperatureUnitType, LogarithmicUnitType
    prefixes = []
    for sym, row in S.UNIT_PREFIXES.items():
        prefixes.append({"sym": sym, "mag": _q(row.magnitude), "defn": str(row.definition)})
    units = []
    for sym, row in S.UNIT_STANDARD.items():
        p = row.prefixes
        if p is True:
            pref = "all"
        elif p is False or p is None:
            pref = "none"
        elif isinstance(p, list):
            pref = [str(x) for x in p]
        else:
            raise TypeError("prefixes column %r" % (p,))
        d = row.definition
        if d is None:
            kind = ["base"]
        elif isinstance(d, str):
            kind = ["expr", d]
        elif d is TemperatureUnitType:
            kind = ["temperature"]
        elif d is LogarithmicUnitType:
            kind = ["logarithmic"]
        else:
            raise TypeError("definition column %r" % (d,))
        dims = [[int(x[0]), int(x[1])] if isinstance(x, tuple) else [int(x), 1] for x in row.dimensions]
        _dims(row.dimensions)
        units.append({"sym": sym, "mag": _q(row.magnitude), "dims": dims, "pref": pref, "kind": kind})
    sysu = []
    for sym, row in S.QUANTITY_UNITS.items():
        _dims(row[1])
        sysu.append({"sym": sym, "mag": _q(row[0]),
                     "dims": [[int(x[0]), int(x[1])] if isinstance(x, tuple) else [int(x), 1] for x in row[1]]})
    symbols = [S.SYMBOL_UNITID, S.SYMBOL_FRACTION, S.SYMBOL_MULTIPLY, S.SYMBOL_SYSTEM_UNIT]
    for s in symbols:
        if len(s) != 1:
            raise ValueError("SYMBOL_* constant %r is not one character" % s)
    if list(S.DIMENSION_LIST) != ['m', 'g', 's', 'K', 'C', 'cd', 'mol', 'rad']:
        raise ValueError("DIMENSION_LIST changed: %r" % (S.DIMENSION_LIST,))
    return {"prefixes": prefixes, "units": units, "sys": sysu, "symbols": symbols}


def render_tables(t):
    L = ["import SciVerif.Model.C03Base",
         "/-! GENERATED by harness/props/c03.py (gen_tables) from the live scinumtools.units tables. Do not edit. -/",
         "namespace SciVerif.C03.Gen", "open SciVerif.C03", ""]
    L.append("def prefixes : List PrefixRow := [")
    L.append(",\n".join("  ⟨%s, %s, %s⟩" % (_chars(p["sym"]), _rat(p["mag"]), _chars(p["defn"])) for p in t["prefixes"]))
    L.append("]\n")
    L.append("def units : List UnitRow := [")
    rows = []
    for u in t["units"]:
        pref = {"all": ".all", "none": ".none"}.get(u["pref"]) if isinstance(u["pref"], str) else \
            ".only [%s]" % ",".join(_chars(x) for x in u["pref"])
        k = u["kind"]
        kind = ".expr %s" % _chars(k[1]) if k[0] == "expr" else "." + k[0]
        dims = "[" + ",".join("⟨%d,%d⟩" % (a, b) for a, b in u["dims"]) + "]"
        rows.append("  ⟨%s, %s, %s, %s, %s⟩" % (_chars(u["sym"]), _rat(u["mag"]), dims, pref, kind))
    L.append(",\n".join(rows))
    L.append("]\n")
    L.append("def sysUnits : List SysRow := [")
    L.append(",\n".join("  ⟨%s, %s, %s⟩" % (_chars(u["sym"]), _rat(u["mag"]),
                                            "[" + ",".join("⟨%d,%d⟩" % (a, b) for a, b in u["dims"]) + "]")
                        for u in t["sys"]))
    L.append("]\n")
    L.append("def tables : Tables := ⟨prefixes, units, sysUnits, [%s]⟩" %
             ",".join(_chars(s)[1:-1] for s in t["symbols"]))
    L.append("\nend SciVerif.C03.Gen\n")
    return "\n".join(L)


def gen_tables(ctx):
    t = extract_tables()
    changed = []
    if core.write_if_changed(GEN, render_tables(t)):
        changed.append(str(GEN.relative_to(core.LEAN)))
    return changed
